#!/bin/bash
# usage: collect.sh bn|b2|r2|r3|r4|r5 Cxx
kind=$1; pid=$2
src=/tmp/${kind}_$pid/SEED
if [ "$kind" = bn ] || [ "$kind" = b2 ]; then dst=/verif/benign/$pid; else dst=/verif/seeded/$pid; fi
mkdir -p $dst
for d in $src/*/; do n=$(basename $d); mkdir -p $dst/$n; cp $d/patch.diff $d/meta.json $dst/$n/ 2>/dev/null; cp $d/demo.py $dst/$n/ 2>/dev/null; cp $d/equiv.py $dst/$n/ 2>/dev/null; done
ls $dst
