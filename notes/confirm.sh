#!/bin/bash
# usage: confirm.sh <seed dir>   (dir has patch.diff demo.py)
d=$1; n=$(basename $d); wt=/tmp/cf_$n
out=$d/confirm.txt
git -C /repo worktree add --detach $wt HEAD -q 2>/dev/null
cd $wt
cp $d/demo.py $wt/demo.py
PYTHONPATH=$wt/src timeout 900 /venv/bin/python demo.py > /tmp/cf_$n.clean.log 2>&1; rc_clean=$?
git apply $d/patch.diff; rc_apply=$?
find $wt/src -name __pycache__ -prune -exec rm -rf {} \; 2>/dev/null
PYTHONPATH=$wt/src timeout 900 /venv/bin/python demo.py > /tmp/cf_$n.patched.log 2>&1; rc_patched=$?
PYTHONPATH=$wt/src timeout 1800 /venv/bin/python -m pytest tests/unit_tests tests/contract_tests -q -p no:cacheprovider -n 4 2>&1 | grep -v WARNING > /tmp/cf_$n.test.log
summary=$(tail -1 /tmp/cf_$n.test.log)
fails=$(grep -E "^(FAILED|ERROR|SUBFAILED)" /tmp/cf_$n.test.log | sed 's/ - .*//' | sort | md5sum | cut -c1-8)
{
echo "demo on the unchanged tree: exit $rc_clean"
echo "patch applies: exit $rc_apply"
echo "demo with the change: exit $rc_patched"
echo "tests with the change: $summary"
echo "failure-set digest: $fails"
echo "--- demo output with the change (tail)"; tail -5 /tmp/cf_$n.patched.log
} > $out
cd /; git -C /repo worktree remove --force $wt
rm -f /tmp/cf_$n.*.log
echo "$n clean=$rc_clean apply=$rc_apply patched=$rc_patched tests=[$summary] fails=$fails"
