import json, sys, os
props = {}
for l in open('/verif/properties.jsonl'):
    p = json.loads(l); props[p['id']] = p

def prop_text(p):
    a = p['anchors']
    mech = '\n'.join(f"   - {m['name']} ({m['where']})" for m in a.get('mechanism', []))
    return (f"Property {p['id']}: {p['title']}\n\nStatement: {p['statement']}\n\nQuantified over: {p['quantifier']['text']}\n\n"
            f"Why the existing tests do not settle it: {p['why_tests_cant']}\n\nWhere it lives (files): {', '.join(a['files'])}\nMechanisms:\n{mech}\n"
            f"Observe at: {'; '.join(a.get('observe_at', []))}\n")

BREAK = """You are helping to evaluate a verification tool for the Python library PyTezos (baking-bad/pytezos). Your job is to write realistic *defective* changes to the library, of the kind a maintainer could plausibly commit by mistake (a refactoring slip, an 'optimisation', a misread specification, an off-by-one, a merged branch), that violate ONE semantic property while the package still imports and the existing test suite result stays unchanged.

Your private scratch copy of the repository is the git worktree {wt} (source under {wt}/src/pytezos, tests under {wt}/tests). Work ONLY inside {wt}. Never touch /repo or /verif, never read anything under /verif, and never commit and never use `git stash` (the stash is shared with other worktrees of the same repository; use `git diff > file` and `git checkout -- .` instead). Run Python as: cd {wt} && PYTHONPATH={wt}/src /venv/bin/python ... (PYTHONPATH must come first so your worktree's source is used, not the installed one; check with `python -c "import pytezos; print(pytezos.__file__)"`). There is no network.

The property:

{prop}

Produce THREE independent changes (each relative to the unchanged worktree HEAD, not stacked) that each break this property. Requirements for every change:
 1. It needs something specific to manifest - an unusual but legal input, a multi-step sequence of operations, a fault or failure at a particular point, a rarely used mode/branch/curve/kind, or two cooperating edits in different functions/files that each look harmless alone. Ordinary everyday use and the existing tests must NOT expose it.
 2. It is small (1-15 changed lines), keeps the code looking natural (no comments that give it away, no dead code, no special-casing of magic values), still byte-compiles and imports.
 3. The three changes must sit in three DIFFERENT functions (preferably different mechanisms or files among those the property depends on, including helper functions and tables they call into), and at least one of them should be in a helper or table that the anchored code relies on rather than in the most obvious function. At least one should be of the 'two cooperating sites' or 'multi-step sequence' kind if the property allows it.
 4. The offline test suite result must be unchanged. Baseline on the unchanged tree (run it once to confirm): cd {wt} && PYTHONPATH={wt}/src /venv/bin/python -m pytest tests/unit_tests tests/contract_tests -q -p no:cacheprovider -n 3 2>&1 | tail -3   (takes about a minute; a few tests that need docker/network may fail or be skipped on the unchanged tree too - what matters is that the set of failures is the same with and without your change).
 5. A demonstration script demo.py (standalone, run as `cd {wt} && PYTHONPATH={wt}/src /venv/bin/python demo.py`), which exits 0 and prints PASS on the unchanged tree and exits 1 printing what went wrong with the change applied. The demonstration must show a violation of the property as stated (compare with what the Tezos/Michelson reference prescribes, computed independently in the demo, not merely 'output differs from before').

Deliver, for change k in (1, 2, 3), a directory {wt}/SEED/{pid}-r2-k/ containing:
 - patch.diff : the output of `git diff` for that single change relative to the worktree HEAD (apply-able with `git apply` from the repository root; must pass `git apply --check` on a clean tree),
 - demo.py : the demonstration,
 - meta.json : {{"property": "{pid}", "summary": "<one or two sentences: what was changed, in which function>", "files": [...], "trigger": "<what is needed for it to manifest>", "expected": "<what the reference prescribes>", "observed": "<what happens with the change>", "tests": "<last line of the pytest summary with the change applied>"}}.
When done, revert the worktree source (git checkout -- . inside {wt}; leave SEED/ in place) and reply with a short summary of the three changes. Do not spend effort on anything else.
"""

BENIGN = """You are helping to evaluate a verification tool for the Python library PyTezos (baking-bad/pytezos). Your job is to write realistic *behaviour-preserving* changes to the library - the ordinary refactorings and clean-ups a maintainer commits all the time - in the code that implements ONE semantic property. The tool under evaluation must stay silent on them, because the property still holds.

Your private scratch copy of the repository is the git worktree {wt} (source under {wt}/src/pytezos, tests under {wt}/tests). Work ONLY inside {wt}. Never touch /repo or /verif, never read anything under /verif, and never commit and never use `git stash` (the stash is shared with other worktrees of the same repository; use `git diff > file` and `git checkout -- .` instead). Run Python as: cd {wt} && PYTHONPATH={wt}/src /venv/bin/python ... (PYTHONPATH first so your worktree's source is used; check with `python -c "import pytezos; print(pytezos.__file__)"`). There is no network.

The property:

{prop}

Produce FOUR independent refactorings (each relative to the unchanged worktree HEAD, not stacked), each touching code that the property's behaviour depends on (the anchored functions or the helpers/tables they use), each 3-40 changed lines, each keeping behaviour EXACTLY the same for every input (including which exception class is raised and when, the order of side effects, and results for unusual inputs). Use a different kind of refactoring for each of the four, chosen from things like: renaming local variables or private helpers; extracting a block into a helper function or inlining a small helper; turning an if/elif chain into a dict lookup or the reverse; replacing a loop by a comprehension/generator or the reverse; early-return instead of nested if/else; hoisting a literal into a named module-level constant; reordering independent statements; replacing `x == a or x == b` by `x in (a, b)`; using f-strings instead of %/format; adding type annotations, assertions that cannot fail, or logging; splitting a long expression into named temporaries; using a stdlib equivalent (e.g. int.from_bytes vs manual loop, `any()`/`all()`, `enumerate`, `zip`). Keep them natural - the kind of diff that would pass code review.

Requirements:
 1. The package still imports and the offline test suite result is unchanged: cd {wt} && PYTHONPATH={wt}/src /venv/bin/python -m pytest tests/unit_tests tests/contract_tests -q -p no:cacheprovider -n 3 2>&1 | tail -3 (about a minute; a few docker/network tests fail or are skipped on the unchanged tree too - the set of failures must be the same).
 2. For each refactoring, an equivalence demonstration equiv.py (standalone, run as `cd {wt} && PYTHONPATH={wt}/src /venv/bin/python equiv.py`) that exercises the touched code on a good number of inputs including edge cases relevant to the property and prints a deterministic digest of all results (and exception class names); its output must be byte-identical with and without the change. Confirm this yourself.
 3. Be honest: if you are not sure a change preserves behaviour for every input, do not deliver it - pick another.

Deliver, for refactoring k in (1, 2, 3, 4), a directory {wt}/SEED/{pid}-bn-k/ containing:
 - patch.diff : the output of `git diff` for that single change relative to the worktree HEAD (must pass `git apply --check` on a clean tree),
 - equiv.py : the equivalence demonstration,
 - meta.json : {{"property": "{pid}", "kind": "<kind of refactoring>", "summary": "<one or two sentences: what was changed, in which function>", "files": [...], "tests": "<last line of the pytest summary with the change applied>"}}.
When done, revert the worktree source (git checkout -- . inside {wt}; leave SEED/ in place) and reply with a short summary. Do not spend effort on anything else.
"""
BREAK3 = BREAK.replace("-r2-", "-r3-").replace(
 " 3. The three changes must sit in three DIFFERENT functions",
 " 3. Choose the three changes from three DIFFERENT families: (a) a boundary / off-by-one / wrong comparison at a limit that is not the most obvious one in the statement; (b) an error-handling or fallback path (an exception swallowed, converted to another class, a default returned instead of failing, a check performed too late or on the wrong object); (c) state, aliasing or ordering (a value cached, shared or mutated in place, an iteration order relied upon, two things done in the wrong order, something remembered between calls). Prefer the clauses of the statement that look LEAST likely to be exercised by a quick check, and code paths for rarely used kinds / modes / curves / shapes. The three changes must sit in three DIFFERENT functions")
BENIGN2 = BENIGN.replace("-bn-", "-b2-").replace(
 "Use a different kind of refactoring for each of the four, chosen from things like:",
 "This is a second round: go for MORE INVASIVE restructurings than renames. Use a different kind for each of the four, chosen from things like: splitting one function into two or three helpers (possibly in another module, with an import); merging two small functions; moving a function or constant to another module and importing it back; replacing recursion by an explicit loop/stack or the reverse; replacing an if/elif dispatch by a table of functions or by polymorphism (a method per class) or the reverse; changing an internal data structure (list <-> tuple, dict <-> small class / namedtuple / dataclass) without changing results; replacing try/except by an explicit pre-check where both are exactly equivalent (or the reverse); turning a nested closure into a module-level function or a functools.partial; introducing a local cache only where it is provably safe (pure function of immutable arguments, cache local to one call); using walrus / match statements / enumerate / zip / itertools; reordering entries of a dict or set literal where order cannot matter; adding assertions that cannot fail, type annotations, docstrings or debug logging; also:")
BREAK4 = BREAK.replace("-r2-", "-r4-").replace(
 " 3. The three changes must sit in three DIFFERENT functions",
 " 3. This is a fourth round; the tool already catches edits inside the anchored functions well. Choose the three changes from three DIFFERENT families: (a) a change OUTSIDE the files listed for the property - in a shared helper, base class, table, constant, default argument value, import, or module-level initialisation that the anchored code relies on - which breaks the property while the anchored functions stay textually unchanged; (b) a change of a SIBLING: one of several parallel implementations (one curve, one type class, one mode, one operation kind, one instruction of a family) made to disagree with the others in a way that only shows for that sibling; (c) a refactoring that LOOKS behaviour-preserving (a helper extracted, a loop turned into a comprehension, a condition simplified by a wrong algebraic identity, De Morgan applied wrongly, `<=` vs `<` after reordering operands, a default changed from None to a falsy value) but changes the result for some input. The three changes must sit in three DIFFERENT functions")

BREAK5 = BREAK.replace("-r2-", "-r5-").replace("Produce THREE independent changes", "Produce TWO independent changes").replace("for change k in (1, 2, 3)", "for change k in (1, 2)").replace("summary of the three changes", "summary of the two changes").replace(
 " 3. The three changes must sit in three DIFFERENT functions",
 " 3. This is a fifth round and you have about 20 minutes in total, so be decisive: read the anchored code for a few minutes, pick two ideas, implement, run the test suite ONCE per change. The tool already catches plain edits inside the anchored functions and in their direct helpers. Choose the two changes from DIFFERENT families among: (a) an interaction between two edits in two different files that each preserve behaviour alone (e.g. a helper's contract is relaxed and a caller stops normalising); (b) a subtle change in a data table, constant, regular expression, default argument, class attribute or inheritance order that the anchored code consults; (c) a change that only matters on the second use of an object (cached state, mutated argument, shared default, generator consumed twice); (d) a value-dependent slip for a rare value class only (negative, zero, empty, maximal length, non-ASCII, an uncommon prefix/curve/kind). The two changes must sit in two DIFFERENT functions")
kind, pid = sys.argv[1], sys.argv[2]
wt = {'break5': f'/tmp/r5_{pid}', 'break': f'/tmp/r2_{pid}', 'benign': f'/tmp/bn_{pid}', 'break3': f'/tmp/r3_{pid}', 'break4': f'/tmp/r4_{pid}', 'benign2': f'/tmp/b2_{pid}'}[kind]
print({'break5': BREAK5, 'break': BREAK, 'benign': BENIGN, 'break3': BREAK3, 'break4': BREAK4, 'benign2': BENIGN2}[kind].format(wt=wt, pid=pid, prop=prop_text(props[pid])))
