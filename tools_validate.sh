#!/bin/sh
# validate MANIFEST.json and every evidence file against the schemas (developer helper, not a check)
python3-vt - <<'PY'
import json, jsonschema, glob
m=json.load(open('/verif/MANIFEST.json')); jsonschema.validate(m, json.load(open('/root/.vp/MANIFEST.schema.json')))
s=json.load(open('/root/.vp/EVIDENCE.schema.json'))
for p in sorted(glob.glob('/verif/evidence/*.json')):
    jsonschema.validate(json.load(open(p)), s)
print('manifest+evidence valid:', len(m['checks']), 'checks')
PY
