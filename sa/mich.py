"""The checker's own symbolic semantics of the small Michelson subset macros expand to (oracle for C19).

Values are opaque symbols or structured terms; a code sequence is run on a symbolic stack and yields an *outcome term*:
  ('stack', [v0, v1, ...])                    normal end (top first)
  ('fail', v)                                 FAILWITH v
  ('if', kind, scrutinee, outcome_a, outcome_b)
Two expansions are equivalent iff their outcome terms are equal.  The repo's interpreter is not involved.
"""
from __future__ import annotations

from typing import Any, List, Tuple

from .absint import App, Sym, vkey, vrepr


class Stuck(Exception):
    pass


def pair(a, b):
    return ('Pair', a, b)


def car(v):
    return v[1] if isinstance(v, tuple) and v[0] == 'Pair' else ('car', v)


def cdr(v):
    return v[2] if isinstance(v, tuple) and v[0] == 'Pair' else ('cdr', v)


def update_n(n: int, new, comb):
    if n == 0:
        return new
    if n == 1:
        return pair(new, cdr(comb))
    return pair(car(comb), update_n(n - 2, new, cdr(comb)))


def get_n(n: int, comb):
    if n == 0:
        return comb
    if n == 1:
        return car(comb)
    return get_n(n - 2, cdr(comb))


def intarg(a) -> int:
    if isinstance(a, dict) and 'int' in a:
        return int(a['int'])
    raise Stuck(f'integer argument expected: {a}')


def run(code: Any, stack: List[Any]) -> Any:
    """code: Micheline JSON (list / dict) whose opaque parts are Sym; returns an outcome term."""
    stack = list(stack)
    items = code if isinstance(code, list) else [code]
    for idx, ins in enumerate(items):
        rest = items[idx + 1:]
        if isinstance(ins, list):
            out = run(ins, stack)
            return cont(out, rest)
        if isinstance(ins, Sym):  # opaque code block: one argument in, one result out, rest untouched
            if not stack:
                raise Stuck('opaque code on empty stack')
            # the block may LOOK below its argument (DIP { DUP ; CAR } ; ADD ...): what it computes is a function of everything it is run on,
            # so the stack underneath is part of the term - two expansions agree only if they hand the block the same stack
            stack = [('apply', ins.name, stack[0], ('under',) + tuple(stack[1:]))] + stack[1:]
            continue
        if not isinstance(ins, dict) or 'prim' not in ins:
            raise Stuck(f'not an instruction: {ins}')
        p = ins['prim']
        args = ins.get('args', [])
        try:
            if p == 'CAR':
                stack = [car(stack[0])] + stack[1:]
            elif p == 'CDR':
                stack = [cdr(stack[0])] + stack[1:]
            elif p == 'PAIR' and not args:
                stack = [pair(stack[0], stack[1])] + stack[2:]
            elif p == 'UNPAIR' and not args:
                stack = [car(stack[0]), cdr(stack[0])] + stack[1:]
            elif p == 'SWAP':
                stack = [stack[1], stack[0]] + stack[2:]
            elif p == 'DUP':
                n = intarg(args[0]) if args else 1
                if n < 1:
                    raise Stuck('DUP 0')
                stack = [stack[n - 1]] + stack
            elif p == 'DROP':
                n = intarg(args[0]) if args else 1
                stack = stack[n:]
            elif p == 'DIP':
                n = intarg(args[0]) if len(args) == 2 else 1
                body = args[-1]
                if len(stack) < n:
                    raise Stuck('DIP beyond the stack')
                out = run(body, stack[n:])
                return cont(map_stack(out, lambda s, pre=stack[:n]: pre + s), rest)
            elif p == 'UPDATE' and args:
                stack = [update_n(intarg(args[0]), stack[0], stack[1])] + stack[2:]
            elif p == 'GET' and args:
                stack = [get_n(intarg(args[0]), stack[0])] + stack[1:]
            elif p == 'COMPARE':
                stack = [('compare', stack[0], stack[1])] + stack[2:]
            elif p in ('EQ', 'NEQ', 'LT', 'GT', 'LE', 'GE'):
                stack = [(p, stack[0])] + stack[1:]
            elif p == 'UNIT':
                stack = ['Unit'] + stack
            elif p == 'FAILWITH':
                return ('fail', stack[0])
            elif p == 'RENAME' or p == 'CAST':
                pass
            elif p == 'IF':
                c, s = stack[0], stack[1:]
                return cont(('if', 'bool', c, run(args[0], s), run(args[1], s)), rest)
            elif p == 'IF_NONE':
                c, s = stack[0], stack[1:]
                return cont(('if', 'none', c, run(args[0], s), run(args[1], [('some-of', c)] + s)), rest)
            elif p == 'IF_LEFT':
                c, s = stack[0], stack[1:]
                return cont(('if', 'left', c, run(args[0], [('left-of', c)] + s), run(args[1], [('right-of', c)] + s)), rest)
            else:
                raise Stuck(f'instruction {p} outside the modelled subset')
        except IndexError:
            raise Stuck(f'{p}: stack too short')
    return ('stack', stack)


def map_stack(out: Any, f) -> Any:
    if out[0] == 'stack':
        return ('stack', f(out[1]))
    if out[0] == 'fail':
        return out
    return ('if', out[1], out[2], map_stack(out[3], f), map_stack(out[4], f))


def cont(out: Any, rest: List[Any]) -> Any:
    if not rest:
        return out
    if out[0] == 'stack':
        return run(rest, out[1])
    if out[0] == 'fail':
        return out
    return ('if', out[1], out[2], cont(out[3], rest), cont(out[4], rest))


def show(out: Any) -> str:
    def sv(v):
        if isinstance(v, tuple):
            return f'{v[0]}({", ".join(sv(x) for x in v[1:])})'
        if isinstance(v, Sym):
            return '$' + v.name
        return str(v)

    if out[0] == 'stack':
        return '[' + ' : '.join(sv(v) for v in out[1]) + ']'
    if out[0] == 'fail':
        return f'FAIL({sv(out[1])})'
    return f'if-{out[1]}({sv(out[2])}) then {show(out[3])} else {show(out[4])}'
