"""Runs every check on the behaviour-preserving changes kept under /verif/benign/<property>/<name>/ (written by independent sub-agents).

Each change is a `patch.diff` against /repo that leaves the behaviour of the package unchanged (a refactoring with an equivalence
demonstration `equiv.py`).  It is applied to a scratch copy of the current tree (never to /repo itself) and ALL checks are run there:
every one of them must end exactly as it does on the unchanged tree (exit 0).  An exit 1 is a false alarm, an exit 2 means the
analysis does not understand the rewritten construct - both are failures of the machinery, not of the change.

  python -m sa.benign [names...] [--jobs N] [--own]      (--own: only the check of the property the change was written for)
  python -m sa.benign --checks C13,C25 [--touching <path fragment>]   only these checks, only patches touching that path; result files are not rewritten
"""
from __future__ import annotations

import json
import os
import shutil
import subprocess
import sys
import tempfile
from concurrent.futures import ThreadPoolExecutor
from typing import Any, Dict, List

VERIF = os.path.dirname(os.path.dirname(os.path.abspath(__file__)))
REPO = os.environ.get('SA_REPO', '/repo')
BENIGN = os.path.join(VERIF, 'benign')
ALL = [f'C{i:02d}' for i in range(1, 34)]


def claimed() -> List[str]:
    from .__main__ import NOT_APPLICABLE

    return [p for p in ALL if p not in NOT_APPLICABLE]


def run_one(item: Dict[str, Any]) -> Dict[str, Any]:
    d = item['dir']
    tmp = tempfile.mkdtemp(prefix='sa-benign-')
    try:
        rp = os.path.join(tmp, 'repo')
        shutil.copytree(os.path.join(REPO, 'src'), os.path.join(rp, 'src'), ignore=shutil.ignore_patterns('__pycache__'))
        r = subprocess.run(['patch', '-p1', '-s', '-i', os.path.join(d, 'patch.diff')], cwd=rp, capture_output=True, text=True)
        if r.returncode != 0:
            return dict(item, status='STALE', detail=(r.stdout + r.stderr)[-300:], outputs={})
        vdir = os.path.join(tmp, 'verif')
        os.makedirs(vdir)
        shutil.copy(os.path.join(VERIF, 'known_findings.json'), vdir)
        env = dict(os.environ, SA_REPO=rp, SA_VERIF=vdir, PYTHONPATH=VERIF)
        outputs = {}
        for prop in item['props']:
            r = subprocess.run([sys.executable, '-m', 'sa', 'check', prop], capture_output=True, text=True, env=env, cwd=VERIF)
            if r.returncode != 0:
                lines = [ln for ln in r.stdout.splitlines() if ln.startswith(('VIOLATION', '  ', 'ANALYSIS-ERROR'))]
                outputs[prop] = {'rc': r.returncode, 'lines': lines[:10], 'err': r.stderr[-600:] if r.returncode != 1 else ''}
        alarms = [p for p, o in outputs.items() if o['rc'] == 1]
        errors = [p for p, o in outputs.items() if o['rc'] not in (0, 1)]
        return dict(item, status='SILENT' if not outputs else ('ALARM' if alarms else 'ERROR'), alarms=alarms, errors=errors, outputs=outputs)
    finally:
        shutil.rmtree(tmp, ignore_errors=True)


def main(argv: List[str]) -> int:
    jobs = 8
    if '--jobs' in argv:
        jobs = int(argv[argv.index('--jobs') + 1])
    names = [a for a in argv if not a.startswith('--') and not a.isdigit()]
    own = '--own' in argv
    only = argv[argv.index('--checks') + 1].split(',') if '--checks' in argv else None
    touching = argv[argv.index('--touching') + 1] if '--touching' in argv else None
    names = [a for a in names if a not in (','.join(only or []), touching)]
    items = []
    for prop in sorted(os.listdir(BENIGN)) if os.path.isdir(BENIGN) else []:
        pd = os.path.join(BENIGN, prop)
        if not os.path.isdir(pd) or prop == 'rejected':
            continue
        for name in sorted(os.listdir(pd)):
            d = os.path.join(pd, name)
            if not os.path.exists(os.path.join(d, 'patch.diff')) or (names and name not in names and prop not in names):
                continue
            meta = json.load(open(os.path.join(d, 'meta.json'))) if os.path.exists(os.path.join(d, 'meta.json')) else {}
            props = only if only else [prop] if own else claimed()
            if touching and touching not in open(os.path.join(d, 'patch.diff')).read():
                continue
            items.append({'name': name, 'property': prop, 'dir': d, 'props': [p for p in props if p in claimed()], 'summary': meta.get('summary', ''), 'kind': meta.get('kind', '')})
    with ThreadPoolExecutor(jobs) as ex:
        res = list(ex.map(run_one, items))
    bad = 0
    for r in res:
        extra = ','.join([f'{p}=1' for p in r.get('alarms', [])] + [f'{p}=2' for p in r.get('errors', [])])
        print(f"{r['status']:7} {r['name']:12} {extra:16} {r['summary'][:120]}")
        if only:
            bad += r['status'] != 'SILENT'
            continue
        with open(os.path.join(r['dir'], 'result.txt'), 'w') as f:
            f.write(f"status: {r['status']}\nchecks run: {' '.join(r['props'])}\n")
            for p, o in r.get('outputs', {}).items():
                f.write(f'--- check {p}: exit {o["rc"]}\n' + '\n'.join(o['lines']) + ('\n' + o['err'] if o['err'] else '') + '\n')
            if r['status'] == 'STALE':
                f.write(r.get('detail', ''))
        if r['status'] != 'SILENT':
            bad += 1
    print(f'behaviour-preserving changes: {len(res)}, all checks silent on {len(res) - bad}, not silent on {bad}')
    if not names and not own and not only:
        with open(os.path.join(BENIGN, 'README.md'), 'w') as f:
            f.write('# Behaviour-preserving changes written by independent sub-agents\n\n'
                    'Each directory holds `patch.diff` (against /repo), `equiv.py` (the author\'s equivalence demonstration: identical output\n'
                    'with and without the change), `meta.json` and `result.txt` (rewritten by `python -m sa.benign`).  The authors saw only the\n'
                    'text of the property and a scratch worktree.  Every claimed check is run on each patched scratch copy and must stay silent.\n\n'
                    '| change | written for | kind | outcome of all checks | what was changed |\n|---|---|---|---|---|\n')
            for r in res:
                out = 'silent' if r['status'] == 'SILENT' else '**' + r['status'] + '** ' + ','.join(r.get('alarms', []) + r.get('errors', []))
                f.write(f"| {r['name']} | {r['property']} | {r['kind']} | {out} | {r['summary']} |\n")
    return 1 if bad else 0


if __name__ == '__main__':
    sys.exit(main(sys.argv[1:]))
