"""Abstract model of pytezos.crypto.key.Key for C07/C08/C23: external crypto calls are opaque, with curated result lengths
and curated exceptions; base58_encode calls are recorded as (payload length, prefix) obligations."""
from __future__ import annotations

import json
import os
from typing import Any, Dict, List, Optional

from .absint import App, Builtin, ExcVal, FuncRef, Hooks, Interp, ModRef, Obj, Raised, Sym, vrepr
from .model import AnalysisError, Repo

KEY = 'pytezos.crypto.key.Key'
ENC = 'pytezos.crypto.encoding'
EXT = json.load(open(os.path.join(os.path.dirname(__file__), 'reference', 'external.json')))
CURVES = [b'ed', b'sp', b'p2', b'BL']


def term_len(v: Any) -> Optional[int]:
    """Static byte length of a term, when known."""
    if isinstance(v, (bytes, str)):
        return len(v)
    if isinstance(v, Sym):
        return v.meta.get('length')
    if isinstance(v, App):
        if v.op == 'cat':
            ls = [term_len(a) for a in v.args]
            return sum(ls) if all(l is not None for l in ls) else None  # type: ignore
        if v.op == 'mcall:to_bytes' and len(v.args) >= 2 and isinstance(v.args[1], int):
            return v.args[1]
        if v.op == 'ext' and isinstance(v.args[-1], App) and v.args[-1].op == 'len' and isinstance(v.args[-1].args[0], int):
            return v.args[-1].args[0]
        if v.op == 'mcall:digest':
            inner = v.args[0]
            if isinstance(inner, App) and inner.op == 'blake2b':
                return inner.args[-1] if isinstance(inner.args[-1], int) else None
            if isinstance(inner, App) and inner.op.endswith('blake2b_32'):
                return 32
        if v.op == 'slice' and isinstance(v.args[0], (Sym, App)):
            base = term_len(v.args[0])
            lo, hi = v.args[1], v.args[2]
            if base is not None and (lo is None or isinstance(lo, int)) and (hi is None or isinstance(hi, int)):
                return len(range(base)[lo:hi])
    return None


def ext(name: str, *args, length: Optional[int] = None) -> App:
    return App('ext', name, *args, App('len', length))


class KeyHooks(Hooks):
    def __init__(self, repo: Repo, raise_external: bool = False, opaque_methods=()):
        self.repo = repo
        self.raise_external = raise_external
        self.encodes: List[Any] = []
        self.opaque_methods = set(opaque_methods)

    def reset(self, it):
        self.encodes = []

    def inline(self, it, fi):
        if fi.name in self.opaque_methods:
            return False
        return fi.module.name == 'pytezos.crypto.key' and fi.name not in ('get_passphrase', 'validate_mnemonic', 'blake2b_32')

    def ext_name(self, callee) -> Optional[str]:
        if isinstance(callee, ModRef):
            return callee.name
        if isinstance(callee, App) and callee.op == 'attr':
            base = callee.args[0]
            if isinstance(base, App) and base.op == 'ext':
                return f'{base.args[0]}().{callee.args[1]}'
        return None

    def call(self, it, callee, args, kwargs, node):
        if isinstance(callee, FuncRef) and callee.fi is not None:
            q = callee.fi.qualname
            if q == f'{ENC}.base58_encode':
                v = args[0] if args else kwargs.get('v')
                prefix = args[1] if len(args) > 1 else kwargs.get('prefix')
                it.event('encode', term_len(v), prefix, v)
                return App('b58', v, prefix)
            if q == f'{ENC}.base58_decode':
                it.event('decode', args[0])
                if self.raise_external and it.choose(2) == 1:
                    raise Raised(ExcVal('ValueError', ('base58',)))
                return App('raw', args[0])
            if q == f'{ENC}.scrub_input':
                # str/bytes/hex normalisation; marked when a rule has to tell the normalised value from the caller's raw one
                return App('scrub', args[0]) if getattr(self, 'scrub_marks', False) else args[0]
            if q == 'pytezos.crypto.key.blake2b_32':
                return App('blake2b', args[0] if args else b'', 32)
            if q == 'pytezos.crypto.key.get_passphrase':
                return Sym('passphrase', 'bytes')
            if q == 'pytezos.crypto.key.validate_mnemonic':
                it.event('validate_mnemonic', args, kwargs)
                return None
        name = self.ext_name(callee)
        if name is not None:
            if name in ('hashlib.blake2b',):
                return App('blake2b', args[0] if args else b'', *([App('kw', 'key', kwargs['key'])] if 'key' in kwargs else []),
                           kwargs.get('digest_size', 64))
            allargs = list(args) + [App('kw', k, v) for k, v in sorted(kwargs.items())]
            it.event('ext', name, list(args), dict(kwargs))
            exc = EXT['may_raise'].get(name)
            if exc and self.raise_external and it.choose(2) == 1:
                raise Raised(ExcVal(exc, (name,)))
            ln = EXT['result_length'].get(name)
            if ln == 'arg0':
                ln = args[0] if args and isinstance(args[0], int) else None
            elif ln == 'dklen':
                ln = kwargs.get('dklen')
            elif ln == 'msg+16':
                m = term_len(kwargs.get('msg', args[0] if args else None))
                ln = m + 16 if m is not None else None
            return ext(name, *allargs, length=ln if isinstance(ln, int) else None)
        if isinstance(callee, Builtin) and callee.name == 'len' and getattr(self, 'known_lengths', False) and len(args) == 1 \
                and isinstance(args[0], Sym) and isinstance(args[0].meta.get('length'), int):
            return args[0].meta['length']
        if isinstance(callee, Builtin) and callee.name == 'int.from_bytes':
            return App('int.from_bytes', args[0], kwargs.get('byteorder', args[1] if len(args) > 1 else 'big'))
        return NotImplemented

    def truth(self, it, term):
        if isinstance(term, Sym) and term.name in ('secret_exponent', 'public_point', 'activation_code'):
            return True
        return None


def key_obj(curve: bytes, secret: bool = True, seed64: bool = False) -> Obj:
    pl = EXT['public_key_length_by_curve'][curve.decode()]
    return Obj(KEY, {
        'public_point': Sym('public_point', 'bytes', length=pl),
        'secret_exponent': Sym('secret_exponent', 'bytes', length=64 if (curve == b'ed') else 32) if secret else None,
        'curve': curve,
        'activation_code': None,
    })
