"""Memory across calls: caches that make a function's result depend on an earlier call.

Most of the properties say "for every input the result is <the reference result>".  A function that remembers something between calls keeps
that promise only if (1) what it remembers is keyed by EVERYTHING the remembered value was computed from and (2) the remembered value cannot be
changed by whoever received it.  Two shapes are decided here, on the syntax tree of the functions of the modules a property depends on:

 * decorator caches (`functools.lru_cache`, `functools.cache`, `cached_property`): the key is complete by construction, so only (2) matters:
   reported when the function returns an object that is mutable for sure (an instance of a repository class built on the spot, a list / dict /
   set display or comprehension, `list()/dict()/set()/bytearray()`, a hashlib object, a parser / JSON-loader result);
 * hand-written caches: a module-level or class-level container, or a mutable default argument, that a function both fills by subscript and reads
   back: reported when a parameter-rooted access path the stored value is computed from does not occur in the key expression (`cls.args[0]` is
   not covered by the key `cls.args[0].prim`; a whole `content` is not covered by `content['kind']`).

 * instance-level memos (`if self._m is None: self._m = <value>`): reported when a method of the class other than the constructor assigns an
   attribute the remembered value was computed from without resetting the memo.

A cache that is keyed completely and hands out immutable values is silent (it does not change behaviour).
"""
from __future__ import annotations

import ast
from typing import Any, Dict, Iterable, List, Optional, Set, Tuple

from .model import FuncInfo, Repo, dotted, norm

CACHE_DECOS = {'lru_cache', 'cache', 'cached_property', 'functools.lru_cache', 'functools.cache', 'functools.cached_property', 'cachetools.cached', 'cached'}
MUTABLE_CALLS = {'list', 'dict', 'set', 'bytearray', 'deepcopy', 'copy', 'copy.copy', 'copy.deepcopy', 'OrderedDict', 'defaultdict', 'collections.OrderedDict',
                 'collections.defaultdict', 'blake2b', 'sha256', 'sha512', 'sha3_256', 'hashlib.blake2b', 'hashlib.sha256', 'hashlib.sha512', 'hashlib.new', 'hmac.new',
                 'json.loads', 'json.load', 'simplejson.loads'}
MUTABLE_METHODS = {'parse', 'loads', 'load', 'copy', 'duplicate'}


def _deco_names(fi: FuncInfo) -> Set[str]:
    out = set()
    for d in fi.node.decorator_list:
        f = d.func if isinstance(d, ast.Call) else d
        n = dotted(f)
        if n:
            out.add(n)
    return out


def _mutable_return(repo: Repo, fi: FuncInfo, e: ast.AST, depth: int = 0) -> Optional[str]:
    """why the returned expression is a mutable object for sure, or None"""
    if isinstance(e, (ast.List, ast.Dict, ast.Set, ast.ListComp, ast.DictComp, ast.SetComp)):
        return 'a ' + type(e).__name__.replace('Comp', ' comprehension').lower()
    if isinstance(e, ast.Call):
        n = dotted(e.func)
        if n in MUTABLE_CALLS:
            return f'the result of {n}()'
        if isinstance(e.func, ast.Attribute) and e.func.attr in MUTABLE_METHODS:
            return f'the result of .{e.func.attr}()'
        if n in ('cls', 'type(self)') or (isinstance(e.func, ast.Call) and dotted(e.func.func) == 'type'):
            return 'a new instance of the class'
        if n:
            q = repo.resolve_name(fi.module, n)
            kind, obj = repo.lookup(q)
            if kind == 'class':
                return f'a new instance of {obj.name}'
            if kind == 'func' and depth < 2:
                for r in ast.walk(obj.node):
                    if isinstance(r, ast.Return) and r.value is not None:
                        why = _mutable_return(repo, obj, r.value, depth + 1)
                        if why:
                            return why
    if isinstance(e, ast.Name) and depth < 2:
        # a local bound once to a mutable expression
        binds = [a.value for a in ast.walk(fi.node) if isinstance(a, ast.Assign) and any(isinstance(t, ast.Name) and t.id == e.id for t in a.targets)]
        if len(binds) == 1:
            return _mutable_return(repo, fi, binds[0], depth + 1)
    return None


def _paths(e: ast.AST, roots: Set[str]) -> Set[str]:
    """maximal access paths (name.attr[const]...) rooted at one of `roots` that occur in e"""
    out: Set[str] = set()

    def visit(n: ast.AST, top: bool = True):
        if isinstance(n, (ast.Attribute, ast.Subscript, ast.Name)):
            base = n
            while isinstance(base, (ast.Attribute, ast.Subscript)):
                base = base.value
            if isinstance(base, ast.Name) and base.id in roots:
                # a method call x.f(...) uses x, not the bound method x.f: handled by the Call case below
                out.add(norm(n))
                # indices may mention roots too
                for sub in ast.walk(n):
                    if isinstance(sub, ast.Subscript):
                        visit(sub.slice)
                return
        if isinstance(n, ast.Call):
            if isinstance(n.func, ast.Attribute):
                visit(n.func.value)
            else:
                visit(n.func)
            for a in list(n.args) + [k.value for k in n.keywords]:
                visit(a)
            return
        for c in ast.iter_child_nodes(n):
            visit(c)

    visit(e)
    return out


def _expand_locals(fi: FuncInfo, e: ast.AST, roots: Set[str], depth: int = 0) -> ast.AST:
    """an expression mentioning what e is computed from: local names are followed to their bindings (all of them) a few levels deep"""
    if depth > 3:
        return e
    locals_ = {n.id for n in ast.walk(e) if isinstance(n, ast.Name) and n.id not in roots}
    extra: List[ast.AST] = []
    for name in locals_:
        for st in ast.walk(fi.node):
            if isinstance(st, ast.Assign) and any(isinstance(t, ast.Name) and t.id == name for t in st.targets) and st.value is not e:
                extra.append(_expand_locals(fi, st.value, roots, depth + 1))
            elif isinstance(st, (ast.For, ast.comprehension)) and isinstance(st.target, ast.Name) and st.target.id == name:
                extra.append(_expand_locals(fi, st.iter, roots, depth + 1))
    if not extra:
        return e
    return ast.Tuple(elts=[e] + extra, ctx=ast.Load())


def _containers(repo: Repo, fi: FuncInfo) -> Dict[str, str]:
    """name (or self./cls. attribute) -> description, for the long-lived containers visible to fi"""
    out: Dict[str, str] = {}
    mut = (ast.Dict, ast.List, ast.Set, ast.DictComp, ast.ListComp)
    for n, v in fi.module.assigns.items():
        if isinstance(v, mut) or (isinstance(v, ast.Call) and dotted(v.func) in ('dict', 'list', 'set', 'defaultdict', 'OrderedDict', 'collections.defaultdict', 'collections.OrderedDict')):
            out[n] = f'module-level {n}'
    if fi.cls is not None:
        for st in fi.cls.node.body:
            tgt, val = None, None
            if isinstance(st, ast.Assign) and len(st.targets) == 1 and isinstance(st.targets[0], ast.Name):
                tgt, val = st.targets[0].id, st.value
            elif isinstance(st, ast.AnnAssign) and isinstance(st.target, ast.Name) and st.value is not None:
                tgt, val = st.target.id, st.value
            if tgt and (isinstance(val, mut) or (isinstance(val, ast.Call) and dotted(val.func) in ('dict', 'list', 'set', 'defaultdict', 'OrderedDict'))):
                out[f'cls.{tgt}'] = f'class-level {fi.cls.name}.{tgt}'
                out[f'self.{tgt}'] = f'class-level {fi.cls.name}.{tgt}'
                out[f'{fi.cls.name}.{tgt}'] = f'class-level {fi.cls.name}.{tgt}'
        # instance attributes initialised to an empty container by the constructor live as long as the object (a context, a client)
        init = fi.cls.methods.get('__init__')
        if init is not None and init is not fi:
            for st in ast.walk(init.node):
                if isinstance(st, (ast.Assign, ast.AnnAssign)):
                    tg = st.targets[0] if isinstance(st, ast.Assign) else st.target
                    val = st.value
                    if isinstance(tg, ast.Attribute) and isinstance(tg.value, ast.Name) and tg.value.id == 'self' and val is not None and \
                            ((isinstance(val, (ast.Dict, ast.List, ast.Set)) and not (getattr(val, 'keys', None) or getattr(val, 'elts', None))) or
                             (isinstance(val, ast.Call) and dotted(val.func) in ('dict', 'list', 'set', 'defaultdict', 'OrderedDict') and not val.args)):
                        out.setdefault(f'self.{tg.attr}', f'instance-level {fi.cls.name}.{tg.attr} (set up empty by __init__)')
    a = fi.node.args
    params = [x.arg for x in a.posonlyargs + a.args]
    for name, d in list(zip(params[len(params) - len(a.defaults):], a.defaults)) + [(k.arg, d) for k, d in zip(a.kwonlyargs, a.kw_defaults) if d is not None]:
        if isinstance(d, mut) or (isinstance(d, ast.Call) and dotted(d.func) in ('dict', 'list', 'set', 'defaultdict')):
            out[name] = f'mutable default argument {name}'
    return out


def memory_findings(repo: Repo, functions: Iterable[FuncInfo]) -> List[Tuple[FuncInfo, str, str]]:
    """[(function, kind, explanation)] - kind in {'decorator-cache-of-mutable', 'cache-key-incomplete'}"""
    out: List[Tuple[FuncInfo, str, str]] = []
    for fi in functions:
        decos = _deco_names(fi) & CACHE_DECOS
        if decos:
            for r in ast.walk(fi.node):
                if isinstance(r, ast.Return) and r.value is not None:
                    why = _mutable_return(repo, fi, r.value)
                    if why:
                        out.append((fi, 'decorator-cache-of-mutable',
                                    f'@{sorted(decos)[0]} hands every caller the SAME object, and that object is {why}: whoever changes it changes the result of later calls'))
                        break
        conts = _containers(repo, fi)
        if not conts:
            continue
        a = fi.node.args
        roots = {x.arg for x in a.posonlyargs + a.args + a.kwonlyargs} | ({a.vararg.arg} if a.vararg else set()) | ({a.kwarg.arg} if a.kwarg else set())
        # closures: parameters of enclosing functions are inputs as well
        roots |= {n.id for n in ast.walk(fi.node) if isinstance(n, ast.Name) and isinstance(n.ctx, ast.Load)} & set(getattr(fi, 'outer_params', []) or [])
        for n in ast.walk(fi.node):
            store = None  # (container text, key expr, value expr)
            if isinstance(n, ast.Assign) and len(n.targets) == 1 and isinstance(n.targets[0], ast.Subscript):
                store = (norm(n.targets[0].value), n.targets[0].slice, n.value)
            elif isinstance(n, ast.Call) and isinstance(n.func, ast.Attribute) and n.func.attr == 'setdefault' and len(n.args) == 2:
                store = (norm(n.func.value), n.args[0], n.args[1])
            if store is None or store[0] not in conts:
                continue
            cname, key, val = store
            # is it read back (a cache), not just a registry that is only written?
            # (a membership test alone - `assert key not in REGISTRY` - is duplicate detection of a registry, not a cache)
            read_back = any((isinstance(m, ast.Subscript) and isinstance(m.ctx, ast.Load) and norm(m.value) == cname) or
                            (isinstance(m, ast.Call) and isinstance(m.func, ast.Attribute) and m.func.attr in ('get', 'setdefault') and norm(m.func.value) == cname)
                            for m in ast.walk(fi.node))
            if not read_back:
                continue
            droots = set(roots) - {cname.split('.')[0]} if cname in roots else set(roots)
            droots.discard(cname)
            key_paths = _paths(key, droots)
            val_paths = _paths(_expand_locals(fi, val, droots), droots)
            # a value path is covered if it occurs as such in the key
            missing = sorted(p for p in val_paths if p not in key_paths)
            if missing:
                out.append((fi, 'cache-key-incomplete',
                            f'{conts[cname]} remembers `{norm(val)[:70]}` under the key `{norm(key)[:50]}`, but the value is computed from {missing[:3]} which the key '
                            'does not contain: a later call that differs only there gets the earlier answer'))
    return out


def _self_attrs(e: ast.AST) -> Set[str]:
    return {n.attr for n in ast.walk(e) if isinstance(n, ast.Attribute) and isinstance(n.value, ast.Name) and n.value.id == 'self'}


def memo_findings(repo: Repo, functions: Iterable[FuncInfo]) -> List[Tuple[FuncInfo, str, str]]:
    """instance-level memo: a method stores `self.M = <value>` under a test of `self.M` (is None / falsy / hasattr) and answers from it afterwards.
    The remembered value is computed from other attributes of the same object; reported when a method of the class (other than the constructor)
    assigns one of those attributes without also resetting `self.M` - the object then keeps answering from what it was before the assignment."""
    out: List[Tuple[FuncInfo, str, str]] = []
    for fi in functions:
        if fi.cls is None or fi.name == '__init__':
            continue
        for n in ast.walk(fi.node):
            if not isinstance(n, ast.If):
                continue
            tested = _self_attrs(n.test) | {a.args[1].value for a in ast.walk(n.test) if isinstance(a, ast.Call) and dotted(a.func) == 'hasattr' and len(a.args) == 2
                                            and isinstance(a.args[1], ast.Constant) and isinstance(a.args[1].value, str)}
            for st in n.body:
                if not (isinstance(st, (ast.Assign, ast.AnnAssign)) and st.value is not None):
                    continue
                tg = st.targets[0] if isinstance(st, ast.Assign) else st.target
                if not (isinstance(tg, ast.Attribute) and isinstance(tg.value, ast.Name) and tg.value.id == 'self' and tg.attr in tested):
                    continue
                memo = tg.attr
                reads = _self_attrs(_expand_locals(fi, st.value, {'self'})) - {memo}
                if not reads:
                    continue
                for other in fi.cls.methods.values():
                    if other.name == '__init__' or other is fi:
                        continue
                    written, resets = set(), False
                    for m in ast.walk(other.node):
                        tgs = m.targets if isinstance(m, ast.Assign) else [m.target] if isinstance(m, (ast.AugAssign, ast.AnnAssign)) else []
                        for t in tgs:
                            for t1 in (t.elts if isinstance(t, (ast.Tuple, ast.List)) else [t]):
                                if isinstance(t1, ast.Attribute) and isinstance(t1.value, ast.Name) and t1.value.id == 'self':
                                    if t1.attr == memo:
                                        resets = True
                                    elif t1.attr in reads:
                                        written.add(t1.attr)
                    if written and not resets:
                        out.append((fi, 'memo-not-invalidated',
                                    f'`self.{memo}` remembers `{norm(st.value)[:70]}`, computed from self.{sorted(written)[0]}; {fi.cls.name}.{other.name} assigns '
                                    f'self.{sorted(written)[0]} without resetting self.{memo}: the object keeps answering from its earlier state'))
    return out


def functions_of(repo: Repo, prefixes: Iterable[str]) -> List[FuncInfo]:
    seen: Dict[str, FuncInfo] = {}
    for p in prefixes:
        for fi in repo.iter_functions(p):
            seen[fi.qualname] = fi
    return list(seen.values())


def check_memory(repo: Repo, chk: Any, prefixes: Iterable[str], what_breaks: str, minimum: int = 1) -> None:
    """one obligation per function that keeps a memory; one summary obligation for the scope (so that the count is visible in the evidence)"""
    fns = functions_of(repo, prefixes)
    chk.minimum('functions examined for memory across calls', len(fns), minimum)
    bad = memory_findings(repo, fns) + memo_findings(repo, fns)
    for fi, kind, why in bad:
        chk.ob('R-FLOW', fi.qualname, False, f'no memory across calls ({kind})', fi.loc, {'why': why},
               what=f'{fi.name}: {why} - {what_breaks}')
    chk.ob('R-FLOW', ' + '.join(sorted(set(prefixes)))[:120], not bad, 'no function of the scope answers from an incompletely keyed or shared-mutable cache', None,
           {'functions': len(fns), 'flagged': [f.qualname for f, _, _ in bad]})
