"""Seeded single-edit mutants (realistic slips that still compile).  `expect` is a substring of the VIOLATION report."""

F_FORGE = 'src/pytezos/michelson/forge.py'
F_NODE = 'src/pytezos/rpc/node.py'
F_ENC = 'src/pytezos/crypto/encoding.py'
F_OPF = 'src/pytezos/operation/forge.py'
F_TAGS = 'src/pytezos/michelson/tags.py'
F_KIND = 'src/pytezos/rpc/kind.py'
F_KEY = 'src/pytezos/crypto/key.py'


def m(id, props, file, old, new, expect='', why='', count=1):
    return dict(id=id, props=props if isinstance(props, list) else [props], file=file, old=old, new=new, expect=expect, why=why, count=count)


MUTANTS = [
    # ---- C09
    m('C09-row-len', 'C09', F_ENC, "(b'tz3', 36, tb([6, 161, 164]), 20,", "(b'tz3', 36, tb([6, 161, 164]), 21,", 'base58_encodings[tz3'),
    m('C09-row-prefix', 'C09', F_ENC, "tb([2, 90, 121])", "tb([2, 90, 122])", 'base58_encodings[KT1'),
    m('C09-dup-row', 'C09', F_ENC, "(b'Net', 15, tb([87, 82, 0]), 4, 'chain id'),",
      "(b'Net', 15, tb([87, 82, 0]), 4, 'chain id'),\n    (b'Ne', 15, tb([87, 82, 0]), 4, 'chain id 2'),", 'decode-ambiguous'),
    m('C09-validator', 'C09', F_ENC, "return _validate(v, prefixes=[b'txr1'])", "return _validate(v, prefixes=[b'txr1', b'txr2'])", 'validator-prefixes'),
    m('C09-decode-nolen', 'C09', F_ENC, "if len(v) == encoding[1] and v.startswith(encoding[0])", "if v.startswith(encoding[0])", 'base58_decode'),
    m('C09-decode-nocheck', 'C09', F_ENC, "return base58.b58decode_check(v)[prefix_len:]", "return base58.b58decode(v)[prefix_len:-4]", 'base58_decode'),
    m('C09-site', 'C09', 'src/pytezos/context/impl.py', "base58_encode(b'\\x00' * 4, b'Net')", "base58_encode(b'\\x00' * 8, b'Net')", 'encode-site'),
    # ---- C03
    m('C03-pair-flip', 'C03', 'src/pytezos/michelson/types/pair.py', "            if item < other.items[i]:\n                return True\n            if other.items[i] < item:\n                return False",
      "            if item < other.items[i]:\n                return True\n            if other.items[i] < item:\n                return True", 'PairType.__lt__'),
    m('C03-pair-early', 'C03', 'src/pytezos/michelson/types/pair.py', "            if other.items[i] < item:\n                return False\n        return False", "            return False\n        return False", 'PairType.__lt__'),
    m('C03-option-none', 'C03', 'src/pytezos/michelson/types/option.py', "        if other.item is None:\n            return False\n        elif self.item is None:\n            return True",
      "        if self.item is None:\n            return False\n        elif other.item is None:\n            return True", 'OptionType.__lt__'),
    m('C03-or-left', 'C03', 'src/pytezos/michelson/types/sum.py', "        if self.is_left() and other.is_right():\n            return True", "        if self.is_right() and other.is_left():\n            return True", 'OrType.__lt__'),
    m('C03-addr-rank', 'C03', 'src/pytezos/michelson/types/domain.py', "kind = 0 if is_pkh(address) else 1 if is_kt(address) else 2", "kind = 1 if is_pkh(address) else 0 if is_kt(address) else 2", 'AddressType.__lt__'),
    m('C03-addr-noep', 'C03', 'src/pytezos/michelson/types/domain.py', "kind = 0 if is_pkh(address) else 1 if is_kt(address) else 2", "kind = 0 if is_pkh(self.value) else 1 if is_kt(self.value) else 2", 'with entrypoint'),
    m('C03-key-rank', 'C03', 'src/pytezos/michelson/types/domain.py', "'sppk': (1, 0),\n            'p2pk': (2, 1),", "'sppk': (2, 0),\n            'p2pk': (1, 1),", 'KeyType.__lt__'),
    m('C03-compare-sign', 'C03', 'src/pytezos/michelson/instructions/compare.py', "    elif a < b:\n        return -1\n    else:\n        return 1", "    elif a < b:\n        return 1\n    else:\n        return -1", ''),
    m('C03-sorted-value', 'C03', 'src/pytezos/michelson/types/map.py', "items = sorted(self.items + [(key, val)], key=lambda x: x[0])", "items = sorted(self.items + [(key, val)], key=lambda x: x[1])", 'sorted site'),
    m('C03-hash-dropped', 'C03', 'src/pytezos/michelson/types/option.py', "    def __hash__(self):\n        return hash(self.item)\n", "", '__eq__ with __hash__'),
    # ---- C14
    m('C14-add-nosort', 'C14', 'src/pytezos/michelson/types/set.py', "return type(self)(sorted(items))", "return type(self)(items)", 'SetType.add'),
    m('C14-add-nomember', 'C14', 'src/pytezos/michelson/types/set.py', "        if self.contains(item):\n            return copy(self)\n        else:\n            items = [item] + self.items\n            return type(self)(sorted(items))",
      "        items = [item] + self.items\n        return type(self)(sorted(items))", 'SetType.add'),
    m('C14-literal-nocheck', 'C14', 'src/pytezos/michelson/types/set.py', "        items = list(map(cls.args[0].from_micheline_value, val_expr))\n        cls.check_constraints(items)\n", "        items = list(map(cls.args[0].from_micheline_value, val_expr))\n", 'from_micheline_value'),
    m('C14-map-sort-nokey', 'C14', 'src/pytezos/michelson/types/map.py', "items = sorted(self.items + [(key, val)], key=lambda x: x[0])", "items = sorted(self.items + [(key, val)])", 'MapType.update'),
    m('C14-map-append', 'C14', 'src/pytezos/michelson/types/map.py', "items = sorted(self.items + [(key, val)], key=lambda x: x[0])", "items = self.items + [(key, val)]", 'MapType.update'),
    m('C14-map-rekey', 'C14', 'src/pytezos/michelson/types/map.py', "items = [(k, v if k != key else val) for k, v in self.items]", "items = [(key if k == key else k, v if k != key else val) for k, v in self.items][::-1]", 'MapType.update'),
    m('C14-check-nodup', 'C14', 'src/pytezos/michelson/types/map.py', "        assert len(set(keys)) == len(keys), f'duplicate keys found'\n", "", 'rejects duplicates'),
    m('C14-check-noorder', 'C14', 'src/pytezos/michelson/types/set.py', "        assert items == sorted(items), f'set elements are not sorted'\n", "", 'rejects unsorted'),
    m('C14-inplace', 'C14', 'src/pytezos/michelson/types/set.py', "            items = [item] + self.items\n            return type(self)(sorted(items))", "            self.items.append(item)\n            return type(self)(sorted(self.items))", '.append()'),
    m('C14-mem-get', 'C14', 'src/pytezos/michelson/instructions/struct.py', "res = BoolType.from_value(src.contains(key))", "res = BoolType.from_value(src.get(key) is not None)", 'MemInstruction'),
    # ---- C32
    m('C32-len32', 'C32', 'src/pytezos/michelson/sections/view.py', "if len(name) >= 32:", "if len(name) > 32:", 'length bounded by 31'),
    m('C32-charset-space', 'C32', 'src/pytezos/michelson/sections/view.py', "r'[a-zA-Z0-9_.%@]*'", "r'[a-zA-Z0-9_.%@ ]*'", 'name characters'),
    m('C32-charset-match', 'C32', 'src/pytezos/michelson/sections/view.py', "re.fullmatch(r'[a-zA-Z0-9_.%@]*', name)", "re.match(r'[a-zA-Z0-9_.%@]*', name)", 'name characters'),
    m('C32-self-in-lambda', 'C32', 'src/pytezos/michelson/sections/view.py', "        if code.prim == 'SELF':", "        if code.prim == 'SELF' and not lambda_:", 'SELF inside LAMBDA'),
    m('C32-no-lambda-rec', 'C32', 'src/pytezos/michelson/sections/view.py', "('LAMBDA', 'LAMBDA_REC', 'lambda')", "('LAMBDA', 'lambda')", 'LAMBDA_REC'),
    m('C32-restricted-set', 'C32', 'src/pytezos/michelson/sections/view.py', "('CREATE_CONTRACT', 'SET_DELEGATE', 'TRANSFER_TOKENS')", "('CREATE_CONTRACT', 'TRANSFER_TOKENS')", 'SET_DELEGATE'),
    m('C32-first-arg-only', 'C32', 'src/pytezos/michelson/sections/view.py', "        for arg in args:\n            ViewSection.check_code(arg, lambda_ or push_lambda)", "        for arg in args[:1]:\n            ViewSection.check_code(arg, lambda_ or push_lambda)", 'check_code'),
    m('C32-push-any', 'C32', 'src/pytezos/michelson/sections/view.py', "getattr(args[0], 'prim', None) == 'lambda'", "getattr(args[0], 'prim', None) is not None", 'PUSH of another type'),
    # ---- C33
    m('C33-no-list', 'C33', 'src/pytezos/context/impl.py', "            elif isinstance(node, list):\n                return list(map(_resolve, node))\n", "", 'inside a sequence'),
    m('C33-annots-lost', 'C33', 'src/pytezos/context/impl.py', "return {k: v if k != 'args' else args for k, v in node.items()}", "return {'prim': node['prim'], 'args': args}", 'reference as first argument'),
    m('C33-silent-unknown', 'C33', 'src/pytezos/context/impl.py', "            if constant_hash not in self.global_constants:\n                raise KeyError(f'Constant {constant_hash} is not defined')\n", "            if constant_hash not in self.global_constants:\n                return node\n", 'unknown hash'),
    m('C33-no-recursion', 'C33', 'src/pytezos/context/impl.py', "return _resolve(self.global_constants[constant_hash])", "return self.global_constants[constant_hash]", 'refers to another constant'),
    m('C33-first-arg', 'C33', 'src/pytezos/context/impl.py', "args = list(map(_resolve, node['args']))", "args = [_resolve(node['args'][0])] + node['args'][1:]", 'last argument'),
    m('C33-packed-key', 'C33', 'src/pytezos/context/impl.py', "constant_hash = forge_script_expr(forge_micheline(expression))", "constant_hash = forge_script_expr(b'\\x05' + forge_micheline(expression))", 'keyed by'),
    # ---- C29
    m('C29-arity', 'C29', 'src/pytezos/rpc/search.py', "logger.debug('%s at head %s', succ_value, head)", "logger.debug('%s at head %s' % succ_value, head)", 'R-FMT'),
    m('C29-arity2', 'C29', 'src/pytezos/rpc/search.py', "logger.debug('%s -> %s at %s', last_value, value, level)", "logger.debug('%s -> %s at %s', last_value, value)", 'R-FMT'),
    m('C29-no-tail', 'C29', 'src/pytezos/rpc/search.py', "    if succ_level > last:\n", "    if succ_level > last + step:\n", 'coverage and intervals'),
    m('C29-interval-bounds', 'C29', 'src/pytezos/rpc/search.py', "            yield level + step, succ_value, level, value\n", "            yield level + step, value, level, succ_value\n", ''),
    m('C29-no-update', 'C29', 'src/pytezos/rpc/search.py', "            yield level + step, succ_value, level, value\n            succ_value = value\n", "            yield level + step, succ_value, level, value\n", 'coverage and intervals'),
    m('C29-bisect-flip', 'C29', 'src/pytezos/rpc/search.py', "        if equals(value, pred_value):\n            return bisect(level, end)\n        else:\n            return bisect(start, level)", "        if equals(value, pred_value):\n            return bisect(start, level)\n        else:\n            return bisect(level, end)", 'bisection invariant'),
    m('C29-bisect-end', 'C29', 'src/pytezos/rpc/search.py', "        if end == start + 1:\n            return end, get(end)", "        if end == start + 1:\n            return start, get(start)", 'bisection invariant'),
    m('C29-walk-restart', 'C29', 'src/pytezos/rpc/search.py', "level, value = find_state_change(head, level, get, equals, pred_value=value)", "level, value = find_state_change(head, last, get, equals, pred_value=value)", 'chained'),
    m('C29-walk-bounds', 'C29', 'src/pytezos/rpc/search.py', "            int_head,\n            int_tail,\n            get,", "            int_tail,\n            int_head,\n            get,", 'own bounds'),
    # ---- C31
    m('C31-order', 'C31', 'src/pytezos/crypto/hash.py', "return blake2b(left + right, digest_size=32).digest()", "return blake2b(right + left, digest_size=32).digest()", '_hash_tuple'),
    m('C31-digest', 'C31', 'src/pytezos/crypto/hash.py', "return blake2b(left + right, digest_size=32).digest()", "return blake2b(left + right, digest_size=64).digest()", '_hash_tuple'),
    m('C31-pad-first', 'C31', 'src/pytezos/crypto/hash.py', "a = res + [res[-1]]", "a = res + [res[0]]", 'Merkle root of'),
    m('C31-step-index', 'C31', 'src/pytezos/crypto/hash.py', "        a[m] = _hash_tuple(a[n], a[n])", "        a[m] = _hash_tuple(a[n - 1], a[n])", 'Merkle root of'),
    m('C31-step-odd', 'C31', 'src/pytezos/crypto/hash.py', "            a[m + 1] = a[m]\n            return step(m + 1)", "            return step(m + 1)", 'Merkle root of'),
    m('C31-round-le', 'C31', 'src/pytezos/crypto/hash.py', "payload_round.to_bytes(4, 'big')", "payload_round.to_bytes(4, 'little')", 'block_payload_hash'),
    m('C31-single', 'C31', 'src/pytezos/crypto/hash.py', "    elif len(hashes) == 1:\n        return _hash_tuple(hashes[0])", "    elif len(hashes) == 1:\n        return hashes[0]", 'Merkle root of 1'),
    m('C31-prefix', 'C31', 'src/pytezos/crypto/hash.py', "return base58_encode(res, b'LLo').decode()", "return base58_encode(res, b'Lo').decode()", 'operation_list_list_hash'),
    # ---- C07 / C08 / C23
    m('C07-hasher-sign', 'C07', F_KEY, "signature = ecdsa.serialize_compact(\n                ecdsa.der_to_cdata(pk.sign(encoded_message, hasher=lambda x: blake2b_32(x).digest()))",
      "signature = ecdsa.serialize_compact(\n                ecdsa.der_to_cdata(pk.sign(encoded_message, hasher=lambda x: hashlib.sha256(x).digest()))", 'verify uses the digest sign uses'),
    m('C07-no-bl-verify', 'C07', F_KEY, "        elif self.curve == b'BL':\n            if not G2.Verify(", "        elif self.curve == b'BX':\n            if not G2.Verify(", 'curve BL handled'),
    m('C07-generic-bl', ['C07', 'C23'], F_KEY, "if generic and self.curve != b'BL':", "if generic:", 'base58 row'),
    m('C07-ecdsa-error', 'C07', F_KEY, "            except fastecdsa.ecdsa.EcdsaError as exc:  # r or s outside [1, q)\n                raise ValueError('Signature is invalid.') from exc\n", "            except KeyError as exc:\n                raise ValueError('Signature is invalid.') from exc\n", 'only ValueError escapes'),
    m('C07-ed-nodigest', 'C07', F_KEY, "            digest = pysodium.crypto_generichash(encoded_message)\n            signature = pysodium.crypto_sign_detached(digest, self.secret_exponent)",
      "            digest = encoded_message\n            signature = pysodium.crypto_sign_detached(digest, self.secret_exponent)", 'message digest'),
    m('C07-checksig-handler', 'C07', 'src/pytezos/michelson/instructions/crypto.py', "        except ValueError:\n            res = BoolType(False)\n        else:\n            res = BoolType(True)", "        except ValueError:\n            res = BoolType(True)\n        else:\n            res = BoolType(True)", 'CheckSignatureInstruction'),
    m('C08-iterations', 'C08', F_KEY, "                salt=salt,\n                iterations=32768,\n                dklen=32,\n            )\n            encrypted_sk = pysodium.crypto_secretbox(", "                salt=salt,\n                iterations=32767,\n                dklen=32,\n            )\n            encrypted_sk = pysodium.crypto_secretbox(", 'KDF iterations'),
    m('C08-salt-slice', 'C08', F_KEY, "salt, encrypted_sk = encoded_key[:8], encoded_key[8:]", "salt, encrypted_sk = encoded_key[:16], encoded_key[16:]", 'salt'),
    m('C08-tz-swap', 'C08', F_KEY, "{b'ed': b'tz1', b'sp': b'tz2', b'p2': b'tz3', b'BL': b'tz4'}", "{b'ed': b'tz1', b'sp': b'tz3', b'p2': b'tz2', b'BL': b'tz4'}", 'public_key_hash'),
    m('C08-len-whitelist', 'C08', F_KEY, "in [54, 55, 76, 88, 98]", "in [54, 55, 88, 98]", 'imports BLpk'),
    m('C08-bls-endian', 'C08', F_KEY, "            sk_int = int.from_bytes(self.secret_exponent, byteorder='little')\n            signature = G2.Sign(", "            sk_int = int.from_bytes(self.secret_exponent, byteorder='big')\n            signature = G2.Sign(", 'BLS scalar'),
    m('C08-pkh-size', 'C08', F_KEY, "        pkh = blake2b(self.public_point, digest_size=20).digest()\n        prefix = {", "        pkh = blake2b(self.public_point, digest_size=32).digest()\n        prefix = {", 'public_key_hash'),
    m('C08-novalidate', 'C08', F_KEY, "        validate: bool = True,", "        validate: bool = False,", 'validate defaults'),
    m('C08-pk-as-sk', 'C08', F_KEY, "        is_secret = public_or_secret == b'sk'\n", "        is_secret = public_or_secret != b'sk'\n", 'imports'),
    m('C08-hashkey', 'C08', 'src/pytezos/michelson/instructions/crypto.py', "res = KeyHashType.from_value(key.public_key_hash())", "res = KeyHashType.from_value(key.public_key())", 'HASH_KEY'),
    m('C23-watermark', 'C23', 'src/pytezos/operation/group.py', "            watermark = b'\\x03'", "            watermark = b'\\x04'", 'watermark 03'),
    m('C23-pass', 'C23', F_KIND, "    'endorsement_with_slot': 0,\n    'proposals': 1,", "    'endorsement_with_slot': 3,\n    'proposals': 1,", 'endorsement_with_slot'),
    m('C23-payload-order', 'C23', 'src/pytezos/operation/group.py', "return bytes.fromhex(self.forge()) + forge_base58(self.signature)", "return forge_base58(self.signature) + bytes.fromhex(self.forge())", 'binary_payload'),
    m('C23-hash-prefix', 'C23', 'src/pytezos/operation/group.py', "return base58_encode(hash_digest, b'o').decode()", "return base58_encode(hash_digest, b'B').decode()", 'OperationGroup.hash'),
    m('C23-not-generic', 'C23', 'src/pytezos/operation/group.py', "signature = self.key.sign(message=message, generic=True)", "signature = self.key.sign(message=message)", 'generic=True'),
    m('C23-nochain', 'C23', 'src/pytezos/operation/group.py', "            watermark = b'\\x02' + base58_decode(self.chain_id.encode())", "            watermark = b'\\x02'", 'watermark 02'),
    # ---- C05
    m('C05-tag-swap', 'C05', F_TAGS, "'DUG': b'\\x71',", "'DUG': b'\\x70',", 'prim_tags[DUG]'),
    m('C05-filler-2args', 'C05', F_FORGE, "elif args_len >= 3:\n                res.append(b'\\x00' * 4)", "elif args_len >= 2:\n                res.append(b'\\x00' * 4)", 'shape prim2a0'),
    m('C05-no-trailing', 'C05', F_FORGE, "    assert ptr == len(data), f'have not reach EOS (pos {ptr}/{len(data)})'\n", "", 'trailing-bytes-rejected'),
    m('C05-no-tag10', 'C05', F_FORGE, "elif tag == 10:", "elif tag == 11:", 'tag 10'),
    m('C05-mask', 'C05', F_FORGE, "value |= data[0] & 0b00111111", "value |= data[0] & 0b01111111", 'zarith bit layout'),
    m('C05-array-assert', 'C05', F_FORGE, "    assert len(data) >= len_bytes + length, f'not enough bytes to parse array body, wanted {length}'\n", "", 'truncated-body-rejected'),
    m('C05-gettag', 'C05', F_FORGE, "tag = min(args_len * 2 + 3 + (1 if annots_len > 0 else 0), 9)", "tag = min(args_len * 2 + 3 + (1 if annots_len > 1 else 0), 9)", 'get_tag'),
    m('C05-nonminimal', 'C05', F_FORGE, "    if length > 1 and data[length - 1] == 0:\n        raise ValueError('non-minimal integer encoding')\n", "", 'non-minimal-integer-rejected'),
    m('C05-seq-overrun', 'C05', F_FORGE, "        assert ptr == end, f'out of sequence boundaries'\n", "", 'sequence-overrun'),
    # ---- C10
    m('C10-tz-swap', 'C10', F_FORGE, "    elif prefix == 'tz2':\n        res = b'\\x00\\x01' + address", "    elif prefix == 'tz2':\n        res = b'\\x00\\x02' + address", 'kind=tz2'),
    m('C10-sr-tag', 'C10', F_FORGE, "elif data.startswith(b'\\x03') and data.endswith(b'\\x00'):", "elif data.startswith(b'\\x04') and data.endswith(b'\\x00'):", 'reads back sr1/22'),
    m('C10-no-len21', 'C10', F_FORGE, "    if len(data) == 21:\n", "    if len(data) == 20:\n", 'reads back tz1/21'),
    m('C10-key-swap', 'C10', F_FORGE, "        b'\\x01': b'sppk',\n        b'\\x02': b'p2pk',", "        b'\\x01': b'p2pk',\n        b'\\x02': b'sppk',", 'unforge_public_key'),
    m('C10-contract-23', 'C10', F_FORGE, "    if len(data) > 22:\n        res += f'%{data[22:].decode()}'", "    if len(data) > 22:\n        res += f'%{data[23:].decode()}'", 'unforge_contract'),
    m('C10-blsig', 'C10', F_FORGE, "    if len(data) == 96:\n        return base58_encode(data, b'BLsig').decode()\n", "", 'payload of 96 bytes'),
    # ---- C06
    m('C06-limits-swapped', 'C06', F_OPF, "    res += forge_nat(int(content['gas_limit']))\n    res += forge_nat(int(content['storage_limit']))\n    res += forge_nat(int(content['amount']))",
      "    res += forge_nat(int(content['storage_limit']))\n    res += forge_nat(int(content['gas_limit']))\n    res += forge_nat(int(content['amount']))", 'kind=transaction'),
    m('C06-tz-only', 'C06', F_OPF, "    res += forge_address(content['source'], tz_only=True)\n    res += forge_nat(int(content['fee']))\n    res += forge_nat(int(content['counter']))\n    res += forge_nat(int(content['gas_limit']))\n    res += forge_nat(int(content['storage_limit']))\n    res += forge_array(forge_micheline(content['value']))",
      "    res += forge_address(content['source'])\n    res += forge_nat(int(content['fee']))\n    res += forge_nat(int(content['counter']))\n    res += forge_nat(int(content['gas_limit']))\n    res += forge_nat(int(content['storage_limit']))\n    res += forge_array(forge_micheline(content['value']))", 'kind=register_global_constant'),
    m('C06-ep-len4', 'C06', F_OPF, "forge_array(entrypoint.encode(), len_bytes=1)", "forge_array(entrypoint.encode())", 'entrypoint=named'),
    m('C06-tag', 'C06', F_KIND, "'transfer_ticket': 158,", "'transfer_ticket': 157,", 'transfer_ticket'),
    m('C06-reserved', 'C06', F_OPF, "    'stake': b'\\x06',\n", "", 'row stake'),
    m('C06-hasparams', 'C06', F_OPF, "content['parameters']['entrypoint'] == 'default' and content['parameters']['value'] == {'prim': 'Unit'}",
      "content['parameters']['entrypoint'] == 'default' or content['parameters']['value'] == {'prim': 'Unit'}", 'has_parameters'),
    m('C06-delegate-flag', 'C06', F_OPF, "    if content.get('delegate'):\n        res += forge_bool(True)\n        res += forge_address(content['delegate'], tz_only=True)\n    else:\n        res += forge_bool(False)\n\n    return res",
      "    if content.get('delegate'):\n        res += forge_bool(True)\n        res += forge_address(content['delegate'], tz_only=True)\n\n    return res", 'kind=delegation'),
    # ---- C26
    m('C26-ge400', 'C26', F_NODE, "res.status_code >= 500", "res.status_code >= 400", 're-send only after transient 5xx'),
    m('C26-offbyone', 'C26', F_NODE, "attempt < TRANSIENT_RETRY_ATTEMPTS - 1", "attempt < TRANSIENT_RETRY_ATTEMPTS - 2", 'attempts'),
    m('C26-nocap', 'C26', F_NODE, "delay = min(delay * 2, TRANSIENT_RETRY_MAX_DELAY)", "delay = delay * 2", 'delays non-decreasing and capped'),
    m('C26-proto-after', 'C26', F_NODE,
      "            if any(isinstance(err, dict) and err.get('id', '').startswith('proto.') for err in body):\n                return False\n            if any(isinstance(err, dict) and err.get('kind') == 'temporary' for err in body):\n                return True",
      "            if any(isinstance(err, dict) and err.get('kind') == 'temporary' for err in body):\n                return True\n            if any(isinstance(err, dict) and err.get('id', '').startswith('proto.') for err in body):\n                return False", '_is_transient_response'),
    m('C26-attempts7', 'C26', F_NODE, "TRANSIENT_RETRY_ATTEMPTS = 6", "TRANSIENT_RETRY_ATTEMPTS = 7", 'attempts'),
    m('C26-shrinking-delay', 'C26', F_NODE, "delay = min(delay * 2, TRANSIENT_RETRY_MAX_DELAY)", "delay = min(delay / 2, TRANSIENT_RETRY_MAX_DELAY)", 'delays'),
    m('C26-return-non200', 'C26', F_NODE, "        if res.status_code != 200:\n", "        if res.status_code >= 500:\n", 'result from the last response'),
    # ---- C27
    m('C27-order', 'C27', F_NODE, "        variants.append(chunks[-1])\n        variants.append(chunks[-2])", "        variants.append(chunks[-2])\n        variants.append(chunks[-1])", '_gen_error_variants'),
    m('C27-first-error', 'C27', F_NODE, "error = errors[-1]", "error = errors[0]", 'from_errors'),
    # ---- C28
    m('C28-advance-after', 'C28', F_NODE, "        node = self.nodes[self._next_i]\n        self._next_i = (self._next_i + 1) % len(self.nodes)\n        return node.request(method, path, **kwargs)",
      "        res = self.nodes[self._next_i].request(method, path, **kwargs)\n        self._next_i = (self._next_i + 1) % len(self.nodes)\n        return res", 'raising node'),
    m('C28-wrong-node', 'C28', F_NODE, "        node = self.nodes[self._next_i]\n        self._next_i = (self._next_i + 1) % len(self.nodes)\n        return node.request(method, path, **kwargs)",
      "        self._next_i = (self._next_i + 1) % len(self.nodes)\n        node = self.nodes[self._next_i]\n        return node.request(method, path, **kwargs)", 'request goes to nodes[i]'),
    m('C28-no-mod', 'C28', F_NODE, "self._next_i = (self._next_i + 1) % len(self.nodes)\n        return node", "self._next_i = (self._next_i + 1) % (len(self.nodes) + 1)\n        return node", 'index advanced'),
]
