"""Prefix lists of the base58 validators of pytezos.crypto.encoding, found by interpretation (not by matching the call syntax).

A validator `is_x(v)` / `validate_x(v)` is interpreted with an opaque argument; every call that reaches `_validate` is intercepted and its
`prefixes` argument (bound by the signature of `_validate`, so positional / keyword / through a helper / through a module-level constant are all
the same) is recorded.  The prefixes of a validator are those of all its paths.
"""
from __future__ import annotations

from typing import Any, Dict, List, Optional

from .absint import App, ExcVal, FuncRef, Hooks, Interp, Raised, Sym
from .model import AnalysisError, Repo

ENC = 'pytezos.crypto.encoding'


def reaching_validate(repo: Repo) -> set:
    """names of the module-level functions of the encoding module from which a call chain (by plain name) leads to _validate"""
    import ast

    mi = repo.module(ENC)
    calls = {}
    for name, fi in mi.functions.items():
        calls[name] = {n.func.id for n in ast.walk(fi.node) if isinstance(n, ast.Call) and isinstance(n.func, ast.Name)}
    reach = {'_validate'}
    changed = True
    while changed:
        changed = False
        for name, cs in calls.items():
            if name not in reach and cs & reach:
                reach.add(name)
                changed = True
    return reach


class _Rec(Hooks):
    def __init__(self, reach):
        self.seen: List[Any] = []
        self.reach = reach

    def inline(self, it, fi):
        return fi.module.name == ENC and fi.name != '_validate' and fi.name in self.reach

    def call(self, it, callee, args, kwargs, node):
        if isinstance(callee, FuncRef) and callee.fi is not None and callee.fi.qualname == f'{ENC}._validate':
            names = [a.arg for a in callee.fi.node.args.args]
            bound = {**dict(zip(names, args)), **kwargs}
            self.seen.append(bound.get('prefixes'))
            # both outcomes of the validation: accepted, or rejected with ValueError
            if it.choose(2) == 0:
                return None
            raise Raised(ExcVal('ValueError', ('Unknown prefix.',)))
        return NotImplemented


def validator_prefixes(repo: Repo, fname: str) -> Optional[List[bytes]]:
    """Constant list of byte prefixes handed to _validate on the paths of ENC.<fname>, or None if the function never validates."""
    fi = repo.func(f'{ENC}.{fname}')
    reach = reaching_validate(repo)
    if fname not in reach:
        return None
    h = _Rec(reach)
    it = Interp(repo, h, max_depth=6)
    it.run_function(fi, [Sym('v', 'bytes')])
    if not h.seen:
        return None
    out: List[bytes] = []
    for pl in h.seen:
        if not isinstance(pl, (list, tuple)) or not all(isinstance(p, bytes) for p in pl):
            raise AnalysisError(f'validator prefix list of {fname} is not a constant list of bytes')
        for p in pl:
            if p not in out:
                out.append(p)
    return out


def all_validators(repo: Repo) -> Dict[str, List[bytes]]:
    """Every module-level function of the encoding module with a single parameter that reaches _validate."""
    out: Dict[str, List[bytes]] = {}
    for fi in repo.iter_functions(ENC + '.'):
        if fi.cls is not None or fi.name.startswith('_') or len(fi.node.args.args) != 1:
            continue
        try:
            pl = validator_prefixes(repo, fi.name)
        except AnalysisError:
            raise
        if pl is not None:
            out[fi.name] = pl
    return out
