"""Abstract parametrised Michelson type classes (`TCls`) and values for interpreting the ADT / entrypoint / python-object layers.

pytezos creates a Python class per concrete Michelson type at run time (`create_type`).  Here such a class is a `TCls`
(primitive, argument classes, field/type annotation); the REAL classmethods and methods of the corresponding repo class are bound
to it by the hooks, so `iter_type_args`, `get_type_layout`, `list_entrypoints`, `from_parameters`, ... are interpreted as written.
"""
from __future__ import annotations

from typing import Any, Dict, List, Optional

from .absint import App, Builtin, ClassRef, ExcVal, FuncRef, Hooks, Interp, ModRef, Obj, Raised, Sym, vkey, vrepr
from .instrmodel import T, TYPECLS
from .model import Repo

PARAM = 'pytezos.michelson.sections.parameter.ParameterSection'
ADT_NESTED = 'pytezos.michelson.types.adt.Nested'


class TCls:
    def __init__(self, prim: str, args: Optional[List['TCls']] = None, field_name: Optional[str] = None, type_name: Optional[str] = None):
        self.prim = prim
        self.args = list(args or [])
        self.field_name = field_name
        self.type_name = type_name

    def key(self):
        return ('tcls', self.prim, self.field_name, self.type_name, tuple(a.key() for a in self.args))

    def __repr__(self):
        a = (' ' + ' '.join(repr(x) for x in self.args)) if self.args else ''
        ann = ''.join([f' :{self.type_name}' if self.type_name else '', f' %{self.field_name}' if self.field_name else ''])
        return f'({self.prim}{ann}{a})' if (a or ann) else self.prim

    def __deepcopy__(self, memo):
        return self

    def anon(self) -> 'TCls':
        return TCls(self.prim, self.args)


class PCls:
    """A created ParameterSection class."""

    def __init__(self, fields: Dict[str, Any]):
        self.fields = fields

    def key(self):
        return ('pcls', id(self))

    def __deepcopy__(self, memo):
        return self


def t(prim, *args, f=None, n=None) -> TCls:
    args = list(args)
    if prim == 'pair' and len(args) > 2:  # right comb, as PairType.create_type
        args = [args[0], t('pair', *args[1:])]
    return TCls(prim, args, f, n)


COMPOSITE = ('or', 'pair', 'option')


def all_units(tc: TCls) -> bool:
    return all(all_units(a) if a.prim == 'or' else a.prim == 'unit' for a in tc.args)


class TypeTreeHooks(Hooks):
    def __init__(self, repo: Repo):
        self.repo = repo

    def inline(self, it, fi):
        m = fi.module.name
        if m == 'pytezos.michelson.micheline':
            return fi.name in ('parse_micheline_value', 'parse_micheline_literal')
        return m.startswith(T) or m in ('pytezos.michelson.sections.parameter', 'pytezos.contract.data', 'pytezos.contract.entrypoint')

    def qual(self, tc: TCls) -> str:
        return TYPECLS.get(tc.prim, f'{T}.base.MichelsonType')

    def bind(self, it, owner_qual: str, name: str, target: Any, inst: Any = None):
        fi = self.repo.find_method(owner_qual, name)
        if fi is None:
            return NotImplemented
        decs = fi.decorators
        if 'staticmethod' in decs:
            return FuncRef(fi, module=fi.module)
        if 'classmethod' in decs:
            return FuncRef(fi, target, True, module=fi.module)
        if 'property' in decs and inst is not None:
            return it.call_function(FuncRef(fi, inst, True), [], {}, None)
        if inst is not None:
            return FuncRef(fi, inst, True, module=fi.module)
        return FuncRef(fi, module=fi.module)

    def attr(self, it, obj, name, node):
        if isinstance(obj, TCls):
            if name in ('prim', 'args', 'field_name', 'type_name'):
                return getattr(obj, name)
            if name == '__name__':
                return obj.prim
            if name == 'is_enum':
                return obj.prim == 'or' and all_units(obj)
            return self.bind(it, self.qual(obj), name, obj)
        if isinstance(obj, PCls):
            if name in obj.fields:
                return obj.fields[name]
            if name == 'prim':
                return 'parameter'
            return self.bind(it, PARAM, name, obj)
        if isinstance(obj, Obj) and '_t' in obj.fields:
            tc = obj.fields['_t']
            if name in ('prim', 'args', 'field_name', 'type_name'):
                return getattr(tc, name)
            if name == 'is_enum':
                return tc.prim == 'or' and all_units(tc)
            if name in obj.fields:
                return obj.fields[name]
            return self.bind(it, obj.cls, name, tc, inst=obj)
        if isinstance(obj, Obj) and '_p' in obj.fields:
            pc = obj.fields['_p']
            if name in obj.fields:
                return obj.fields[name]
            if name in pc.fields:
                return pc.fields[name]
            return self.bind(it, PARAM, name, pc, inst=obj)
        return NotImplemented

    def leaf_value(self, tc: TCls, payload: Any) -> Obj:
        return Obj(self.qual(tc), {'value': payload, '_t': tc}, tag=f'{tc.prim}')

    def call(self, it, callee, args, kwargs, node):
        if isinstance(callee, Builtin) and callee.name == 'issubclass' and isinstance(args[0], (TCls, PCls)):
            bases = list(args[1]) if isinstance(args[1], (tuple, list)) else [args[1]]
            if isinstance(args[0], PCls):
                return any(isinstance(b, ClassRef) and b.qual == PARAM for b in bases)
            return any(isinstance(b, ClassRef) and self.repo.is_subclass(self.qual(args[0]), b.qual) for b in bases)
        if isinstance(callee, Builtin) and callee.name == 'type' and len(args) == 3 and isinstance(args[2], dict):
            base = args[1][0] if args[1] else None
            if isinstance(base, ClassRef) and base.qual == PARAM or isinstance(base, PCls):
                return PCls(dict(args[2]))
            # the REAL create_type reached through a bare registered class (OrType.create_type(...) inside a static factory such as from_left):
            # `type(name, (cls,), {args, field_name, type_name})` is the parametrised class
            d = args[2]
            if isinstance(base, TCls):
                return TCls(base.prim, list(d.get('args', [])), d.get('field_name'), d.get('type_name'))
            if isinstance(base, ClassRef) and self.repo.is_subclass(base.qual, f'{T}.base.MichelsonType'):
                prim = next((self.repo.classes[c].keywords.get('prim') for c in [base.qual] + self.repo.mro(base.qual)
                             if c in self.repo.classes and self.repo.classes[c].keywords.get('prim') is not None), None)
                if prim is not None and all(isinstance(a, TCls) for a in d.get('args', [])):
                    return TCls(prim, list(d.get('args', [])), d.get('field_name'), d.get('type_name'))
        if isinstance(callee, Builtin) and callee.name == 'type' and len(args) == 1 and isinstance(args[0], Obj) and '_t' in args[0].fields:
            return args[0].fields['_t']
        if isinstance(callee, TCls):
            # instantiate a value of this type class
            field = {'or': 'items', 'pair': 'items', 'option': 'item', 'list': 'items', 'set': 'items', 'map': 'items'}.get(callee.prim, 'value')
            return Obj(self.qual(callee), {field: args[0] if args else kwargs.get(field), '_t': callee}, tag=callee.prim)
        if isinstance(callee, PCls):
            return Obj(PARAM, {'item': args[0] if args else kwargs.get('item'), '_p': callee})
        if isinstance(callee, FuncRef) and callee.fi is not None:
            fi = callee.fi
            recv = callee.self_val
            if fi.qualname == PARAM + '.match' and getattr(self, 'param', None) is not None:
                return self.param
            if fi.name == 'from_comb' and fi.cls is not None and fi.cls.name == 'PairType' and args and isinstance(args[0], (list, tuple)) \
                    and all(isinstance(x, Obj) and '_t' in x.fields for x in args[0]) and len(args[0]) >= 2:
                # PairType.from_comb: a right comb whose component types are the types of the items (create_type + init)
                def comb(items):
                    if len(items) == 2:
                        l, r = items
                    else:
                        l, r = items[0], comb(items[1:])
                    tc = TCls('pair', [l.fields['_t'], r.fields['_t']])
                    return Obj(self.qual(tc), {'items': (l, r), '_t': tc}, tag='pair')
                return comb(list(args[0]))
            if isinstance(recv, TCls):
                if fi.name == 'get_anon_type':
                    return recv.anon()
                if fi.name in ('from_micheline_value', 'from_python_object') and recv.prim not in COMPOSITE:
                    a = args[0]
                    kind = fi.name.split('_')[1]
                    # parsing what the same leaf rendered is the identity on the payload (decided per type by C11)
                    if isinstance(a, App) and a.op == kind + '-of':
                        return self.leaf_value(recv, a.args[0])
                    return self.leaf_value(recv, App(kind, a))
                if fi.name == 'create_type':
                    return NotImplemented
            if isinstance(recv, Obj) and '_t' in recv.fields and recv.fields['_t'].prim not in COMPOSITE:
                if fi.name in ('to_micheline_value', 'to_python_object'):
                    it.event('leaf-render', fi.name, recv.fields['_t'].prim, kwargs.get('lazy_diff', False), kwargs.get('mode', 'readable'))
                if fi.name == 'to_micheline_value':
                    return App('micheline-of', recv.fields.get('value'), kwargs.get('mode'))
                if fi.name == 'to_python_object':
                    return App('python-of', recv.fields.get('value'))
            if fi.name in ('assert_type_equal', 'assert_type_in'):
                return None
        return NotImplemented

    def isinstance(self, it, obj, classes):
        if isinstance(obj, (TCls, PCls)):
            return False
        if isinstance(obj, App) and obj.op == 'python-of':
            # the python object of a scalar leaf is not a container
            names = {getattr(c, 'name', None) or getattr(c, 'qual', '') for c in classes}
            if names <= {'list', 'tuple', 'dict', 'set', 'frozenset', ADT_NESTED}:
                return False
            return NotImplemented
        if isinstance(obj, App) and obj.op == 'micheline-of':
            # the Micheline of a leaf is a literal or primitive node: a dict
            names = {getattr(c, 'name', None) for c in classes}
            return 'dict' in names
        return NotImplemented

    def compare(self, it, op, a, b, node):
        # leaf payloads and their renderings are data, never the Undefined marker object
        if op in ('is', 'is not') and any(isinstance(x, (Sym, App)) for x in (a, b)) and any(isinstance(x, Obj) for x in (a, b)):
            return op == 'is not'
        # the python object / Micheline of a (non-option) leaf is never None
        if op in ('is', 'is not') and any(x is None for x in (a, b)) and any(isinstance(x, App) and x.op in ('python-of', 'micheline-of') for x in (a, b)):
            return op == 'is not'
        return NotImplemented

    def truth(self, it, term):
        if isinstance(term, (Sym,)):
            return True
        if isinstance(term, App) and term.op in ('micheline', 'python', 'micheline-of'):
            return True
        # the python object of a leaf may be falsy (0, '', b''): unknown
        return None
