"""Static length of byte-valued expressions (syntax-directed, intra-procedural, with summaries of repo helpers)."""
from __future__ import annotations

import ast
from typing import Optional

from .model import FuncInfo, ModuleInfo, NotConstant, Repo, dotted

HASH_SIZES = {'sha256': 32, 'sha512': 64, 'sha3_256': 32, 'sha1': 20, 'md5': 16, 'Keccak256': 32}


def hash_size(repo: Repo, mi: ModuleInfo, call: ast.AST, depth: int = 0) -> Optional[int]:
    """Digest size of the hash object built by `call`."""
    if not isinstance(call, ast.Call) or depth > 4:
        return None
    fn = dotted(call.func)
    if fn is None:
        return None
    base = fn.rsplit('.', 1)[-1]
    if base == 'blake2b':
        for kw in call.keywords:
            if kw.arg == 'digest_size':
                try:
                    v = repo.fold(kw.value, mi)
                    return v if isinstance(v, int) else None
                except NotConstant:
                    return None
        return 64
    if base in HASH_SIZES:
        return HASH_SIZES[base]
    q = repo.resolve_name(mi, fn)
    fi = repo.functions.get(q)
    if fi is not None:
        rets = [n for n in ast.walk(fi.node) if isinstance(n, ast.Return) and n.value is not None]
        sizes = {hash_size(repo, fi.module, r.value, depth + 1) for r in rets}
        if len(sizes) == 1:
            return sizes.pop()
    return None


def infer_len(repo: Repo, mi: ModuleInfo, fn: Optional[ast.AST], expr: ast.AST, depth: int = 0) -> Optional[int]:
    if depth > 6:
        return None
    try:
        v = repo.fold(expr, mi)
        if isinstance(v, (bytes, str)):
            return len(v)
    except NotConstant:
        pass
    if isinstance(expr, ast.BinOp) and isinstance(expr.op, ast.Add):
        a = infer_len(repo, mi, fn, expr.left, depth + 1)
        b = infer_len(repo, mi, fn, expr.right, depth + 1)
        return a + b if a is not None and b is not None else None
    if isinstance(expr, ast.Call):
        f = expr.func
        if isinstance(f, ast.Attribute) and f.attr == 'digest' and not expr.args:
            return hash_size(repo, mi, f.value)
        if isinstance(f, ast.Attribute) and f.attr == 'to_bytes' and expr.args:
            try:
                n = repo.fold(expr.args[0], mi)
                return n if isinstance(n, int) else None
            except NotConstant:
                return None
        if isinstance(f, ast.Name) and f.id == 'cast' and len(expr.args) == 2:
            return infer_len(repo, mi, fn, expr.args[1], depth + 1)
        return None
    if isinstance(expr, ast.Subscript) and isinstance(expr.slice, ast.Slice):
        base = infer_len(repo, mi, fn, expr.value, depth + 1)
        if base is None:
            return None
        try:
            lo = repo.fold(expr.slice.lower, mi) if expr.slice.lower else None
            hi = repo.fold(expr.slice.upper, mi) if expr.slice.upper else None
        except NotConstant:
            return None
        if expr.slice.step is not None:
            return None
        return len(range(base)[lo:hi])
    if isinstance(expr, ast.Name) and fn is not None:
        lens = set()
        found = False
        for n in ast.walk(fn):
            if isinstance(n, ast.Assign) and any(isinstance(t, ast.Name) and t.id == expr.id for t in n.targets):
                found = True
                lens.add(infer_len(repo, mi, fn, n.value, depth + 1))
            elif isinstance(n, ast.AugAssign) and isinstance(n.target, ast.Name) and n.target.id == expr.id:
                return None
            elif isinstance(n, (ast.For, ast.comprehension)) and any(
                isinstance(t, ast.Name) and t.id == expr.id for t in ast.walk(n.target)
            ):
                return None
        if found and len(lens) == 1:
            return lens.pop()
        return None
    if isinstance(expr, ast.IfExp):
        a = infer_len(repo, mi, fn, expr.body, depth + 1)
        b = infer_len(repo, mi, fn, expr.orelse, depth + 1)
        return a if a == b else None
    return None
