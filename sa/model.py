"""E0 source model: every *.py under <repo>/src/pytezos parsed with ast.

Nothing of pytezos is imported or executed.  The model offers
  * modules by dotted name, with import-alias resolution,
  * classes (bases, MRO by C3 over repo classes, class keywords, metaclass),
  * functions / methods by qualified name,
  * a restricted constant folder for module-level tables.
"""
from __future__ import annotations

import ast
import hashlib
import os
from dataclasses import dataclass, field
from typing import Any, Dict, Iterator, List, Optional, Tuple


class AnalysisError(Exception):
    """An anchor vanished, an idiom is not modelled, a count fell below the minimum."""


class NotConstant(Exception):
    pass


REPO = os.environ.get('SA_REPO', '/repo')
PKG_ROOT = 'src/pytezos'


@dataclass
class FuncInfo:
    qualname: str  # pytezos.mod.Class.meth or pytezos.mod.func
    module: 'ModuleInfo'
    node: ast.FunctionDef
    cls: Optional['ClassInfo'] = None

    @property
    def name(self) -> str:
        return getattr(self, '_name_override', None) or self.node.name

    @property
    def decorators(self) -> List[str]:
        out = []
        for d in self.node.decorator_list:
            if isinstance(d, ast.Call):
                d = d.func
            out.append(dotted(d) or '?')
        return out

    @property
    def loc(self) -> str:
        return f'{self.module.relpath}:{self.node.lineno}'

    def params(self) -> List[str]:
        a = self.node.args
        return [x.arg for x in a.posonlyargs + a.args]


@dataclass
class ClassInfo:
    qualname: str
    module: 'ModuleInfo'
    node: ast.ClassDef
    base_names: List[str] = field(default_factory=list)  # resolved qualified names (or raw)
    keywords: Dict[str, Any] = field(default_factory=dict)  # folded class keywords
    methods: Dict[str, FuncInfo] = field(default_factory=dict)
    attrs: Dict[str, ast.expr] = field(default_factory=dict)  # class-level assignments
    metaclass: Optional[str] = None

    @property
    def name(self) -> str:
        return self.node.name

    @property
    def loc(self) -> str:
        return f'{self.module.relpath}:{self.node.lineno}'


@dataclass
class ModuleInfo:
    name: str
    path: str
    relpath: str
    tree: ast.Module
    source: str
    imports: Dict[str, str] = field(default_factory=dict)  # local alias -> qualified target
    functions: Dict[str, FuncInfo] = field(default_factory=dict)
    classes: Dict[str, ClassInfo] = field(default_factory=dict)
    assigns: Dict[str, ast.expr] = field(default_factory=dict)  # module-level NAME = expr (last wins)


def dotted(node: ast.AST) -> Optional[str]:
    if isinstance(node, ast.Name):
        return node.id
    if isinstance(node, ast.Attribute):
        b = dotted(node.value)
        return f'{b}.{node.attr}' if b else None
    return None


def norm(node: ast.AST) -> str:
    """Normalised text of a node (for keys and messages; never for matching rules)."""
    try:
        return ast.unparse(node)
    except Exception:  # pragma: no cover
        return ast.dump(node)


class NTRow(tuple):
    """value of a typing.NamedTuple class of the package built by a foldable call: a real tuple with named fields"""

    def __new__(cls, name, fields, vals):
        o = super().__new__(cls, vals)
        o._name = name
        o._fields = tuple(fields)
        return o

    def field(self, name):
        return self[self._fields.index(name)]

    def __reduce__(self):
        return (NTRow, (self._name, self._fields, tuple(self)))

    def __deepcopy__(self, memo):
        import copy
        return NTRow(self._name, self._fields, tuple(copy.deepcopy(x, memo) for x in self))


class _MatchDesugar(ast.NodeTransformer):
    """`match` statements whose patterns are values, singletons, alternatives of those, captures and the wildcard (with or without guards) are
    rewritten into the if / elif chain they mean, so that every engine piece (CFG, interpreter, syntactic audits) sees one statement form.
    Statements with structural patterns (sequences, mappings, classes) are left as they are and stay unsupported."""

    def __init__(self):
        self.n = 0

    def _test(self, pat, subj):
        if isinstance(pat, ast.MatchValue):
            return ast.Compare(left=subj(), ops=[ast.Eq()], comparators=[pat.value]), []
        if isinstance(pat, ast.MatchSingleton):
            return ast.Compare(left=subj(), ops=[ast.Is()], comparators=[ast.Constant(pat.value)]), []
        if isinstance(pat, ast.MatchOr):
            parts = [self._test(p, subj) for p in pat.patterns]
            if any(p[0] is None or p[1] for p in parts):
                return None, []
            return ast.BoolOp(op=ast.Or(), values=[p[0] for p in parts]), []
        if isinstance(pat, ast.MatchClass) and not pat.patterns and not pat.kwd_patterns:
            return ast.Call(func=ast.Name(id='isinstance', ctx=ast.Load()), args=[subj(), pat.cls], keywords=[]), []
        if isinstance(pat, ast.MatchAs) and pat.pattern is None:
            binds = [ast.Assign(targets=[ast.Name(id=pat.name, ctx=ast.Store())], value=subj())] if pat.name else []
            return ast.Constant(True), binds
        if isinstance(pat, ast.MatchSequence):
            # [a, b], [_, _, *rest], [x, 'lit', *_]: a list / tuple of the right length whose literal positions match; names bound by index
            star = [i for i, p in enumerate(pat.patterns) if isinstance(p, ast.MatchStar)]
            if len(star) > 1:
                return None, []
            n = len(pat.patterns) - len(star)
            ln = ast.Call(func=ast.Name(id='len', ctx=ast.Load()), args=[subj()], keywords=[])
            tests: List[ast.expr] = [
                ast.Call(func=ast.Name(id='isinstance', ctx=ast.Load()), args=[subj(), ast.Tuple(elts=[ast.Name(id='list', ctx=ast.Load()), ast.Name(id='tuple', ctx=ast.Load())], ctx=ast.Load())], keywords=[]),
                ast.Compare(left=ln, ops=[ast.GtE() if star else ast.Eq()], comparators=[ast.Constant(n)]),
            ]
            binds: List[ast.stmt] = []
            for i, p in enumerate(pat.patterns):
                if star and i > star[0]:
                    idx: ast.expr = ast.UnaryOp(op=ast.USub(), operand=ast.Constant(len(pat.patterns) - i))
                else:
                    idx = ast.Constant(i)
                elem = lambda idx=idx: ast.Subscript(value=subj(), slice=idx, ctx=ast.Load())  # noqa: E731
                if isinstance(p, ast.MatchStar):
                    if p.name:
                        after = len(pat.patterns) - i - 1
                        sl = ast.Slice(lower=ast.Constant(i), upper=ast.UnaryOp(op=ast.USub(), operand=ast.Constant(after)) if after else None)
                        binds.append(ast.Assign(targets=[ast.Name(id=p.name, ctx=ast.Store())],
                                                value=ast.Call(func=ast.Name(id='list', ctx=ast.Load()), args=[ast.Subscript(value=subj(), slice=sl, ctx=ast.Load())], keywords=[])))
                elif isinstance(p, ast.MatchAs) and p.pattern is None:
                    if p.name:
                        binds.append(ast.Assign(targets=[ast.Name(id=p.name, ctx=ast.Store())], value=elem()))
                elif isinstance(p, ast.MatchValue):
                    tests.append(ast.Compare(left=elem(), ops=[ast.Eq()], comparators=[p.value]))
                else:
                    return None, []
            return ast.BoolOp(op=ast.And(), values=tests), binds
        return None, []

    def visit_Match(self, node):
        self.generic_visit(node)
        self.n += 1
        if isinstance(node.subject, ast.Name):
            pre, subj = [], (lambda: ast.Name(id=node.subject.id, ctx=ast.Load()))
        else:
            tmp = f'__match_subject_{self.n}'
            pre, subj = [ast.Assign(targets=[ast.Name(id=tmp, ctx=ast.Store())], value=node.subject)], (lambda: ast.Name(id=tmp, ctx=ast.Load()))
        arms = []
        flagged = False
        for c in node.cases:
            test, binds = self._test(c.pattern, subj)
            if test is None:
                return node
            guard = c.guard
            if guard is not None and not binds:
                test = guard if isinstance(test, ast.Constant) and test.value is True else ast.BoolOp(op=ast.And(), values=[test, guard])
                guard = None
            if guard is not None:
                flagged = True  # the guard reads what the pattern binds: bind first, then test, and fall through to the next case when it fails
            arms.append((test, binds, guard, c.body))
        if not flagged:
            chain: List[ast.stmt] = []
            for test, binds, _, body in reversed(arms):
                if isinstance(test, ast.Constant) and test.value is True:
                    chain = list(binds) + list(body)
                else:
                    chain = [ast.If(test=test, body=list(binds) + list(body), orelse=chain)]
            out = pre + chain
        else:
            flag = f'__match_done_{self.n}'
            done = lambda: ast.UnaryOp(op=ast.Not(), operand=ast.Name(id=flag, ctx=ast.Load()))  # noqa: E731
            mark = lambda: ast.Assign(targets=[ast.Name(id=flag, ctx=ast.Store())], value=ast.Constant(True))  # noqa: E731
            out = pre + [ast.Assign(targets=[ast.Name(id=flag, ctx=ast.Store())], value=ast.Constant(False))]
            for test, binds, guard, body in arms:
                inner: List[ast.stmt] = [mark()] + list(body)
                if guard is not None:
                    inner = [ast.If(test=guard, body=inner, orelse=[])]
                cond = done() if isinstance(test, ast.Constant) and test.value is True else ast.BoolOp(op=ast.And(), values=[done(), test])
                out.append(ast.If(test=cond, body=list(binds) + inner, orelse=[]))
        for st in out:
            ast.copy_location(st, node)
            for sub in ast.walk(st):
                if not hasattr(sub, 'lineno'):
                    ast.copy_location(sub, node)
            ast.fix_missing_locations(st)
        return out or [ast.copy_location(ast.Pass(), node)]


class Repo:
    def __init__(self, root: Optional[str] = None):
        self.root = root or os.environ.get('SA_REPO', '/repo')
        self.pkg = os.path.join(self.root, PKG_ROOT)
        if not os.path.isdir(self.pkg):
            raise AnalysisError(f'package directory missing: {self.pkg}')
        self.modules: Dict[str, ModuleInfo] = {}
        self.classes: Dict[str, ClassInfo] = {}
        self.functions: Dict[str, FuncInfo] = {}
        self.files_consulted: List[str] = []
        self._mro: Dict[str, List[str]] = {}
        self._subclasses: Dict[str, List[str]] = {}
        self._load()

    # ------------------------------------------------------------------ loading
    def _load(self) -> None:
        for dirpath, dirnames, filenames in os.walk(self.pkg):
            dirnames[:] = sorted(d for d in dirnames if d != '__pycache__')
            for fn in sorted(filenames):
                if not fn.endswith('.py'):
                    continue
                path = os.path.join(dirpath, fn)
                rel = os.path.relpath(path, self.root)
                modrel = os.path.relpath(path, os.path.join(self.root, 'src'))[:-3]
                parts = modrel.split(os.sep)
                if parts[-1] == '__init__':
                    parts = parts[:-1]
                name = '.'.join(parts)
                with open(path, 'r', encoding='utf-8') as f:
                    src = f.read()
                try:
                    tree = ast.parse(src, filename=path)
                except SyntaxError as e:
                    raise AnalysisError(f'cannot parse {rel}: {e}')
                if 'match ' in src:
                    tree = _MatchDesugar().visit(tree)
                mi = ModuleInfo(name=name, path=path, relpath=rel, tree=tree, source=src)
                self.modules[name] = mi
                self.files_consulted.append(rel)
        for mi in self.modules.values():
            self._index_module(mi)
        for ci in self.classes.values():
            self._resolve_class(ci)
        self._keep_identity_of_moved_functions()

    def _keep_identity_of_moved_functions(self) -> None:
        """A module-level function that the inventory knows as `pkg.mod.f`, that is no longer defined in `mod` but imported into it from a
        module where it IS defined and where the inventory does not know it, was moved and imported back.  It keeps the qualified name the
        checks know it by (its `module` stays the one it now lives in, so that names inside it resolve correctly)."""
        self.is_fresh('')  # loads the inventory
        known = type(self)._known_functions or set()
        for old in sorted(known):
            if old in self.functions:
                continue
            mod, _, name = old.rpartition('.')
            if mod not in self.modules or name not in self.modules[mod].imports:
                continue
            new = self.canonical(old)
            if new != old and new in self.functions and new not in known:
                fi = self.functions[new]
                fi.moved_from = new  # type: ignore[attr-defined]
                fi.qualname = old
                fi._name_override = name  # type: ignore[attr-defined]  # also under the short name it was imported back as (`import gen_x as _gen_x`)
                self.functions[old] = fi
                self.modules[mod].functions.setdefault(name, fi)

    def _index_module(self, mi: ModuleInfo) -> None:
        is_pkg = mi.path.endswith('__init__.py')
        for node in ast.walk(mi.tree):
            if isinstance(node, ast.Import):
                for a in node.names:
                    mi.imports[a.asname or a.name.split('.')[0]] = a.name if a.asname else a.name.split('.')[0]
            elif isinstance(node, ast.ImportFrom):
                base = node.module or ''
                if node.level:
                    parts = mi.name.split('.')
                    if not is_pkg:
                        parts = parts[:-1]
                    parts = parts[: len(parts) - (node.level - 1)]
                    base = '.'.join(parts + ([node.module] if node.module else []))
                for a in node.names:
                    mi.imports[a.asname or a.name] = f'{base}.{a.name}'
        for node in mi.tree.body:
            if isinstance(node, (ast.FunctionDef, ast.AsyncFunctionDef)):
                fi = FuncInfo(f'{mi.name}.{node.name}', mi, node)  # type: ignore[arg-type]
                mi.functions[node.name] = fi
                self.functions[fi.qualname] = fi
            elif isinstance(node, ast.ClassDef):
                self._index_class(mi, node)
            elif isinstance(node, ast.Assign):
                for t in node.targets:
                    if isinstance(t, ast.Name):
                        mi.assigns[t.id] = node.value
            elif isinstance(node, ast.AnnAssign) and isinstance(node.target, ast.Name) and node.value is not None:
                mi.assigns[node.target.id] = node.value

    def _index_class(self, mi: ModuleInfo, node: ast.ClassDef) -> None:
        ci = ClassInfo(f'{mi.name}.{node.name}', mi, node)
        mi.classes[node.name] = ci
        self.classes[ci.qualname] = ci
        for st in node.body:
            if isinstance(st, (ast.FunctionDef, ast.AsyncFunctionDef)):
                fi = FuncInfo(f'{ci.qualname}.{st.name}', mi, st, ci)  # type: ignore[arg-type]
                ci.methods[st.name] = fi
                self.functions[fi.qualname] = fi
            elif isinstance(st, ast.Assign):
                for t in st.targets:
                    if isinstance(t, ast.Name):
                        ci.attrs[t.id] = st.value
            elif isinstance(st, ast.AnnAssign) and isinstance(st.target, ast.Name) and st.value is not None:
                ci.attrs[st.target.id] = st.value

    def _resolve_class(self, ci: ClassInfo) -> None:
        for b in ci.node.bases:
            d = dotted(b.value if isinstance(b, ast.Subscript) else b)
            ci.base_names.append(self.resolve_name(ci.module, d) if d else norm(b))
        for kw in ci.node.keywords:
            if kw.arg == 'metaclass':
                d = dotted(kw.value)
                ci.metaclass = self.resolve_name(ci.module, d) if d else norm(kw.value)
            elif kw.arg:
                try:
                    ci.keywords[kw.arg] = self.fold(kw.value, ci.module)
                except NotConstant:
                    ci.keywords[kw.arg] = norm(kw.value)

    # --------------------------------------------------------------- resolution
    def resolve_name(self, mi: ModuleInfo, name: str, _depth: int = 0) -> str:
        """Qualified name of a dotted local name, following import aliases and re-exports."""
        if _depth > 8:
            return name
        head, _, rest = name.partition('.')
        if head in mi.classes:
            q = mi.classes[head].qualname
        elif head in mi.functions:
            q = mi.functions[head].qualname
        elif head in mi.imports:
            q = mi.imports[head]
            # follow re-export through another repo module
            mod, _, attr = q.rpartition('.')
            if q not in self.modules and mod in self.modules and attr:
                tgt = self.modules[mod]
                if attr in tgt.classes or attr in tgt.functions or attr in tgt.assigns:
                    pass
                elif attr in tgt.imports:
                    q = self.resolve_name(tgt, attr, _depth + 1)
        elif head in mi.assigns:
            q = f'{mi.name}.{head}'
        else:
            q = head
        return f'{q}.{rest}' if rest else q

    def canonical(self, qual: str) -> str:
        """the qualified name a re-exported name stands for: `pkg.mod.name` where `mod` only imports `name` (a function, class or table that
        was moved to another module and imported back) is followed to its definition; methods of a moved class follow their class"""
        for _ in range(6):
            if qual in self.classes or qual in self.functions or qual in self.modules:
                return qual
            parts = qual.split('.')
            hit = None
            for i in range(len(parts) - 1, 0, -1):
                mod = '.'.join(parts[:i])
                if mod in self.modules:
                    hit = (self.modules[mod], parts[i], parts[i + 1:])
                    break
            if hit is None:
                return qual
            mi, attr, rest = hit
            if attr in mi.assigns or attr in mi.classes or attr in mi.functions or attr not in mi.imports:
                return qual
            tgt = self.resolve_name(mi, attr)
            new = '.'.join([tgt] + rest)
            if new == qual:
                return qual
            qual = new
        return qual

    def lookup(self, qual: str) -> Tuple[Optional[str], Any]:
        """('class'|'func'|'const'|'module', obj) for a qualified name."""
        qual = self.canonical(qual)
        if qual in self.classes:
            return 'class', self.classes[qual]
        if qual in self.functions:
            return 'func', self.functions[qual]
        if qual in self.modules:
            return 'module', self.modules[qual]
        mod, _, attr = qual.rpartition('.')
        if mod in self.modules and attr in self.modules[mod].assigns:
            return 'const', (self.modules[mod], self.modules[mod].assigns[attr])
        return None, None

    def module(self, name: str) -> ModuleInfo:
        if name not in self.modules:
            raise AnalysisError(f'anchor module missing: {name}')
        return self.modules[name]

    def cls(self, qual: str) -> ClassInfo:
        qual = self.canonical(qual)
        if qual not in self.classes:
            raise AnalysisError(f'anchor class missing: {qual}')
        return self.classes[qual]

    def func(self, qual: str) -> FuncInfo:
        qual = self.canonical(qual)
        if qual not in self.functions:
            raise AnalysisError(f'anchor function missing: {qual}')
        return self.functions[qual]

    def const(self, qual: str) -> Any:
        kind, obj = self.lookup(qual)
        if kind != 'const':
            raise AnalysisError(f'anchor constant missing: {qual}')
        mi, expr = obj
        try:
            return self.fold(expr, mi)
        except NotConstant as e:
            raise AnalysisError(f'constant {qual} is not foldable: {e}')

    def const_node(self, qual: str) -> Tuple[ModuleInfo, ast.expr]:
        kind, obj = self.lookup(qual)
        if kind != 'const':
            raise AnalysisError(f'anchor constant missing: {qual}')
        return obj

    # -------------------------------------------------------------- class model
    def mro(self, qual: str) -> List[str]:
        if qual in self._mro:
            return self._mro[qual]
        ci = self.classes.get(qual)
        if ci is None:
            return [qual]
        seqs = [self.mro(b) for b in ci.base_names] + [list(ci.base_names)]
        res = [qual]
        seqs = [list(s) for s in seqs if s]
        while seqs:
            for s in seqs:
                cand = s[0]
                if not any(cand in t[1:] for t in seqs):
                    break
            else:
                cand = seqs[0][0]  # inconsistent hierarchy: fall back
            res.append(cand)
            seqs = [[x for x in s if x != cand] for s in seqs]
            seqs = [s for s in seqs if s]
        self._mro[qual] = res
        return res

    def is_subclass(self, qual: str, base: str) -> bool:
        return base in self.mro(qual)

    def subclasses(self, base: str) -> List[str]:
        if base not in self._subclasses:
            self._subclasses[base] = sorted(q for q in self.classes if base in self.mro(q) and q != base)
        return self._subclasses[base]

    def find_method(self, cls_qual: str, name: str) -> Optional[FuncInfo]:
        for c in self.mro(cls_qual):
            ci = self.classes.get(c)
            if ci and name in ci.methods:
                return ci.methods[name]
        return None

    def class_attr(self, cls_qual: str, name: str) -> Optional[Tuple[ClassInfo, ast.expr]]:
        for c in self.mro(cls_qual):
            ci = self.classes.get(c)
            if ci and name in ci.attrs:
                return ci, ci.attrs[name]
        return None

    def metaclass_of(self, cls_qual: str) -> Optional[str]:
        for c in self.mro(cls_qual):
            ci = self.classes.get(c)
            if ci and ci.metaclass:
                return ci.metaclass
        return None

    def class_keyword(self, cls_qual: str, kw: str) -> Any:
        ci = self.classes.get(cls_qual)
        return ci.keywords.get(kw) if ci else None

    # ---------------------------------------------------------- constant folder
    def fold(self, node: ast.AST, mi: ModuleInfo, env: Optional[Dict[str, Any]] = None, _depth: int = 0) -> Any:
        if _depth > 40:
            raise NotConstant('depth')
        f = lambda n: self.fold(n, mi, env, _depth + 1)  # noqa: E731
        if isinstance(node, ast.Constant):
            return node.value
        if isinstance(node, ast.Tuple):
            return tuple(f(e) for e in node.elts)
        if isinstance(node, ast.List):
            return [f(e) for e in node.elts]
        if isinstance(node, ast.Set):
            return frozenset(f(e) for e in node.elts)
        if isinstance(node, ast.Dict):
            out = {}
            for k, v in zip(node.keys, node.values):
                if k is None:
                    out.update(f(v))
                else:
                    out[f(k)] = f(v)
            return out
        if isinstance(node, ast.Name):
            if env and node.id in env:
                return env[node.id]
            if node.id in mi.assigns:
                return self.fold(mi.assigns[node.id], mi, None, _depth + 1)
            if node.id in mi.imports:
                q = self.resolve_name(mi, node.id)
                kind, obj = self.lookup(q)
                if kind == 'const':
                    m2, e2 = obj
                    return self.fold(e2, m2, None, _depth + 1)
            if node.id in ('True', 'False', 'None'):
                return {'True': True, 'False': False, 'None': None}[node.id]
            raise NotConstant(f'name {node.id}')
        if isinstance(node, ast.UnaryOp):
            v = f(node.operand)
            if isinstance(node.op, ast.USub):
                return -v
            if isinstance(node.op, ast.Not):
                return not v
            if isinstance(node.op, ast.Invert):
                return ~v
            raise NotConstant('unary')
        if isinstance(node, ast.BinOp):
            a, b = f(node.left), f(node.right)
            op = node.op
            try:
                if isinstance(op, ast.Add):
                    return a + b
                if isinstance(op, ast.Sub):
                    return a - b
                if isinstance(op, ast.Mult):
                    if isinstance(a, (bytes, str, list, tuple)) and isinstance(b, int) and b > 10000:
                        raise NotConstant('large repeat')
                    return a * b
                if isinstance(op, ast.FloorDiv):
                    return a // b
                if isinstance(op, ast.Mod) and isinstance(a, int):
                    return a % b
                if isinstance(op, ast.Pow) and isinstance(b, int) and 0 <= b <= 4096:
                    return a**b
                if isinstance(op, ast.LShift) and isinstance(b, int) and 0 <= b <= 4096:
                    return a << b
                if isinstance(op, ast.RShift):
                    return a >> b
                if isinstance(op, ast.BitOr):
                    return a | b
                if isinstance(op, ast.BitAnd):
                    return a & b
                if isinstance(op, ast.Div):
                    return a / b
            except NotConstant:
                raise
            except Exception as e:
                raise NotConstant(f'binop {e}')
            raise NotConstant('binop')
        if isinstance(node, ast.Call):
            if isinstance(node.func, ast.Attribute) and node.func.attr in ('items', 'keys', 'values') and not node.args:
                base = f(node.func.value)
                if isinstance(base, dict):
                    return list(getattr(base, node.func.attr)())
            fn = dotted(node.func)
            if fn in ('bytes', 'tb') and len(node.args) == 1 and not node.keywords:
                if fn == 'tb' and not self._tb_is_bytes(mi):
                    raise NotConstant('tb is not bytes')
                v = f(node.args[0])
                if isinstance(v, (list, tuple)) and all(isinstance(x, int) and 0 <= x < 256 for x in v):
                    return bytes(v)
                raise NotConstant('bytes(arg)')
            if fn == 'bytes.fromhex' and len(node.args) == 1:
                v = f(node.args[0])
                if isinstance(v, str):
                    try:
                        return bytes.fromhex(v)
                    except ValueError:
                        raise NotConstant('fromhex')
            if fn in ('frozenset', 'set', 'tuple', 'list') and len(node.args) <= 1 and not node.keywords:
                v = f(node.args[0]) if node.args else ()
                return {'frozenset': frozenset, 'set': frozenset, 'tuple': tuple, 'list': list}[fn](v)
            if fn == 'len' and len(node.args) == 1:
                return len(f(node.args[0]))
            if fn == 'enumerate' and 1 <= len(node.args) <= 2:
                seq = f(node.args[0])
                start = f(node.args[1]) if len(node.args) == 2 else next((f(k.value) for k in node.keywords if k.arg == 'start'), 0)
                if isinstance(seq, dict):
                    seq = list(seq.keys())
                if isinstance(seq, (list, tuple, str, bytes)) and isinstance(start, int):
                    return [(start + i, x) for i, x in enumerate(seq)]
                raise NotConstant('enumerate')
            if fn == 'zip' and node.args and not node.keywords:
                seqs = [f(a) for a in node.args]
                seqs = [list(q.keys()) if isinstance(q, dict) else q for q in seqs]
                if all(isinstance(q, (list, tuple, str, bytes)) for q in seqs):
                    return [tuple(t) for t in zip(*seqs)]
                raise NotConstant('zip')
            if fn == 'dict' and len(node.args) <= 1:
                base = f(node.args[0]) if node.args else {}
                try:
                    out = dict(base)
                except (TypeError, ValueError):
                    raise NotConstant('dict(arg)')
                for k in node.keywords:
                    if k.arg is None:
                        raise NotConstant('dict(**x)')
                    out[k.arg] = f(k.value)
                return out
            if fn == 'range' and 1 <= len(node.args) <= 3 and not node.keywords:
                vs = [f(a) for a in node.args]
                if all(isinstance(v, int) and not isinstance(v, bool) for v in vs) and len(range(*vs)) <= 100000:
                    return list(range(*vs))
                raise NotConstant('range')
            if fn in ('int', 'float', 'str') and len(node.args) == 1 and not node.keywords:
                v = f(node.args[0])
                if isinstance(v, (int, float, str)):
                    try:
                        return {'int': int, 'float': float, 'str': str}[fn](v)
                    except Exception:
                        raise NotConstant('conv')
            if fn in ('min', 'max') and node.args and not node.keywords:
                vs = [f(a) for a in node.args]
                return (min if fn == 'min' else max)(*vs) if len(vs) > 1 else (min if fn == 'min' else max)(vs[0])
            if fn:
                kind, obj = self.lookup(self.resolve_name(mi, fn))
                if kind == 'class' and any(b.rsplit('.', 1)[-1] == 'NamedTuple' for b in obj.base_names):
                    fields = [st.target.id for st in obj.node.body if isinstance(st, ast.AnnAssign) and isinstance(st.target, ast.Name)]
                    vals: List[Any] = []
                    for a in node.args:
                        if isinstance(a, ast.Starred):
                            vals += list(f(a.value))
                        else:
                            vals.append(f(a))
                    kw = {k.arg: f(k.value) for k in node.keywords if k.arg}
                    defaults = {st.target.id: st.value for st in obj.node.body if isinstance(st, ast.AnnAssign) and isinstance(st.target, ast.Name) and st.value is not None}
                    for name in fields[len(vals):]:
                        if name in kw:
                            vals.append(kw[name])
                        elif name in defaults:
                            vals.append(self.fold(defaults[name], obj.module, None, _depth + 1))
                        else:
                            raise NotConstant(f'missing field {name} of {fn}')
                    if len(vals) != len(fields):
                        raise NotConstant(f'arity of {fn}')
                    return NTRow(obj.name, fields, vals)
            raise NotConstant(f'call {fn}')
        if isinstance(node, ast.Subscript):
            v = f(node.value)
            if isinstance(node.slice, ast.Slice):
                lo = f(node.slice.lower) if node.slice.lower else None
                hi = f(node.slice.upper) if node.slice.upper else None
                st = f(node.slice.step) if node.slice.step else None
                return v[lo:hi:st]
            try:
                return v[f(node.slice)]
            except Exception as e:
                raise NotConstant(f'subscript {e}')
        if isinstance(node, ast.Attribute):
            if isinstance(node.value, ast.Name) and env and isinstance(env.get(node.value.id), NTRow) and node.attr in env[node.value.id]._fields:
                return env[node.value.id].field(node.attr)
            d = dotted(node)
            if d:
                q = self.resolve_name(mi, d)
                kind, obj = self.lookup(q)
                if kind == 'const':
                    m2, e2 = obj
                    return self.fold(e2, m2, None, _depth + 1)
            raise NotConstant(f'attr {d}')
        if isinstance(node, ast.JoinedStr):
            parts = []
            for v in node.values:
                if isinstance(v, ast.Constant):
                    parts.append(str(v.value))
                elif isinstance(v, ast.FormattedValue) and v.format_spec is None and v.conversion == -1:
                    parts.append(str(f(v.value)))
                else:
                    raise NotConstant('fstring')
            return ''.join(parts)
        if isinstance(node, ast.Compare) and len(node.ops) == 1:
            a, b = f(node.left), f(node.comparators[0])
            op = node.ops[0]
            try:
                if isinstance(op, ast.Eq):
                    return a == b
                if isinstance(op, ast.NotEq):
                    return a != b
                if isinstance(op, ast.Lt):
                    return a < b
                if isinstance(op, ast.LtE):
                    return a <= b
                if isinstance(op, ast.Gt):
                    return a > b
                if isinstance(op, ast.GtE):
                    return a >= b
                if isinstance(op, ast.In):
                    return a in b
                if isinstance(op, ast.NotIn):
                    return a not in b
            except Exception as e:
                raise NotConstant(f'compare {e}')
        if isinstance(node, ast.DictComp) or isinstance(node, ast.ListComp) or isinstance(node, ast.SetComp):
            return self._fold_comp(node, mi, env, _depth)
        raise NotConstant(type(node).__name__)

    def _tb_is_bytes(self, mi: ModuleInfo) -> bool:
        e = mi.assigns.get('tb')
        if e is None and 'tb' in mi.imports:
            kind, obj = self.lookup(self.resolve_name(mi, 'tb'))
            if kind == 'const':
                e = obj[1]
        return isinstance(e, ast.Name) and e.id == 'bytes'

    def _fold_comp(self, node, mi, env, depth):
        if len(node.generators) != 1:
            raise NotConstant('nested comprehension')
        g = node.generators[0]
        it = self.fold(g.iter, mi, env, depth + 1)
        if isinstance(it, dict):
            it = list(it.keys())
        res_list, res_dict = [], {}
        for item in it:
            e2 = dict(env or {})
            self._bind(g.target, item, e2)
            if all(self.fold(c, mi, e2, depth + 1) for c in g.ifs):
                if isinstance(node, ast.DictComp):
                    res_dict[self.fold(node.key, mi, e2, depth + 1)] = self.fold(node.value, mi, e2, depth + 1)
                else:
                    res_list.append(self.fold(node.elt, mi, e2, depth + 1))
        if isinstance(node, ast.DictComp):
            return res_dict
        if isinstance(node, ast.SetComp):
            return frozenset(res_list)
        return res_list

    def _bind(self, target, value, env):
        if isinstance(target, ast.Name):
            env[target.id] = value
        elif isinstance(target, (ast.Tuple, ast.List)):
            vals = list(value)
            if len(vals) != len(target.elts):
                raise NotConstant('unpack')
            for t, v in zip(target.elts, vals):
                self._bind(t, v, env)
        else:
            raise NotConstant('bind')

    # ----------------------------------------------------------------- utilities
    # ------------------------------------------------------------------ helpers extracted by later refactorings
    _known_functions = None

    def is_fresh(self, qual: str) -> bool:
        """True for a function that is not in reference/known_functions.json (it did not exist when the checks were written)."""
        cls = type(self)
        if cls._known_functions is None:
            import json as _j
            path = os.path.join(os.path.dirname(os.path.abspath(__file__)), 'reference', 'known_functions.json')
            try:
                with open(path) as f:
                    cls._known_functions = set(_j.load(f)['functions'])
            except OSError:
                cls._known_functions = set()
        return bool(cls._known_functions) and qual not in cls._known_functions

    def with_fresh_callees(self, fi: 'FuncInfo', _seen=None) -> List['FuncInfo']:
        """fi plus, transitively, every fresh function it calls by a plain or self/cls-qualified name (syntactic rules that audit
        the constants or statements of one function must follow a block that a refactoring moved into a new helper)."""
        seen = _seen if _seen is not None else {}
        if fi.qualname in seen:
            return list(seen.values())
        seen[fi.qualname] = fi
        for n in ast.walk(fi.node):
            if not isinstance(n, ast.Call):
                continue
            tgt = None
            if isinstance(n.func, ast.Name):
                q = self.resolve_name(fi.module, n.func.id)
                kind, obj = self.lookup(q)
                if kind == 'func':
                    tgt = obj
            elif isinstance(n.func, ast.Attribute) and isinstance(n.func.value, ast.Name) and n.func.value.id in ('self', 'cls') and fi.cls is not None:
                tgt = self.find_method(fi.cls.qualname, n.func.attr)
            elif isinstance(n.func, ast.Attribute) and isinstance(n.func.value, ast.Name):
                q = self.resolve_name(fi.module, f'{n.func.value.id}.{n.func.attr}')
                kind, obj = self.lookup(q)
                if kind == 'func':
                    tgt = obj
                elif fi.cls is not None and n.func.value.id == fi.cls.name:
                    tgt = self.find_method(fi.cls.qualname, n.func.attr)
            if tgt is not None and self.is_fresh(tgt.qualname):
                self.with_fresh_callees(tgt, seen)
        # ... and every fresh function it merely names (handed to functools.partial, map, a table) or reaches through a module-level
        # table whose entries name fresh functions (an if / elif dispatch turned into a lookup)
        def fresh_named(expr: ast.AST, mi: 'ModuleInfo', depth: int = 0):
            for m in ast.walk(expr):
                if isinstance(m, ast.Name) and isinstance(m.ctx, ast.Load):
                    q = self.resolve_name(mi, m.id)
                    kind, obj = self.lookup(q)
                    if kind == 'func' and self.is_fresh(obj.qualname):
                        self.with_fresh_callees(obj, seen)
                    elif kind == 'const' and depth < 2:
                        m2, e2 = obj
                        fresh_named(e2, m2, depth + 1)
        fresh_named(fi.node, fi.module)
        return list(seen.values())

    def digest(self) -> str:
        h = hashlib.sha256()
        for name in sorted(self.modules):
            h.update(name.encode())
            h.update(self.modules[name].source.encode())
        return h.hexdigest()

    def iter_functions(self, prefix: str = '') -> Iterator[FuncInfo]:
        for q in sorted(self.functions):
            if q.startswith(prefix):
                yield self.functions[q]

    def dict_items_by_method(self, attr_call_on_dict: ast.AST):  # pragma: no cover - placeholder
        raise NotImplementedError


def find_nodes(root: ast.AST, typ) -> List[ast.AST]:
    return [n for n in ast.walk(root) if isinstance(n, typ)]


def enclosing_map(root: ast.AST) -> Dict[ast.AST, ast.AST]:
    parent: Dict[ast.AST, ast.AST] = {}
    for n in ast.walk(root):
        for c in ast.iter_child_nodes(n):
            parent[c] = n
    return parent
