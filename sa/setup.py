"""setup: byte-compile the engine, validate reference tables, check the tool chain that the checks rely on."""
from __future__ import annotations

import compileall
import glob
import json
import os
import sys

HERE = os.path.dirname(os.path.abspath(__file__))


def main() -> int:
    ok = compileall.compile_dir(HERE, quiet=1, force=False)
    if not ok:
        print('setup: byte-compilation failed')
        return 1
    for p in sorted(glob.glob(os.path.join(HERE, 'reference', '*.json'))):
        with open(p) as f:
            d = json.load(f)
        if 'source' not in d:
            print(f'setup: reference table without provenance: {p}')
            return 1
    if sys.version_info < (3, 9):
        print('setup: python >= 3.9 needed (ast.unparse)')
        return 1
    os.makedirs(os.path.join(os.path.dirname(HERE), 'evidence'), exist_ok=True)
    print('setup: ok')
    return 0
