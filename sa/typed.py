"""E3 type oracle: expression types of the repo computed by mypy (used as a library, the repository's own environment ships it).

mypy is only a *type inference oracle* here: the program is type-checked (nothing is executed), and the inferred static type of every
expression is exported, keyed by source position, so that the CPython-ast based rules can resolve the receiver of a method call, of a
subscript or of an attribute read.  The mypy diagnostics themselves are not used.

A type is summarised as a set of `TRef`s:
    ('inst', fullname)     an instance of the class
    ('type', fullname)     the class object itself (Type[C])
    ('any',)               unknown
    ('other', text)        anything else (callables, tuples, literals of builtins, None ...)
"""
from __future__ import annotations

import ast
import os
import sys
from typing import Any, Dict, FrozenSet, List, Optional, Set, Tuple

from .model import AnalysisError, Repo

Pos = Tuple[int, int, int, int]
TRef = Tuple[str, ...]

_SKIP = {'info', 'node', 'definition', 'original_def', 'impl', 'names', 'imports', 'alias_tvars', 'type_guard', 'type_is'}
_FIELDS: Dict[type, List[str]] = {}


def _fields(n) -> List[str]:
    t = type(n)
    if t not in _FIELDS:
        _FIELDS[t] = [a for a in dir(t) if not a.startswith('_') and a not in _SKIP and not callable(getattr(t, a, None))]
    return _FIELDS[t]


class TypeOracle:
    def __init__(self, repo: Repo, package: str = 'pytezos'):
        self.repo = repo
        self.types: Dict[str, Dict[Pos, FrozenSet[TRef]]] = {}  # relpath -> position -> type refs
        self.n_expr = 0
        self._build(package)

    # ------------------------------------------------------------------------------------------------------------------ build
    def _build(self, package: str) -> None:
        try:
            from mypy import build, nodes  # type: ignore
            from mypy.find_sources import create_source_list  # type: ignore
            from mypy.options import Options  # type: ignore
        except Exception as e:  # pragma: no cover
            raise AnalysisError(f'mypy is not importable in this interpreter ({e}); run the checks with /venv/bin/python')
        src = os.path.join(self.repo.root, 'src')
        o = Options()
        o.preserve_asts = True
        o.export_types = True
        o.incremental = False
        o.cache_dir = os.devnull
        o.ignore_missing_imports = True
        o.follow_imports = 'silent'
        o.check_untyped_defs = True
        o.show_traceback = False
        cwd = os.getcwd()
        os.chdir(src)
        try:
            srcs = create_source_list([package], o)
            res = build.build(srcs, o)
        finally:
            os.chdir(cwd)
        self.n_errors = len(res.errors)
        tmap = res.types
        Node, Expression = nodes.Node, nodes.Expression
        for modname, f in res.files.items():
            if not modname.startswith(package):
                continue
            rel = os.path.relpath(os.path.join(src, f.path), self.repo.root) if not os.path.isabs(f.path) else os.path.relpath(f.path, self.repo.root)
            table: Dict[Pos, FrozenSet[TRef]] = {}
            seen: Set[int] = set()
            stack: List[Any] = list(f.defs)
            while stack:
                n = stack.pop()
                if id(n) in seen:
                    continue
                seen.add(id(n))
                if isinstance(n, Expression):
                    t = tmap.get(n)
                    if t is not None and n.end_line is not None:
                        pos = (n.line, n.column, n.end_line, n.end_column)
                        refs = frozenset(self._refs(t))
                        # several mypy nodes may share a position (e.g. a call and its analysed cast): keep the most informative
                        if pos not in table or (('any',) in table[pos] and ('any',) not in refs):
                            table[pos] = refs
                        self.n_expr += 1
                for a in _fields(n):
                    try:
                        v = getattr(n, a)
                    except Exception:
                        continue
                    if isinstance(v, Node):
                        stack.append(v)
                    elif isinstance(v, (list, tuple)):
                        for x in v:
                            if isinstance(x, Node):
                                stack.append(x)
                            elif isinstance(x, (list, tuple)):
                                stack.extend(y for y in x if isinstance(y, Node))
            self.types[rel] = table

    def _refs(self, t, depth: int = 0) -> List[TRef]:
        from mypy import types as mt  # type: ignore
        t = mt.get_proper_type(t)
        if depth > 6:
            return [('any',)]
        if isinstance(t, mt.AnyType):
            return [('any',)]
        if isinstance(t, mt.Instance):
            if t.last_known_value is not None and t.type.fullname.startswith('builtins.'):
                return [('inst', t.type.fullname)]
            return [('inst', t.type.fullname)]
        if isinstance(t, mt.TypeType):
            inner = self._refs(t.item, depth + 1)
            return [('type', r[1]) if r[0] == 'inst' else r for r in inner]
        if isinstance(t, mt.CallableType) and t.is_type_obj():
            return [('type', t.type_object().fullname)]
        if isinstance(t, mt.UnionType):
            out: List[TRef] = []
            for it in t.items:
                out += self._refs(it, depth + 1)
            return out
        if isinstance(t, mt.TypeVarType):
            return self._refs(t.upper_bound, depth + 1)
        if isinstance(t, mt.TupleType):
            return [('inst', 'builtins.tuple')]
        if isinstance(t, mt.NoneType):
            return [('other', 'None')]
        if isinstance(t, mt.LiteralType):
            return self._refs(t.fallback, depth + 1)
        return [('other', type(t).__name__)]

    # ------------------------------------------------------------------------------------------------------------------ query
    def of(self, relpath: str, node: ast.AST) -> FrozenSet[TRef]:
        """Type refs of an expression node of the CPython ast of `relpath` (empty = no information)."""
        table = self.types.get(relpath)
        if table is None:
            return frozenset()
        pos = (node.lineno, node.col_offset, node.end_lineno, node.end_col_offset)  # type: ignore[attr-defined]
        r = table.get(pos)
        if r is None and isinstance(node, ast.expr):
            # mypy positions of parenthesised expressions exclude / include the parentheses differently; try same start
            for (l, c, el, ec), v in table.items():
                if l == pos[0] and c == pos[1] and el == pos[2] and abs(ec - pos[3]) <= 1:
                    return v
        return r if r is not None else frozenset()

    def classes(self, relpath: str, node: ast.AST) -> Tuple[List[str], bool]:
        """(project/builtin class fullnames the expression may be an instance of or the class object of, fully_known)."""
        refs = self.of(relpath, node)
        if not refs:
            return [], False
        known = all(r[0] in ('inst', 'type') for r in refs)
        return sorted({r[1] for r in refs if r[0] in ('inst', 'type')}), known
