"""Where do the argument types of freshly built container types come from?

`MichelsonType.create_type` refuses an argument type that carries a field annotation for the container prims it lists (option, list, set, map,
big_map, contract, lambda).  A value taken out of an annotated pair / or keeps the annotated class (`CAR` of `pair (string %s) nat` is a value
of class `string %s`), and so does the root type of a parameter section.  An instruction that wraps such a class in a new container without
`get_anon_type()` fails with "... argument type cannot be annotated" for the annotated program and succeeds for the unannotated one.

Decided on the syntax tree, three-valued per expression (a small provenance analysis, not an execution):

  ANON     the result of `.get_anon_type()` or of a `create_type(...)` without annotations, a class named in the source (NatType ...), the `args`
           of an existing type / instruction class (anonymous by construction resp. rejected at load time as Octez does)
  TAINTED  `type(v)` of a value, the `args` of a section class (parameter / storage root types keep their annotation), the arguments of an
           argument type (`t.args[0].args`: components of a pair / or carry field annotations), anything computed
           from those through locals, containers, conditional expressions, casts and calls of repository functions (return summaries)
  UNKNOWN  anything else

Every element of `args=[...]` of a `create_type` call on a restricted container is a sink; a function parameter reaching a sink moves the
obligation to the call sites of that function (followed three levels up).  Only TAINTED is reported; UNKNOWN is counted in the evidence.
"""
from __future__ import annotations

import ast
from typing import Any, Dict, List, Optional, Set, Tuple

from .model import FuncInfo, Repo, dotted, norm

A, U, T = 'ANON', 'UNKNOWN', 'TAINTED'
M = 'pytezos.michelson'
MT = f'{M}.types.base.MichelsonType'
MI = f'{M}.instructions.base.MichelsonInstruction'
SCOPE = (f'{M}.instructions.', f'{M}.types.', f'{M}.sections.')
PASS_THROUGH = {'cast', 'typing.cast'}


def join(*xs: Any) -> Any:
    """T dominates; a parameter dependency ('P', i) survives over ANON / UNKNOWN so that the call sites are examined"""
    xs = [x for x in xs if x is not None]
    if any(x == T for x in xs):
        return T
    ps = [x for x in xs if isinstance(x, tuple)]
    if ps:
        return ps[0]
    if any(x == U for x in xs):
        return U
    return A if xs else U


def restricted_prims(repo: Repo) -> Set[str]:
    """the prim list of the `cannot be annotated` assertion, read from create_type itself"""
    fi = repo.func(f'{MT}.create_type')
    for n in ast.walk(fi.node):
        if isinstance(n, ast.If) and any(isinstance(a, ast.Assert) and 'field_name' in norm(a.test) for a in ast.walk(n)):
            for c in ast.walk(n.test):
                # `cls.prim in <collection>`: the collection may be a display or a named constant (folded)
                if isinstance(c, ast.Compare) and len(c.ops) == 1 and isinstance(c.ops[0], ast.In):
                    try:
                        v = repo.fold(c.comparators[0], fi.module)
                    except Exception:
                        v = None
                    if isinstance(v, (list, tuple, set, frozenset)) and v and all(isinstance(x, str) for x in v):
                        return set(v)
    return set()


class Flow:
    def __init__(self, repo: Repo, restricted: Optional[Set[str]] = None):
        self.repo = repo
        self.restricted = set(restricted) if restricted is not None else restricted_prims(repo)
        self.by_name: Dict[str, List[FuncInfo]] = {}
        for fi in repo.iter_functions(M + '.'):
            self.by_name.setdefault(fi.name, []).append(fi)
        self._ret: Dict[str, Any] = {}
        self.unknown: List[str] = []

    # ---- helpers ----------------------------------------------------------------------------------------------------------------------------
    def params(self, fi: FuncInfo) -> List[str]:
        a = fi.node.args
        ps = [x.arg for x in a.posonlyargs + a.args]
        if fi.cls is not None and ps and not any(dotted(d) == 'staticmethod' for d in fi.node.decorator_list):
            ps = ps[1:]
        return ps + [x.arg for x in a.kwonlyargs]

    def is_section(self, fi: FuncInfo) -> bool:
        if fi.cls is None:
            return False
        q = fi.cls.qualname
        return not self.repo.is_subclass(q, MT) and not self.repo.is_subclass(q, MI) and q != MT and q != MI

    def callees(self, fi: FuncInfo, call: ast.Call) -> List[FuncInfo]:
        f = call.func
        if isinstance(f, ast.Name):
            kind, obj = self.repo.lookup(self.repo.resolve_name(fi.module, f.id))
            return [obj] if kind == 'func' else []
        if isinstance(f, ast.Attribute):
            recv = dotted(f.value)
            if recv:
                kind, obj = self.repo.lookup(self.repo.resolve_name(fi.module, recv))
                if kind == 'class':
                    m = self.repo.find_method(obj.qualname, f.attr)
                    return [m] if m is not None else []
                if kind == 'module':
                    k2, o2 = self.repo.lookup(f'{obj.name}.{f.attr}')
                    return [o2] if k2 == 'func' else []
                if recv in ('cls', 'self') and fi.cls is not None:
                    m = self.repo.find_method(fi.cls.qualname, f.attr)
                    own = [m] if m is not None else []
                    subs = [self.repo.classes[s].methods[f.attr] for s in self.repo.subclasses(fi.cls.qualname) if f.attr in self.repo.classes[s].methods]
                    return own + subs
            # receiver of unknown class: every method of that name in the michelson package (class hierarchy by name)
            return [m for m in self.by_name.get(f.attr, []) if m.cls is not None]
        return []

    def assignments(self, fi: FuncInfo, name: str) -> List[ast.AST]:
        """every expression whose value may end up in the local `name` (plain, annotated, tuple-unpacked, stored into it, yielded by a loop)"""
        out: List[ast.AST] = []
        for n in ast.walk(fi.node):
            if isinstance(n, ast.Assign):
                for tg in n.targets:
                    if isinstance(tg, ast.Name) and tg.id == name:
                        out.append(n.value)
                    elif isinstance(tg, (ast.Tuple, ast.List)):
                        for k, e in enumerate(tg.elts):
                            if isinstance(e, ast.Name) and e.id == name:
                                if isinstance(n.value, (ast.Tuple, ast.List)) and len(n.value.elts) == len(tg.elts):
                                    out.append(n.value.elts[k])
                                else:
                                    out.append(n.value)
                    elif isinstance(tg, ast.Subscript) and isinstance(tg.value, ast.Name) and tg.value.id == name:
                        out.append(n.value)
            elif isinstance(n, ast.AnnAssign) and isinstance(n.target, ast.Name) and n.target.id == name and n.value is not None:
                out.append(n.value)
            elif isinstance(n, ast.NamedExpr) and n.target.id == name:
                out.append(n.value)
            elif isinstance(n, ast.Call) and isinstance(n.func, ast.Attribute) and isinstance(n.func.value, ast.Name) and n.func.value.id == name \
                    and n.func.attr in ('setdefault', 'append', 'add', 'insert', 'update') and n.args:
                out.append(n.args[-1])
            elif isinstance(n, (ast.For, ast.comprehension)):
                tg = n.target
                names = [e.id for e in ast.walk(tg) if isinstance(e, ast.Name)]
                if name in names:
                    out.append(n.iter)
        return out

    # ---- provenance -------------------------------------------------------------------------------------------------------------------------
    def taint(self, fi: FuncInfo, e: ast.AST, depth: int = 0, seen: Optional[Set[str]] = None) -> Any:
        seen = seen or set()
        if depth > 14:
            return U
        if isinstance(e, ast.Constant) and e.value is None:
            return A  # no type at all
        if isinstance(e, ast.Call):
            d = dotted(e.func)
            if d in PASS_THROUGH and e.args:
                return self.taint(fi, e.args[-1], depth + 1, seen)
            if d == 'type' and len(e.args) == 1:
                return T
            if isinstance(e.func, ast.Attribute):
                if e.func.attr == 'get_anon_type':
                    return A
                if e.func.attr == 'create_type':
                    ann = next((k.value for k in e.keywords if k.arg == 'annots'), None)
                    return A if ann is None or (isinstance(ann, ast.Constant) and ann.value is None) else U
                if e.func.attr in ('get', 'pop', 'values', 'items', 'copy') and self.taint(fi, e.func.value, depth + 1, seen) == T:
                    return T
            cal = [c for c in self.callees(fi, e) if c is not None]
            if cal and len(cal) <= 12:
                return join(*[self.ret_taint(c, fi, e, depth + 1, seen) for c in cal])
            return U
        if isinstance(e, ast.Name):
            if e.id in self.params(fi):
                return ('P', e.id)
            asg = self.assignments(fi, e.id)
            if asg:
                key = f'{fi.qualname}:{e.id}'
                if key in seen:
                    return A
                return join(*[self.taint(fi, x, depth + 1, seen | {key}) for x in asg])
            kind, _ = self.repo.lookup(self.repo.resolve_name(fi.module, e.id))
            return A if kind == 'class' else U
        if isinstance(e, ast.Attribute):
            if e.attr == 'args':
                if self.is_section(fi) and isinstance(e.value, ast.Name) and e.value.id in ('cls', 'self'):
                    return T
                # the arguments OF AN ARGUMENT type (`lambda_.args[0].args`): an argument type may be a pair / or, whose components carry field annotations
                if any(isinstance(m, ast.Attribute) and m.attr == 'args' for m in ast.walk(e.value)):
                    return T
                return A
            kind, _ = self.repo.lookup(self.repo.resolve_name(fi.module, dotted(e) or '?'))
            return A if kind == 'class' else U
        if isinstance(e, ast.Subscript):
            return self.taint(fi, e.value, depth + 1, seen)
        if isinstance(e, ast.IfExp):
            return join(self.taint(fi, e.body, depth + 1, seen), self.taint(fi, e.orelse, depth + 1, seen))
        if isinstance(e, (ast.List, ast.Tuple, ast.Set)):
            return join(*[self.taint(fi, x, depth + 1, seen) for x in e.elts]) if e.elts else A
        if isinstance(e, ast.Dict):
            return join(*[self.taint(fi, x, depth + 1, seen) for x in e.values if x is not None]) if e.values else A
        if isinstance(e, (ast.ListComp, ast.SetComp, ast.GeneratorExp)):
            return self.taint(fi, e.elt, depth + 1, seen)
        if isinstance(e, ast.DictComp):
            return self.taint(fi, e.value, depth + 1, seen)
        if isinstance(e, ast.Starred):
            return self.taint(fi, e.value, depth + 1, seen)
        if isinstance(e, ast.BoolOp):
            return join(*[self.taint(fi, x, depth + 1, seen) for x in e.values])
        return U

    def ret_taint(self, callee: FuncInfo, caller: FuncInfo, call: ast.Call, depth: int, seen: Set[str]) -> Any:
        """taint of what `callee` returns, with its parameters bound to the arguments of `call`"""
        key = callee.qualname
        if key in seen or depth > 14:
            return U
        rets = [r.value for r in ast.walk(callee.node) if isinstance(r, ast.Return) and r.value is not None]
        if not rets:
            return U
        out = []
        for r in rets:
            t = self.taint(callee, r, depth + 1, seen | {key})
            if isinstance(t, tuple):  # depends on a parameter: look at the argument
                arg = self.arg_for(callee, call, t[1])
                t = self.taint(caller, arg, depth + 1, seen | {key}) if arg is not None else U
            out.append(t)
        return join(*out)

    def arg_for(self, callee: FuncInfo, call: ast.Call, pname: str) -> Optional[ast.AST]:
        ps = self.params(callee)
        for k in call.keywords:
            if k.arg == pname:
                return k.value
        if pname in ps:
            i = ps.index(pname)
            if i < len(call.args) and not any(isinstance(a, ast.Starred) for a in call.args[: i + 1]):
                return call.args[i]
        return None

    # ---- sinks ------------------------------------------------------------------------------------------------------------------------------
    def sink_class_prim(self, fi: FuncInfo, call: ast.Call) -> Optional[str]:
        recv = call.func.value  # type: ignore[attr-defined]
        d = dotted(recv)
        q = None
        if d in ('cls', 'self') and fi.cls is not None:
            q = fi.cls.qualname
        elif isinstance(recv, ast.Call) and dotted(recv.func) == 'type' and fi.cls is not None and recv.args and dotted(recv.args[0]) == 'self':
            q = fi.cls.qualname
        elif d:
            kind, obj = self.repo.lookup(self.repo.resolve_name(fi.module, d))
            if kind == 'class':
                q = obj.qualname
        if q is None:
            return None
        for c in [q] + self.repo.mro(q):
            ci = self.repo.classes.get(c)
            if ci is not None and ci.keywords.get('prim') is not None:
                return ci.keywords['prim']
        return '?' if q == MT else None

    def sinks(self) -> List[Tuple[FuncInfo, ast.Call, str, List[ast.AST]]]:
        out = []
        for fi in self.repo.iter_functions(M + '.'):
            if not fi.qualname.startswith(SCOPE):
                continue
            for n in ast.walk(fi.node):
                if isinstance(n, ast.Call) and isinstance(n.func, ast.Attribute) and n.func.attr == 'create_type':
                    prim = self.sink_class_prim(fi, n)
                    if prim is None or (prim != '?' and prim not in self.restricted):
                        continue
                    args = next((k.value for k in n.keywords if k.arg == 'args'), n.args[0] if n.args else None)
                    if args is None:
                        continue
                    elts = list(args.elts) if isinstance(args, (ast.List, ast.Tuple)) else [args]
                    out.append((fi, n, prim, elts))
        return out

    def call_sites(self, target: FuncInfo) -> List[Tuple[FuncInfo, ast.Call]]:
        out = []
        for fi in self.repo.iter_functions(M + '.'):
            for n in ast.walk(fi.node):
                if isinstance(n, ast.Call):
                    nm = n.func.attr if isinstance(n.func, ast.Attribute) else n.func.id if isinstance(n.func, ast.Name) else None
                    if nm != target.name:
                        continue
                    if any(c is target or (c is not None and c.qualname == target.qualname) for c in self.callees(fi, n)):
                        out.append((fi, n))
        return out

    def resolve(self, fi: FuncInfo, e: ast.AST, level: int = 0, trail: str = '') -> List[Tuple[str, str, str]]:
        """[(verdict, location, how)] for one sink expression; a parameter moves the question to the call sites"""
        t = self.taint(fi, e)
        here = f'{fi.module.relpath}:{getattr(e, "lineno", fi.node.lineno)} {fi.qualname}: `{norm(e)[:60]}`'
        if not isinstance(t, tuple):
            return [(t, here, trail)]
        if level >= 3:
            return [(U, here, trail)]
        out = []
        sites = self.call_sites(fi)
        for cf, call in sites:
            arg = self.arg_for(fi, call, t[1])
            if arg is None:
                out.append((U, f'{cf.module.relpath}:{call.lineno} {cf.qualname}', trail))
                continue
            out += self.resolve(cf, arg, level + 1, f'{trail} <- parameter `{t[1]}` of {fi.qualname}')
        return out or [(A, here, trail + ' (never called with an argument)')]


def findings(repo: Repo, restricted: Optional[Set[str]] = None) -> Dict[str, Any]:
    fl = Flow(repo, restricted)
    sinks = fl.sinks()
    res = {'restricted': sorted(fl.restricted), 'sinks': len(sinks), 'tainted': [], 'unknown': [], 'anon': 0}
    for fi, call, prim, elts in sinks:
        for e in elts:
            for verdict, loc, how in fl.resolve(fi, e):
                row = {'sink': f'{fi.module.relpath}:{call.lineno} {fi.qualname} builds `{prim}`', 'from': loc, 'via': how.strip()}
                if verdict == T:
                    res['tainted'].append(row)
                elif verdict == U:
                    res['unknown'].append(row)
                else:
                    res['anon'] += 1
    return res
