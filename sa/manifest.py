"""Generate /verif/MANIFEST.json from sa.meta and the property modules that exist."""
from __future__ import annotations

import json
import os

from .meta import META, NOT_APPLICABLE

VERIF = os.path.dirname(os.path.dirname(os.path.abspath(__file__)))
PY = '/venv/bin/python'


def build() -> dict:
    props = [json.loads(l) for l in open(os.path.join(VERIF, 'properties.jsonl'))]
    ids = [p['id'] for p in props]
    checks = []
    na = []
    for pid in ids:
        has = os.path.exists(os.path.join(VERIF, 'sa', 'props', pid.lower() + '.py'))
        if pid in META and has:
            m = META[pid]
            checks.append(
                {
                    'property_id': pid,
                    'quick_cmd': f'{PY} -m sa check {pid} --tier quick',
                    'thorough_cmd': f'{PY} -m sa check {pid} --tier thorough',
                    'evidence_file': f'/verif/evidence/{pid}.json',
                    'replay_cmd_template': f'{PY} -m sa replay {{path}}',
                    'engine': 'sa',
                    'level_claimed': {'category': m['level'], 'text': m['text'], 'design_ref': m.get('design', '')},
                    'level_note': m['note'],
                    'technique': m['technique'],
                }
            )
        else:
            reason = NOT_APPLICABLE.get(pid, 'check not built yet in this session (planned, see DESIGN.md §5); no claim is made until it exists')
            na.append({'property_id': pid, 'reason': reason})
    return {
        'version': 1,
        'setup_cmd': f'{PY} -m sa setup',
        'hooks': {
            'guard': 'PYTEZOS_VERIF',
            'enable': 'no hooks: the checks read the source of /repo and never import or run it',
            'baseline_off_cmd': 'cd /repo && /venv/bin/python -m pytest -ra -q -p no:cacheprovider --timeout=900 '
            '--continue-on-collection-errors',
            'source_commits': [],
            'add_only': True,
        },
        'engines': [
            {
                'name': 'sa',
                'path': '/verif/sa',
                'serves_properties': [c['property_id'] for c in checks],
                'kind_free_text': 'repository-specific static analyser: ast source model, constant folder, statement CFG with '
                'exceptional edges and dominators, path-enumerating abstract interpreter over finite domains, rule library; '
                'no execution of repository code, no solver',
            }
        ],
        'checks': checks,
        'not_applicable': na,
        'notes': 'All verdicts are computed from the source text of /repo at check time (SA_REPO overrides the tree for self-tests). '
        'Exit 0 OK / KNOWN-FINDING, exit 1 VIOLATION, exit 2 ANALYSIS-ERROR (anchor missing or idiom not modelled).',
    }


def main() -> int:
    m = build()
    with open(os.path.join(VERIF, 'MANIFEST.json'), 'w') as f:
        json.dump(m, f, indent=1)
    print(f'MANIFEST.json: {len(m["checks"])} checks, {len(m["not_applicable"])} not applicable')
    return 0


if __name__ == '__main__':
    raise SystemExit(main())
