"""E1 — statement-level control-flow graph with exceptional edges, dominators.

Nodes are simple statements, branch tests (If/While/For headers), handler entries and
three synthetic nodes: ENTRY, EXIT (normal return / fall-off) and XEXIT (exception
leaves the function).  Every node that *may raise* (contains a call, a subscript, an
attribute load on a non-self name is ignored, `raise`, `assert`) gets an edge to the
innermost enclosing handlers (all of them — handler matching is decided by the rule that
uses the graph, conservatively) and, unless a bare/`Exception`/`BaseException` handler
encloses it, to the outer level.
"""
from __future__ import annotations

import ast
from dataclasses import dataclass, field
from typing import Callable, Dict, Iterable, List, Optional, Set, Tuple

from .model import AnalysisError, norm


@dataclass(eq=False)
class Node:
    id: int
    kind: str  # entry exit xexit stmt test handler finally for
    ast: Optional[ast.AST] = None
    label: str = ''

    @property
    def line(self) -> int:
        return getattr(self.ast, 'lineno', 0) if self.ast is not None else 0

    def __repr__(self):
        return f'<{self.id}:{self.kind}:{self.label or (norm(self.ast)[:50] if self.ast is not None else "")}>'


class CFG:
    def __init__(self, fn: ast.FunctionDef, may_raise: Optional[Callable[[ast.AST], bool]] = None):
        self.fn = fn
        self.nodes: List[Node] = []
        self.succ: Dict[Node, List[Tuple[Node, str]]] = {}
        self.pred: Dict[Node, List[Tuple[Node, str]]] = {}
        self.may_raise = may_raise or default_may_raise
        self.entry = self._node('entry')
        self.exit = self._node('exit')
        self.xexit = self._node('xexit')
        self.stmt_node: Dict[ast.AST, Node] = {}
        # handler context stack: list of (handlers entry nodes, catches_all, finally_entry or None)
        self._ctx: List[dict] = []
        self._loops: List[Tuple[Node, List[Node]]] = []  # (header, break sources)
        tails = self._block(fn.body, [self.entry])
        for t in tails:
            self._edge(t, self.exit, 'fall')

    # -------------------------------------------------------------------- build
    def _node(self, kind: str, a: Optional[ast.AST] = None, label: str = '') -> Node:
        n = Node(len(self.nodes), kind, a, label)
        self.nodes.append(n)
        self.succ[n] = []
        self.pred[n] = []
        return n

    def _edge(self, a: Node, b: Node, kind: str = 'seq') -> None:
        if (b, kind) not in self.succ[a]:
            self.succ[a].append((b, kind))
            self.pred[b].append((a, kind))

    def _raise_targets(self) -> List[Node]:
        """Where an exception raised here may go."""
        out: List[Node] = []
        for ctx in reversed(self._ctx):
            if ctx['kind'] == 'try':
                out.extend(ctx['handlers'])
                if ctx['catch_all']:
                    return out
                if ctx['finally'] is not None:
                    out.append(ctx['finally_x'])
                    return out
            elif ctx['kind'] == 'finally-only':
                out.append(ctx['finally_x'])
                return out
        out.append(self.xexit)
        return out

    def _exc_edges(self, n: Node) -> None:
        for t in self._raise_targets():
            self._edge(n, t, 'exc')

    def _block(self, body: List[ast.stmt], preds: List[Node]) -> List[Node]:
        cur = preds
        for st in body:
            cur = self._stmt(st, cur)
        return cur

    def _link(self, preds: Iterable[Node], n: Node, kind: str = 'seq') -> None:
        for p in preds:
            self._edge(p, n, kind)

    def _stmt(self, st: ast.stmt, preds: List[Node]) -> List[Node]:
        if isinstance(st, ast.If):
            t = self._node('test', st.test)
            self.stmt_node[st] = t
            self._link(preds, t)
            if self.may_raise(st.test):
                self._exc_edges(t)
            a = self._branch(st.body, t, 'true')
            b = self._branch(st.orelse, t, 'false')
            return a + b
        if isinstance(st, (ast.For, ast.AsyncFor)):
            h = self._node('for', st, 'for ' + norm(st.target))
            self.stmt_node[st] = h
            self._link(preds, h)
            if self.may_raise(st.iter):
                self._exc_edges(h)
            self._loops.append((h, []))
            body_tails = self._branch(st.body, h, 'iter')
            for t in body_tails:
                self._edge(t, h, 'back')
            _, breaks = self._loops.pop()
            else_tails = self._branch(st.orelse, h, 'done')
            return else_tails + breaks
        if isinstance(st, ast.While):
            h = self._node('test', st.test, 'while')
            self.stmt_node[st] = h
            self._link(preds, h)
            if self.may_raise(st.test):
                self._exc_edges(h)
            self._loops.append((h, []))
            body_tails = self._branch(st.body, h, 'true')
            for t in body_tails:
                self._edge(t, h, 'back')
            _, breaks = self._loops.pop()
            const_true = isinstance(st.test, ast.Constant) and bool(st.test.value)
            else_tails = [] if const_true else self._branch(st.orelse, h, 'false')
            return else_tails + breaks
        if isinstance(st, ast.Try):
            return self._try(st, preds)
        if isinstance(st, (ast.With, ast.AsyncWith)):
            n = self._node('stmt', st, 'with ' + ', '.join(norm(i.context_expr) for i in st.items))
            self.stmt_node[st] = n
            self._link(preds, n)
            self._exc_edges(n)
            return self._block(st.body, [n])
        if isinstance(st, (ast.FunctionDef, ast.AsyncFunctionDef, ast.ClassDef)):
            n = self._node('stmt', st, f'def {st.name}')
            self.stmt_node[st] = n
            self._link(preds, n)
            return [n]
        n = self._node('stmt', st)
        self.stmt_node[st] = n
        self._link(preds, n)
        if isinstance(st, ast.Return):
            if st.value is not None and self.may_raise(st.value):
                self._exc_edges(n)
            self._route_exit(n, self.exit, 'return')
            return []
        if isinstance(st, ast.Raise):
            self._exc_edges(n)
            return []
        if isinstance(st, ast.Break):
            if not self._loops:
                raise AnalysisError('break outside loop')
            self._loops[-1][1].append(n)
            return []
        if isinstance(st, ast.Continue):
            if not self._loops:
                raise AnalysisError('continue outside loop')
            self._edge(n, self._loops[-1][0], 'back')
            return []
        if isinstance(st, ast.Assert) or self.may_raise(st):
            self._exc_edges(n)
        return [n]

    def _route_exit(self, n: Node, target: Node, kind: str) -> None:
        """A return passes through enclosing finally blocks."""
        for ctx in reversed(self._ctx):
            if ctx.get('finally') is not None:
                self._edge(n, ctx['finally_r'], kind)
                return
        self._edge(n, target, kind)

    def _branch(self, body: List[ast.stmt], head: Node, kind: str) -> List[Node]:
        if not body:
            # empty branch: the head itself continues; mark the edge kind with a pseudo node
            p = self._node('join', None, kind)
            self._edge(head, p, kind)
            return [p]
        first_preds = [head]
        # label the edge head->first
        p = self._node('join', None, kind)
        self._edge(head, p, kind)
        return self._block(body, [p])

    def _try(self, st: ast.Try, preds: List[Node]) -> List[Node]:
        handlers = [self._node('handler', h, 'except ' + (norm(h.type) if h.type is not None else '')) for h in st.handlers]
        catch_all = any(
            h.type is None or (isinstance(h.type, ast.Name) and h.type.id in ('Exception', 'BaseException')) for h in st.handlers
        )
        fin = fin_r = fin_x = None
        if st.finalbody:
            # three copies of the finally body: normal continuation, on return, on exception
            fin = self._node('finally', st, 'finally(normal)')
            fin_r = self._node('finally', st, 'finally(return)')
            fin_x = self._node('finally', st, 'finally(exc)')
        ctx = {'kind': 'try', 'handlers': handlers, 'catch_all': catch_all, 'finally': fin, 'finally_r': fin_r, 'finally_x': fin_x}
        self._ctx.append(ctx)
        body_tails = self._block(st.body, preds)
        self._ctx.pop()
        # handlers and else run under the finally only
        if fin is not None:
            self._ctx.append({'kind': 'finally-only', 'finally': fin, 'finally_r': fin_r, 'finally_x': fin_x})
        else_tails = self._block(st.orelse, body_tails) if st.orelse else body_tails
        tails = list(else_tails)
        for hn, h in zip(handlers, st.handlers):
            tails += self._block(h.body, [hn])
        if fin is not None:
            self._ctx.pop()
            for t in tails:
                self._edge(t, fin, 'seq')
            out_n = self._block(st.finalbody, [fin])
            out_r = self._block(st.finalbody, [fin_r])
            for t in out_r:
                self._route_exit(t, self.exit, 'return')
            out_x = self._block(st.finalbody, [fin_x])
            for t in out_x:
                self._exc_edges(t)
            return out_n
        return tails

    # ----------------------------------------------------------------- analysis
    def reachable(self, start: Optional[Node] = None, kinds: Optional[Set[str]] = None) -> Set[Node]:
        start = start or self.entry
        seen = {start}
        stack = [start]
        while stack:
            n = stack.pop()
            for m, k in self.succ[n]:
                if kinds is not None and k not in kinds:
                    continue
                if m not in seen:
                    seen.add(m)
                    stack.append(m)
        return seen

    def dominators(self, root: Optional[Node] = None, reverse: bool = False, skip_edge: Optional[Callable] = None
                   ) -> Dict[Node, Set[Node]]:
        """Iterative dominator sets.  reverse=True gives post-dominators w.r.t. `root` (an exit)."""
        root = root or (self.exit if reverse else self.entry)
        nxt = self.pred if reverse else self.succ
        prv = self.succ if reverse else self.pred
        # nodes reachable from root in the chosen direction
        seen = {root}
        order = [root]
        stack = [root]
        while stack:
            n = stack.pop()
            for m, k in nxt[n]:
                if skip_edge and skip_edge(n, m, k):
                    continue
                if m not in seen:
                    seen.add(m)
                    order.append(m)
                    stack.append(m)
        dom: Dict[Node, Set[Node]] = {n: set(seen) for n in seen}
        dom[root] = {root}
        changed = True
        while changed:
            changed = False
            for n in order:
                if n is root:
                    continue
                ps = [p for p, k in prv[n] if p in seen and not (skip_edge and skip_edge(p, n, k))]
                if not ps:
                    continue
                new = set.intersection(*(dom[p] for p in ps)) | {n}
                if new != dom[n]:
                    dom[n] = new
                    changed = True
        return dom

    def paths_avoiding(self, src: Node, dst: Node, avoid: Set[Node], edge_ok: Optional[Callable] = None) -> Optional[List[Node]]:
        """A path src ->* dst that touches no node in `avoid` (besides endpoints), or None."""
        prev: Dict[Node, Optional[Node]] = {src: None}
        stack = [src]
        while stack:
            n = stack.pop()
            if n is dst:
                path = []
                cur: Optional[Node] = n
                while cur is not None:
                    path.append(cur)
                    cur = prev[cur]
                return list(reversed(path))
            for m, k in self.succ[n]:
                if edge_ok and not edge_ok(n, m, k):
                    continue
                if m in prev or (m in avoid and m is not dst):
                    continue
                prev[m] = n
                stack.append(m)
        return None

    def nodes_where(self, pred: Callable[[Node], bool]) -> List[Node]:
        return [n for n in self.nodes if pred(n)]

    def describe_path(self, path: List[Node]) -> List[str]:
        out = []
        for n in path:
            if n.kind in ('join',):
                out.append(f'[{n.label}]')
            elif n.kind in ('entry', 'exit', 'xexit'):
                out.append(n.kind.upper())
            else:
                out.append(f'L{n.line}:{n.label or norm(n.ast)[:60]}')
        return out


def default_may_raise(node: ast.AST) -> bool:
    for n in ast.walk(node):
        if isinstance(n, (ast.Call, ast.Subscript, ast.Raise, ast.Assert, ast.Await)):
            return True
        if isinstance(n, ast.BinOp) and isinstance(n.op, (ast.Div, ast.FloorDiv, ast.Mod)):
            return True
    return False


def calls_in(node: ast.AST) -> List[ast.Call]:
    """Calls evaluated by this CFG node (not descending into nested defs/lambdas)."""
    out: List[ast.Call] = []
    stack = [node]
    while stack:
        n = stack.pop()
        if isinstance(n, (ast.FunctionDef, ast.AsyncFunctionDef, ast.Lambda, ast.ClassDef)) and n is not node:
            continue
        if isinstance(n, ast.Call):
            out.append(n)
        stack.extend(ast.iter_child_nodes(n))
    return out


def node_exprs(n: Node) -> List[ast.AST]:
    """The AST fragments evaluated *at* this CFG node (headers only for compound statements)."""
    a = n.ast
    if a is None:
        return []
    if n.kind == 'for':
        return [a.iter]  # type: ignore[attr-defined]
    if n.kind == 'handler':
        return [a.type] if getattr(a, 'type', None) is not None else []
    if n.kind == 'finally':
        return []
    if isinstance(a, (ast.With, ast.AsyncWith)):
        return [i.context_expr for i in a.items]
    if isinstance(a, (ast.FunctionDef, ast.AsyncFunctionDef, ast.ClassDef)):
        return []
    return [a]
