"""Typed abstract execution of instructions (C01 level 2, C02).

Values are `Obj`s of the real type classes carrying their abstract class `_t` (a `TCls`: primitive, argument classes, annotations) and their
real fields (`items`, `item`, `value`); leaf payloads are symbols.  The real `MichelsonStack`, the real instruction `execute` methods and
the real methods of the structural type classes (pair, or, option, list, lambda) are interpreted; `create_type` is modelled as building a
`TCls`.  Code blocks given as instruction arguments are `Body` objects: executing one pops its declared number of items through the real
stack (so the protected prefix is honoured) and pushes fresh symbolic results that record their inputs.

The module also provides the checker's own reference semantics (`ref_run`) over value *shapes*, written from the Michelson reference and
independent of the repository.
"""
from __future__ import annotations

from typing import Any, Dict, List, Optional, Tuple

from .absint import App, BoundMethod, Builtin, ClassRef, ExcVal, FuncRef, Hooks, Interp, Obj, PathResult, Raised, Sym, vrepr
from .instrmodel import MRE, STACK, T, TYPECLS, mk_stack
from .model import AnalysisError, Repo
from .typemodel import COMPOSITE, TCls, TypeTreeHooks, t

INSTR = 'pytezos.michelson.instructions'
BASE_INSTR = f'{INSTR}.base.MichelsonInstruction'
MT = f'{T}.base.MichelsonType'
STRUCTURAL = ('pair', 'or', 'option', 'list', 'lambda')
# methods of the structural classes that stay opaque at level 1 (conversions and comparisons: other properties)
OPAQUE_STRUCT = {'to_micheline_value', 'from_micheline_value', 'to_python_object', 'from_python_object', 'to_literal', 'pack', 'unpack', 'forge',
                 '__lt__', '__eq__', '__hash__', '__repr__', 'generate_pydoc', 'merge_lazy_diff', 'aggregate_lazy_diff', 'attach_context', 'duplicate'}


class Body:
    """An abstract code block: pops `pops` items, pushes one fresh value per entry of `pushes` (top first)."""

    def __init__(self, name: str, pops: int, pushes: List[TCls]):
        self.name, self.pops, self.pushes = name, pops, pushes
        self.script: Optional[List[List[Any]]] = None  # per call: the concrete values pushed (instead of fresh symbols)

    def key(self):
        return ('body', self.name)

    def __deepcopy__(self, memo):
        return self

    def __repr__(self):
        return f'<{self.name}>'


class IntLit:
    def __init__(self, n: int):
        self.n = n

    def key(self):
        return ('intlit', self.n)

    def __deepcopy__(self, memo):
        return self


def tshape(tc: Any) -> Any:
    """Annotation-blind structure of a type."""
    if isinstance(tc, TCls):
        return (tc.prim,) + tuple(tshape(a) for a in tc.args)
    if isinstance(tc, ClassRef):
        return ('class:' + tc.qual.rsplit('.', 1)[1],)
    return ('?', vrepr(tc))


def tstr(ts: Any) -> str:
    if isinstance(ts, tuple) and len(ts) == 1:
        return str(ts[0])
    if isinstance(ts, tuple):
        return '(' + ' '.join([str(ts[0])] + [tstr(a) for a in ts[1:]]) + ')'
    return str(ts)


def vshape(v: Any) -> Any:
    """Structure of a value down to leaf payloads."""
    if isinstance(v, Obj) and '_t' in v.fields:
        tc = v.fields['_t']
        if tc.prim == 'pair':
            return ('Pair',) + tuple(vshape(x) for x in v.fields['items'])
        if tc.prim == 'or':
            l, r = v.fields['items']
            if isinstance(r, Obj) and r.cls.endswith('.undefined'):
                return ('Left', vshape(l))
            if isinstance(l, Obj) and l.cls.endswith('.undefined'):
                return ('Right', vshape(r))
            return ('Or?', vshape(l), vshape(r))
        if tc.prim == 'option':
            it = v.fields['item']
            return ('None',) if it is None else ('Some', vshape(it))
        if tc.prim == 'list':
            items = v.fields['items']
            if isinstance(items, (list, tuple)):
                return ('List',) + tuple(vshape(x) for x in items)
            return ('List*', vrepr(items))
        if tc.prim == 'map':
            items = v.fields['items']
            if isinstance(items, (list, tuple)):
                return ('Map',) + tuple((vshape(k), vshape(x)) for k, x in items)
            return ('Map*', vrepr(items))
        if tc.prim == 'lambda':
            return ('Lambda', vrepr(v.fields.get('value')))
        if tc.prim == 'unit':
            return ('leaf', 'Unit')
        return ('leaf', vrepr(v.fields.get('value')))
    if isinstance(v, Obj) and v.cls.endswith('.undefined'):
        return ('undefined',)
    return ('raw', vrepr(v))


def vtype(v: Any) -> Any:
    if isinstance(v, Obj) and '_t' in v.fields:
        return tshape(v.fields['_t'])
    return ('?', vrepr(v)[:40])


class ExecHooks(TypeTreeHooks):
    def __init__(self, repo: Repo, cls_args: Optional[Dict[str, Any]] = None, opaque_types: bool = False):
        super().__init__(repo)
        self.cls_args = cls_args or {}
        self.opaque_types = opaque_types  # level 1: methods of the type classes are not interpreted, their results are typed symbols
        self.serial = 0
        self.body_calls: Dict[str, int] = {}

    def reset(self, it):
        self.serial = 0
        self.body_calls = {}

    # ------------------------------------------------------------------------------------------------------------------ policy
    def inline(self, it, fi):
        m = fi.module.name
        if m.startswith(INSTR + '.') and fi.name != 'format_stdout':
            return True
        if fi.cls is not None and fi.cls.qualname == STACK:
            return True
        if self.opaque_types and m.startswith(T):
            if fi.cls is not None and fi.cls.name in ('OptionType', 'OrType', 'PairType', 'ListType') and fi.name not in OPAQUE_STRUCT:
                return True
            return fi.cls is not None and fi.name in ('__int__', '__bool__', '__bytes__', '__len__', '__str__', '__iter__')
        return super().inline(it, fi)

    def is_instr_cls(self, c) -> bool:
        return isinstance(c, ClassRef) and self.repo.is_subclass(c.qual, BASE_INSTR)

    def is_type_cls(self, c) -> bool:
        return isinstance(c, ClassRef) and self.repo.is_subclass(c.qual, MT)

    def to_tcls(self, c: Any) -> Any:
        if isinstance(c, TCls):
            return c
        if self.is_type_cls(c):
            from .instrmodel import prim_of
            return TCls(prim_of(self.repo, c.qual) or c.qual.rsplit('.', 1)[1], [])
        return c

    # ------------------------------------------------------------------------------------------------------------------ attributes
    def attr(self, it, obj, name, node):
        if self.is_instr_cls(obj):
            if name in self.cls_args:
                return self.cls_args[name]
            if name == 'prim':
                from .instrmodel import prim_of
                return prim_of(self.repo, obj.qual)
        if isinstance(obj, IntLit) and name == 'get_int':
            return BoundMethod(obj, 'get_int')
        if type(obj).__name__ == 'StrLit' and name == 'get_string':
            return BoundMethod(obj, 'get_string')
        if isinstance(obj, Body):
            if name == 'execute':
                return BoundMethod(obj, 'execute')
            raise AnalysisError(f'attribute {name} of an abstract code block')
        if self.is_type_cls(obj) and name in ('prim', 'args', 'field_name', 'type_name'):
            return getattr(self.to_tcls(obj), name)
        if isinstance(obj, Obj) and '_t' in obj.fields and name == 'args':
            return obj.fields['_t'].args
        return super().attr(it, obj, name, node)

    # ------------------------------------------------------------------------------------------------------------------ type equality
    def types_equal(self, a: Any, b: Any) -> Optional[bool]:
        a, b = self.to_tcls(a), self.to_tcls(b)
        if isinstance(a, TCls) and isinstance(b, TCls):
            return tshape(a) == tshape(b)
        return None

    def fresh(self, tc: TCls, term: Any) -> Obj:
        """A new abstract value of type tc whose content is the opaque term."""
        tc = self.to_tcls(tc)
        if not isinstance(tc, TCls):
            raise AnalysisError(f'fresh value of a non-type {tc!r}')
        field = {'or': 'items', 'pair': 'items', 'option': 'item', 'list': 'items', 'set': 'items', 'map': 'items'}.get(tc.prim, 'value')
        if tc.prim == 'pair':
            kids = tuple(self.fresh(a, App('part', term, i)) for i, a in enumerate(tc.args))
            return Obj(self.qual(tc), {'items': kids, '_t': tc}, tag='pair')
        return Obj(self.qual(tc), {field: term, '_t': tc}, tag=tc.prim)

    # ------------------------------------------------------------------------------------------------------------------ calls
    def call(self, it, callee, args, kwargs, node):
        if isinstance(callee, BoundMethod) and isinstance(callee.recv, IntLit):
            return callee.recv.n
        if isinstance(callee, BoundMethod) and type(callee.recv).__name__ == 'StrLit':
            return callee.recv.s
        if isinstance(callee, BoundMethod) and isinstance(callee.recv, Body):
            body: Body = callee.recv
            stack = args[0]
            pop = self.repo.find_method(STACK, 'pop')
            push = self.repo.find_method(STACK, 'push')
            popped = it.call_function(FuncRef(pop, stack, True), [], {'count': body.pops}, node) if body.pops else []
            self.serial += 1
            it.event('body', body.name, tuple(popped), self.serial)
            k = self.body_calls.get(body.name, 0)
            self.body_calls[body.name] = k + 1
            if body.script is not None:
                if k >= len(body.script):
                    raise AnalysisError(f'code block {body.name} called more often than scripted')
                outs = list(body.script[k])
            else:
                outs = [self.fresh(tc, App(f'{body.name}.out{i}', self.serial)) for i, tc in enumerate(body.pushes)]
            for o in reversed(outs):
                it.call_function(FuncRef(push, stack, True), [o], {}, node)
            return Obj(BASE_INSTR, {'stack_items_added': len(outs)}, tag=f'exec:{body.name}')
        if isinstance(callee, FuncRef) and callee.fi is not None:
            fi = callee.fi
            recv = callee.self_val
            n = fi.name
            if n == 'format_stdout':
                return 'stdout'
            if n == 'from_comb' and fi.cls is not None and fi.cls.name == 'PairType':
                return NotImplemented  # the real from_comb is interpreted (create_type is modelled here)
            if n == 'get_entrypoint_type' and fi.cls is None:
                # the parameter type of another contract: unknown to the context (None) or the type asked for
                it.event('entrypoint-type', tuple(args[1:]), dict(kwargs))
                if it.choose(2) == 1:
                    return None
                return self.cls_args.get('_entrypoint_type', TCls('nat', []))
            if n == 'get_int' and args == [] and isinstance(recv, IntLit):
                return recv.n
            if n == 'create_type' and (self.is_type_cls(recv) or isinstance(recv, TCls)) and fi.module.name.startswith(T):
                base = self.to_tcls(recv)
                targs = [self.to_tcls(a) for a in (kwargs.get('args') if 'args' in kwargs else args[0])]
                annots = kwargs.get('annots') or []
                if base.prim == 'pair' and len(targs) > 2:
                    return t('pair', *targs)
                fn = next((a[1:] for a in annots if isinstance(a, str) and a.startswith('%')), None)
                tn = next((a[1:] for a in annots if isinstance(a, str) and a.startswith(':')), None)
                return TCls(base.prim, targs, fn, tn)
            if n in ('assert_type_equal', 'assert_type_in') and (isinstance(recv, (TCls, Obj)) or self.is_type_cls(recv)):
                rt = recv.fields['_t'] if isinstance(recv, Obj) and '_t' in recv.fields else recv
                if n == 'assert_type_equal':
                    eq = self.types_equal(rt, args[0])
                    it.event('type-check', 'equal', tshape(self.to_tcls(rt)), tshape(self.to_tcls(args[0])), eq)
                    if eq is False:
                        raise Raised(ExcVal(MRE, ('AssertionError', f'type mismatch: {tstr(tshape(self.to_tcls(rt)))} vs {tstr(tshape(self.to_tcls(args[0])))}')))
                    return None
                prims = [self.to_tcls(a).prim if isinstance(self.to_tcls(a), TCls) else None for a in args]
                rp = self.to_tcls(rt).prim if isinstance(self.to_tcls(rt), TCls) else None
                it.event('type-check', 'in', rp, tuple(prims), rp in prims)
                if rp is not None and None not in prims and rp not in prims:
                    raise Raised(ExcVal(MRE, ('AssertionError', f'type mismatch: {rp} not in {prims}')))
                return None
            if n == 'duplicate' and isinstance(recv, Obj):
                it.event('duplicate', recv)
                return recv
            if n == 'check_constraints':
                return None
            if n in ('is_packable', 'is_pushable', 'is_duplicable', 'is_comparable', 'is_storable', 'is_passable'):
                return True
            if n == 'get_anon_type' and isinstance(recv, Obj) and '_t' in recv.fields:
                return recv.fields['_t'].anon()
            if n == 'get_anon_type' and recv is not None and self.is_type_cls(recv):
                # the bare registered class (NatType, IntType ...): its anonymous type is the type itself
                tc = self.to_tcls(recv)
                if isinstance(tc, TCls):
                    return tc.anon()
            if self.opaque_types and fi.module.name.startswith(T) and fi.cls is not None and not self.inline(it, fi):
                return self.opaque_result(it, fi, recv, args, kwargs)
        if self.is_instr_cls(callee):
            return Obj(callee.qual, dict(kwargs, _args=tuple(args)), tag='instr')
        if self.is_type_cls(callee):
            # a value built from the bare registered class (no argument types)
            tc = self.to_tcls(callee)
            it.event('bare-construct', callee.qual)
            return super().call(it, tc, args, kwargs, node)
        return super().call(it, callee, args, kwargs, node)

    # ------------------------------------------------------------------------------------------------------------------ level 1
    def opaque_result(self, it, fi, recv, args, kwargs):
        """Result of a type-class method that is not interpreted: a value typed by the return annotation (or by the receiving class for
        constructors), whose content is the application term."""
        term = App(f'{fi.cls.name}.{fi.name}', *([recv] if recv is not None else []), *args, *[App('kw', k, v) for k, v in sorted(kwargs.items())])
        it.event('type-call', fi.cls.name, fi.name, recv, tuple(args), dict(kwargs))
        ann = fi.node.returns
        return self._typed(it, fi, ann, recv, term)

    def _typed(self, it, fi, ann, recv, term):
        import ast as _ast
        if ann is None:
            # constructors: from_value & co. return an instance of the receiving class
            if fi.name.startswith('from_') or fi.name in ('empty', 'none', 'dummy'):
                return self._of_class(recv, fi, term, default=fi.cls.qualname)
            return term
        if isinstance(ann, _ast.Constant) and isinstance(ann.value, str):
            try:
                ann = _ast.parse(ann.value, mode='eval').body
            except SyntaxError:
                return term
        if isinstance(ann, _ast.Constant) and ann.value is None:
            return None
        if isinstance(ann, _ast.Name):
            if ann.id in ('bool', 'int', 'str', 'bytes', 'float', 'dict', 'list', 'Any'):
                return term
            q = self.repo.resolve_name(fi.module, ann.id)
            if q in self.repo.classes and self.repo.is_subclass(q, MT):
                if q == MT or (fi.cls is not None and q == fi.cls.qualname):
                    # declared as the generic base or as the defining class: the receiver's own class when it is more specific
                    return self._of_class(recv, fi, term, default=q)
                return self.fresh(self.to_tcls(ClassRef(q)), term) if self.to_tcls(ClassRef(q)).prim not in ('pair',) else Obj(q, {'items': term, '_t': TCls('pair', [TCls('?', []), TCls('?', [])])})
            return term
        if isinstance(ann, _ast.Subscript):
            head = ann.value.id if isinstance(ann.value, _ast.Name) else None
            if head == 'Optional':
                if it.choose(2) == 1:
                    return None
                return self._typed(it, fi, ann.slice, recv, term)
            if head in ('Tuple', 'tuple'):
                elts = ann.slice.elts if isinstance(ann.slice, _ast.Tuple) else [ann.slice]
                return tuple(self._typed(it, fi, e, recv, App('part', term, i)) for i, e in enumerate(elts))
            if head == 'Type':
                return term
        return term

    def _of_class(self, recv, fi, term, default: Optional[str] = None):
        tc = None
        if isinstance(recv, Obj) and '_t' in recv.fields:
            tc = recv.fields['_t']
        elif isinstance(recv, TCls):
            tc = recv
        elif self.is_type_cls(recv):
            tc = self.to_tcls(recv)
        elif default is not None:
            tc = self.to_tcls(ClassRef(default))
        if tc is None:
            return term
        if tc.prim == 'pair':
            return Obj(self.qual(tc), {'items': term, '_t': tc}, tag='pair')
        return self.fresh(tc, term)

    def isinstance(self, it, obj, classes):
        if isinstance(obj, (Body, IntLit)):
            return False
        return super().isinstance(it, obj, classes)

    def truth(self, it, term):
        # payloads of bool values decide branches: unknown
        if isinstance(term, Sym) and term.meta.get('meta_prim') == 'bool':
            return None
        if isinstance(term, App) and (term.op.endswith('.out0') or term.op.endswith('.out1') or term.op == 'part'):
            return None
        return super().truth(it, term)


# ---------------------------------------------------------------------------------------------------------------------- values
def leaf(prim: str, name: str) -> Obj:
    tc = TCls(prim, [])
    return Obj(TYPECLS.get(prim, MT), {'value': Sym(name, meta_prim=prim), '_t': tc}, tag=name)


def mkpair(a: Obj, b: Obj, f: Optional[str] = None, n: Optional[str] = None) -> Obj:
    tc = TCls('pair', [a.fields['_t'], b.fields['_t']], f, n)
    return Obj(TYPECLS['pair'], {'items': (a, b), '_t': tc}, tag='pair')


def mklist(items: List[Obj], item_t: TCls) -> Obj:
    return Obj(TYPECLS['list'], {'items': list(items), '_t': TCls('list', [item_t])}, tag='list')


def mkoption(item: Optional[Obj], item_t: TCls) -> Obj:
    return Obj(TYPECLS['option'], {'item': item, '_t': TCls('option', [item_t])}, tag='option')


def run_typed(repo: Repo, cls_qual: str, stack_items: List[Any], args: Optional[List[Any]] = None, max_paths: int = 400,
              max_depth: int = 30, context: Any = None, extra: Optional[Dict[str, Any]] = None, opaque_types: bool = False,
              loop_unroll: int = 3, protected: int = 0) -> List[PathResult]:
    fi = repo.find_method(cls_qual, 'execute')
    if fi is None:
        raise AnalysisError(f'{cls_qual} has no execute')
    hooks = ExecHooks(repo, dict({'args': list(args or [])}, **(extra or {})), opaque_types=opaque_types)
    it = Interp(repo, hooks, max_depth=max_depth, max_paths=max_paths)
    it.max_recursion = 12
    it.while_bound = 4
    it.loop_unroll = loop_unroll

    def go(i):
        st = mk_stack(stack_items)
        st.fields['protected'] = protected  # the first `protected` items belong to an enclosing DIP: out of reach of the instruction
        out: List[Any] = []
        ctx = context if context is not None else Sym('context')
        r = i.call_function(FuncRef(fi, ClassRef(cls_qual), True), [st, out, ctx], {}, None, force_inline=True)
        return {'stack': list(st.fields['items']), 'protected': st.fields['protected'], 'result': r}

    return it.run_paths(go)
