"""E4 — a path-enumerating abstract interpreter for the Python subset pytezos uses in
the functions the checks reason about.

Nothing is executed from the repository: function *bodies* (ast) are interpreted here
over abstract values.  Concrete Python values stand for themselves (constants folded from
the source); everything else is a `Sym` (opaque input) or an `App` (uninterpreted term).
Branching on a non-concrete condition forks the path (DFS by choice replay), and every
path carries its path condition and the events recorded by the domain hooks.

No solver is involved: the only reasoning about conditions is syntactic memoisation
(the same term decided twice on one path gets the same answer) plus whatever the
pluggable `Hooks` object decides for its finite domain.
"""
from __future__ import annotations

import ast
import builtins as _bi
from dataclasses import dataclass, field
from typing import Any, Callable, Dict, List, Optional, Tuple

from .model import NTRow, AnalysisError, ClassInfo, FuncInfo, ModuleInfo, NotConstant, Repo, dotted, norm


# --------------------------------------------------------------------------- values
class Sym:
    """Opaque symbolic input."""

    __slots__ = ('name', 'typ', 'meta')

    def __init__(self, name: str, typ: Optional[str] = None, **meta):
        self.name = name
        self.typ = typ
        self.meta = meta

    def __repr__(self):
        return f'${self.name}'

    def key(self):
        return ('sym', self.name)

    def __hash__(self):
        return hash(self.key())

    def __eq__(self, other):
        return isinstance(other, Sym) and other.name == self.name


class App:
    """Uninterpreted application term."""

    __slots__ = ('op', 'args', '_k')

    def __init__(self, op: str, *args):
        self.op = op
        self.args = tuple(args)
        self._k = None

    def key(self):
        if self._k is None:
            self._k = ('app', self.op) + tuple(vkey(a) for a in self.args)
        return self._k

    def __hash__(self):
        return hash(self.key())

    def __eq__(self, other):
        return isinstance(other, App) and other.key() == self.key()

    def __repr__(self):
        return f'{self.op}({", ".join(map(vrepr, self.args))})'


class Obj:
    """Instance of a repo class (or a hook-defined abstract object)."""

    def __init__(self, cls: str, fields: Optional[Dict[str, Any]] = None, tag: str = ''):
        self.cls = cls
        self.fields = fields if fields is not None else {}
        self.tag = tag

    def __repr__(self):
        inner = ', '.join(f'{k}={vrepr(v)}' for k, v in self.fields.items())
        return f'<{self.cls.rsplit(".", 1)[-1]}{":" + self.tag if self.tag else ""} {inner}>'

    def key(self):
        return ('obj', self.cls, self.tag, id(self))


@dataclass(eq=False)
class ClassRef:
    qual: str

    def __repr__(self):
        return f'class:{self.qual.rsplit(".", 1)[-1]}'

    def key(self):
        return ('class', self.qual)

    def __hash__(self):
        return hash(self.key())

    def __eq__(self, other):
        return isinstance(other, ClassRef) and other.qual == self.qual


@dataclass(eq=False)
class FuncRef:
    fi: Optional[FuncInfo]
    self_val: Any = None
    bound: bool = False
    closure: Optional['Env'] = None
    lam: Optional[ast.AST] = None  # lambda / nested def node
    module: Optional[ModuleInfo] = None

    def __repr__(self):
        if self.fi:
            return f'fn:{self.fi.qualname.split(".", 1)[-1]}'
        return 'fn:<lambda>'

    def key(self):
        return ('fn', self.fi.qualname if self.fi else id(self.lam), vkey(self.self_val) if self.bound else None)


@dataclass(eq=False)
class ModRef:
    name: str

    def key(self):
        return ('mod', self.name)


@dataclass(eq=False)
class Builtin:
    name: str

    def __repr__(self):
        return f'builtin:{self.name}'

    def key(self):
        return ('builtin', self.name)

    def __hash__(self):
        return hash(self.key())

    def __eq__(self, other):
        return isinstance(other, Builtin) and other.name == self.name


@dataclass(eq=False)
class SuperRef:
    cls: str
    recv: Any

    def key(self):
        return ('super', self.cls, vkey(self.recv))


@dataclass(eq=False)
class BoundMethod:
    recv: Any
    name: str

    def key(self):
        return ('bm', vkey(self.recv), self.name)


class ExcVal:
    def __init__(self, cls: str, args: Tuple = (), origin: str = ''):
        self.cls = cls  # builtin name or repo qualname
        self.args = tuple(args)
        self.origin = origin

    def __repr__(self):
        return f'{self.cls.rsplit(".", 1)[-1]}({", ".join(map(vrepr, self.args))})'

    def key(self):
        return ('exc', self.cls) + tuple(vkey(a) for a in self.args)


@dataclass(eq=False)
class NTClass:
    name: str
    fields: Tuple[str, ...]

    def key(self):
        return ('ntclass', self.name, self.fields)


class NTVal(tuple):
    """namedtuple instance: a real tuple (iteration, unpacking, indexing) with named fields."""

    def __new__(cls, ntc, vals):
        o = super().__new__(cls, vals)
        o.ntc = ntc
        return o

    def key(self):
        return ('nt', self.ntc.name) + tuple(vkey(v) for v in self)


class PartialVal:
    """functools.partial(func, *args, **kwargs): calling it is calling `func` with the bound arguments first."""

    def __init__(self, func, args, kwargs):
        self.func = func
        self.args = list(args)
        self.kwargs = dict(kwargs)

    def key(self):
        return ('partial', vkey(self.func), tuple(vkey(a) for a in self.args), tuple((k, vkey(v)) for k, v in sorted(self.kwargs.items())))

    def __repr__(self):
        return f'partial({vrepr(self.func)}, {vrepr(self.args)}, {vrepr(self.kwargs)})'

    def __deepcopy__(self, memo):
        return self


class LazyGen:
    """A generator expression evaluated on demand."""

    def __init__(self, gen, src: str = ''):
        self.gen = gen
        self.src = src

    def key(self):
        return ('gen', id(self))


def is_concrete(v: Any) -> bool:
    if isinstance(v, (Sym, App, Obj, ClassRef, FuncRef, ModRef, Builtin, BoundMethod, ExcVal, LazyGen, PartialVal)):
        return False
    if isinstance(v, (list, tuple, set, frozenset)):
        return all(is_concrete(x) for x in v)
    if isinstance(v, dict):
        return all(is_concrete(k) and is_concrete(x) for k, x in v.items())
    return True


def is_prim(v: Any) -> bool:
    return isinstance(v, (int, float, str, bytes, bool, type(None)))


def vkey(v: Any):
    if hasattr(v, 'key') and not isinstance(v, (dict,)):
        try:
            return v.key()
        except TypeError:
            pass
    if isinstance(v, (list, tuple)):
        return (type(v).__name__,) + tuple(vkey(x) for x in v)
    if isinstance(v, (set, frozenset)):
        return ('set',) + tuple(sorted((vkey(x) for x in v), key=repr))
    if isinstance(v, dict):
        return ('dict',) + tuple((vkey(k), vkey(x)) for k, x in v.items())
    return ('c', type(v).__name__, v)


def vrepr(v: Any) -> str:
    if isinstance(v, bytes):
        return v.hex() if v else "b''"
    if isinstance(v, (list, tuple)):
        o, c = ('[', ']') if isinstance(v, list) else ('(', ')')
        return o + ', '.join(vrepr(x) for x in v) + c
    if isinstance(v, dict):
        return '{' + ', '.join(f'{vrepr(k)}: {vrepr(x)}' for k, x in v.items()) + '}'
    return repr(v)


def cat(*parts) -> Any:
    """Concatenation term with flattening and merging of adjacent constants."""
    flat: List[Any] = []
    for p in parts:
        if isinstance(p, App) and p.op == 'cat':
            flat.extend(p.args)
        else:
            flat.append(p)
    out: List[Any] = []
    for p in flat:
        if isinstance(p, (bytes, str)) and len(p) == 0:
            continue
        if out and isinstance(p, (bytes, str)) and type(out[-1]) is type(p):
            out[-1] = out[-1] + p
        else:
            out.append(p)
    if not out:
        return parts[0] if parts and isinstance(parts[0], (bytes, str)) else b''
    if len(out) == 1:
        return out[0]
    return App('cat', *out)


# ------------------------------------------------------------------ control signals
class _Return(Exception):
    def __init__(self, value):
        self.value = value


class _Break(Exception):
    pass


class _Continue(Exception):
    pass


GEN_CAP = 64


class _GenCap(Exception):
    pass


class Raised(Exception):
    def __init__(self, exc: ExcVal, loc: str = ''):
        self.exc = exc
        self.loc = loc


class Unsupported(AnalysisError):
    pass


class PathLimit(AnalysisError):
    pass


# -------------------------------------------------------------------------- hooks
class Hooks:
    """Domain plug-in.  Every method may return NotImplemented to fall through."""

    def call(self, it: 'Interp', callee: Any, args: List[Any], kwargs: Dict[str, Any], node: ast.AST):
        return NotImplemented

    def attr(self, it: 'Interp', obj: Any, name: str, node: ast.AST):
        return NotImplemented

    def setattr(self, it: 'Interp', obj: Any, name: str, value: Any, node: ast.AST):
        return NotImplemented

    def subscript(self, it: 'Interp', obj: Any, idx: Any, node: ast.AST):
        return NotImplemented

    def truth(self, it: 'Interp', term: Any):
        """True / False / None (unknown -> fork)."""
        return None

    def obj_truth(self, it: 'Interp', obj: Any):
        """Truthiness of an abstract object: True / False / None (unknown -> fork) / NotImplemented (use the class's __bool__/__len__)."""
        return NotImplemented

    def compare(self, it: 'Interp', op: str, a: Any, b: Any, node: ast.AST):
        return NotImplemented

    def binop(self, it: 'Interp', op: str, a: Any, b: Any, node: ast.AST):
        return NotImplemented

    def iterate(self, it: 'Interp', obj: Any, node: ast.AST):
        """list of elements to unroll over, or NotImplemented."""
        return NotImplemented

    def isinstance(self, it: 'Interp', obj: Any, classes: List[Any]):
        return NotImplemented

    def inline(self, it: 'Interp', fi: FuncInfo) -> bool:
        return True

    def name(self, it: 'Interp', name: str, node: ast.AST):
        return NotImplemented


class PathTruncated(Exception):
    """The current path is abandoned at an unrolling bound (reported as outcome 'truncated')."""


class KeyList(list):
    """dict.keys() result: a list for iteration, set-like for comparison."""

    def __eq__(self, o):
        if isinstance(o, (set, frozenset)):
            return set(self) == o
        return list.__eq__(self, o)

    def __ne__(self, o):
        return not self.__eq__(o)

    __hash__ = None  # type: ignore


class Env:
    def __init__(self, module: ModuleInfo, parent: Optional['Env'] = None, cls: Optional[ClassInfo] = None):
        self.vars: Dict[str, Any] = {}
        self.module = module
        self.parent = parent
        self.cls = cls
        self.nonlocals: set = set()

    def owner(self, name: str) -> 'Env':
        """Environment that holds `name` for assignment (nonlocal declarations)."""
        if name in self.nonlocals:
            e = self.parent
            while e is not None:
                if name in e.vars:
                    return e
                e = e.parent
        return self

    def lookup(self, name: str):
        e: Optional[Env] = self
        while e is not None:
            if name in e.vars:
                return True, e.vars[name]
            e = e.parent
        return False, None


@dataclass
class PathResult:
    outcome: str  # 'return' | 'raise'
    value: Any
    conds: List[Tuple[Any, bool]]
    events: List[Any]
    truncated: bool = False
    env: Optional[Dict[str, Any]] = None

    def cond_repr(self) -> str:
        return ' & '.join(('' if b else 'not ') + vrepr(t) for t, b in self.conds)


BUILTIN_EXC = {n for n in dir(_bi) if isinstance(getattr(_bi, n), type) and issubclass(getattr(_bi, n), BaseException)}


class Interp:
    external_exc_bases: Dict[str, List[str]] = {}  # exception class of a library -> every name under which a handler catches it
    def __init__(self, repo: Repo, hooks: Optional[Hooks] = None, max_depth: int = 4, max_paths: int = 20000,
                 while_bound: int = 2, max_steps: int = 200000):
        self.repo = repo
        self.hooks = hooks or Hooks()
        self.max_depth = max_depth
        self.max_paths = max_paths
        self.while_bound = while_bound
        self.max_steps = max_steps
        self.max_recursion = 1
        self.loop_unroll: Optional[int] = None
        self.wrap_errortrace = False
        # per path state
        self.prefix: List[int] = []
        self.trace: List[Tuple[int, int]] = []
        self.conds: List[Tuple[Any, bool]] = []
        self.memo: Dict[Any, bool] = {}
        self.events: List[Any] = []
        self.truncated = False
        self.depth = 0
        self.steps = 0
        self.call_stack: List[str] = []
        self.yield_sinks: List[List[Any]] = []
        self.module_consts: Dict[Any, Any] = {}

    # ---------------------------------------------------------------- path driver
    def run_paths(self, fn: Callable[['Interp'], Any]) -> List[PathResult]:
        results: List[PathResult] = []
        self.prefix = []
        while True:
            self.trace, self.conds, self.memo, self.events = [], [], {}, []
            self.truncated = False
            self.depth = 0
            self.steps = 0
            self.call_stack = []
            self.yield_sinks = []
            self.module_consts = {}
            if hasattr(self.hooks, 'reset'):
                self.hooks.reset(self)  # type: ignore[attr-defined]
            try:
                v = fn(self)
                results.append(PathResult('return', v, list(self.conds), list(self.events), self.truncated))
            except Raised as r:
                results.append(PathResult('raise', r.exc, list(self.conds), list(self.events), self.truncated))
            except _Return as r:  # pragma: no cover
                results.append(PathResult('return', r.value, list(self.conds), list(self.events), self.truncated))
            except PathTruncated:
                results.append(PathResult('truncated', None, list(self.conds), list(self.events), True))
            if len(results) > self.max_paths:
                raise PathLimit(f'more than {self.max_paths} paths')
            # next prefix
            i = len(self.trace) - 1
            while i >= 0 and self.trace[i][0] + 1 >= self.trace[i][1]:
                i -= 1
            if i < 0:
                break
            self.prefix = [p for p, _ in self.trace[:i]] + [self.trace[i][0] + 1]
        return results

    def run_function(self, fi: FuncInfo, args: List[Any], kwargs: Optional[Dict[str, Any]] = None,
                     self_val: Any = None) -> List[PathResult]:
        import copy as _copy

        def go(it: 'Interp'):
            a = _copy.deepcopy(list(args))  # containers are mutable: every path starts from fresh inputs
            k = _copy.deepcopy(dict(kwargs or {}))
            return it.call_function(FuncRef(fi, self_val, self_val is not None), a, k, None, force_inline=True)

        return self.run_paths(go)

    def run_method(self, fi: FuncInfo, make: Callable[[], Tuple[Any, List[Any], Dict[str, Any]]],
                   after: Optional[Callable[['Interp', Any], None]] = None) -> List[PathResult]:
        """Run a method on a fresh receiver per path; `after(it, self_obj)` may record final state as events."""

        def go(it: 'Interp'):
            self_obj, a, k = make()
            try:
                return it.call_function(FuncRef(fi, self_obj, True), a, k, None, force_inline=True)
            finally:
                if after is not None:
                    after(it, self_obj)

        return self.run_paths(go)

    def choose(self, n: int) -> int:
        k = len(self.trace)
        pick = self.prefix[k] if k < len(self.prefix) else 0
        self.trace.append((pick, n))
        return pick

    def event(self, *ev) -> None:
        self.events.append(ev if len(ev) != 1 else ev[0])

    # --------------------------------------------------------------------- truth
    def truth(self, v: Any) -> bool:
        if isinstance(v, (Sym, App)):
            if isinstance(v, App) and v.op == 'not':
                return not self.truth(v.args[0])
            if isinstance(v, App) and v.op == 'const_truth':
                return bool(v.args[0])
            if isinstance(v, App) and v.op == 'bool' and len(v.args) == 1:
                return self.truth(v.args[0])
            k = vkey(v)
            if k in self.memo:
                return self.memo[k]
            r = self.hooks.truth(self, v)
            if r is None:
                r = self.choose(2) == 0
            self.memo[k] = bool(r)
            self.conds.append((v, bool(r)))
            return bool(r)
        if isinstance(v, (Obj, ClassRef, FuncRef, ModRef, Builtin, BoundMethod, ExcVal)):
            if isinstance(v, Obj):
                r = self.hooks.obj_truth(self, v)
                if r is not NotImplemented:
                    # the domain says: True / False, or None = unknown (an opaque value of a class that may define __bool__/__len__,
                    # e.g. a Michelson value that can be the empty string, False, an empty collection): both ways are explored
                    k = ('obj-truth', vkey(v))
                    if k in self.memo:
                        return self.memo[k]
                    if r is None:
                        r = self.choose(2) == 0
                    self.memo[k] = bool(r)
                    self.conds.append((App('truthy', v), bool(r)))
                    return bool(r)
                m = self.repo.find_method(v.cls, '__bool__') or self.repo.find_method(v.cls, '__len__')
                if m is not None:
                    r = self.call_function(FuncRef(m, v, True), [], {}, None)
                    return self.truth(r)
            return True
        if isinstance(v, LazyGen):
            return True
        if isinstance(v, (list, tuple, dict, set, frozenset, str, bytes)):
            return len(v) > 0
        return bool(v)

    def assume(self, term: Any, value: bool) -> None:
        self.memo[vkey(term)] = value

    # ---------------------------------------------------------------- statements
    def exec_block(self, body: List[ast.stmt], env: Env) -> None:
        for st in body:
            self.exec_stmt(st, env)

    def exec_stmt(self, st: ast.stmt, env: Env) -> None:
        self.steps += 1
        if self.steps > self.max_steps:
            raise Unsupported('step limit exceeded')
        if isinstance(st, ast.Expr):
            if isinstance(st.value, ast.Constant):
                return
            if isinstance(st.value, ast.Yield):
                if not self.yield_sinks:
                    raise Unsupported(f'yield outside generator call {self.call_stack[-1:]}')
                self.yield_sinks[-1].append(self.eval(st.value.value, env) if st.value.value is not None else None)
                if len(self.yield_sinks[-1]) > GEN_CAP:
                    raise _GenCap()  # an endless (or very long) generator: evaluated up to the cap, see call_generator
                return
            if isinstance(st.value, ast.YieldFrom):
                if not self.yield_sinks:
                    raise Unsupported(f'yield outside generator call {self.call_stack[-1:]}')
                self.yield_sinks[-1].extend(self.iterate(self.eval(st.value.value, env), st))
                return
            self.eval(st.value, env)
        elif isinstance(st, ast.Assign):
            v = self.eval(st.value, env)
            for t in st.targets:
                self.assign(t, v, env)
        elif isinstance(st, ast.AnnAssign):
            if st.value is not None:
                self.assign(st.target, self.eval(st.value, env), env)
        elif isinstance(st, ast.AugAssign):
            cur = self.eval(_load(st.target), env)
            rhs = self.eval(st.value, env)
            self.assign(st.target, self.binop(st.op, cur, rhs, st), env)
        elif isinstance(st, ast.Return):
            raise _Return(self.eval(st.value, env) if st.value is not None else None)
        elif isinstance(st, ast.If):
            if self.truth(self.eval(st.test, env)):
                self.exec_block(st.body, env)
            else:
                self.exec_block(st.orelse, env)
        elif isinstance(st, ast.Pass):
            return
        elif isinstance(st, ast.Assert):
            if not self.truth(self.eval(st.test, env)):
                msg = self.eval(st.msg, env) if st.msg is not None else None
                raise Raised(ExcVal('AssertionError', (msg,) if msg is not None else (), origin=self._loc(st, env)))
        elif isinstance(st, ast.Raise):
            if st.exc is None:
                cur = getattr(env, 'current_exc', None)
                e: Optional[Env] = env
                while cur is None and e is not None:
                    cur = getattr(e, 'current_exc', None)
                    e = e.parent
                if cur is None:
                    raise Unsupported('bare raise outside handler')
                raise Raised(cur)
            v = self.eval(st.exc, env)
            raise Raised(self.to_exc(v, st, env))
        elif isinstance(st, ast.For):
            self.exec_for(st, env)
        elif isinstance(st, ast.While):
            self.exec_while(st, env)
        elif isinstance(st, ast.Break):
            raise _Break()
        elif isinstance(st, ast.Continue):
            raise _Continue()
        elif isinstance(st, ast.Try):
            self.exec_try(st, env)
        elif isinstance(st, ast.With):
            self.exec_with(st, env)
        elif isinstance(st, (ast.FunctionDef,)):
            env.vars[st.name] = FuncRef(None, closure=env, lam=st, module=env.module)
        elif isinstance(st, (ast.Import, ast.ImportFrom)):
            self.exec_import(st, env)
        elif isinstance(st, ast.Delete):
            for t in st.targets:
                if isinstance(t, ast.Name):
                    env.vars.pop(t.id, None)
                elif isinstance(t, ast.Subscript):
                    c = self.eval(t.value, env)
                    i = self.eval(t.slice, env)
                    if isinstance(c, (dict, list)):
                        try:
                            del c[i]
                        except Exception as ex:
                            raise Raised(ExcVal(type(ex).__name__))
                    else:
                        raise Unsupported('del on abstract container')
        elif isinstance(st, ast.Nonlocal):
            env.nonlocals.update(st.names)
        elif isinstance(st, ast.Global):
            raise Unsupported('global')
        else:
            raise Unsupported(f'statement {type(st).__name__} at {self._loc(st, env)}')

    def _loc(self, node: ast.AST, env: Env) -> str:
        return f'{env.module.relpath}:{getattr(node, "lineno", 0)}'

    def to_exc(self, v: Any, node: ast.AST, env: Env) -> ExcVal:
        if isinstance(v, ExcVal):
            if not v.origin:
                v.origin = self._loc(node, env)
            return v
        if isinstance(v, ClassRef):
            return ExcVal(v.qual, (), origin=self._loc(node, env))
        if isinstance(v, Builtin) and v.name in BUILTIN_EXC:
            return ExcVal(v.name, (), origin=self._loc(node, env))
        if isinstance(v, Obj):
            return ExcVal(v.cls, tuple(v.fields.get('args', ())) if isinstance(v.fields.get('args'), tuple) else (),
                          origin=self._loc(node, env))
        if isinstance(v, (Sym, App)):
            return ExcVal('?', (v,), origin=self._loc(node, env))
        raise Unsupported(f'raise of {vrepr(v)}')

    def exec_for(self, st: ast.For, env: Env) -> None:
        itv = self.eval(st.iter, env)
        broke = False
        for item in self.iterate(itv, st):
            self.assign(st.target, item, env)
            try:
                self.exec_block(st.body, env)
            except _Break:
                broke = True
                break
            except _Continue:
                continue
        if not broke:
            self.exec_block(st.orelse, env)

    def exec_while(self, st: ast.While, env: Env) -> None:
        sym_iters = 0
        total = 0
        while True:
            c = self.eval(st.test, env)
            concrete = not isinstance(c, (Sym, App))
            if not concrete:
                if sym_iters >= self.while_bound:
                    # force exit: drop memo so the exit branch can be taken, mark truncated
                    self.truncated = True
                    self.event('while-truncated', self._loc(st, env))
                    break
                # loop conditions are re-evaluated: forget the previous decision of an identical term
                self.memo.pop(vkey(c), None)
                inner = c
                while isinstance(inner, App) and inner.op in ('not', 'bool') and inner.args:
                    inner = inner.args[0]
                    self.memo.pop(vkey(inner), None)
            t = self.truth(c)
            if not t:
                self.exec_block(st.orelse, env)
                return
            if not concrete:
                sym_iters += 1
            total += 1
            # (a condition computed from concrete data - `while pending:` over a work list - ends the loop by itself and is not cut)
            if self.loop_unroll is not None and total > self.loop_unroll and (not concrete or isinstance(st.test, ast.Constant)):
                # a loop left only through `break` whose exit the abstraction cannot bound: cut this path after loop_unroll iterations
                self.truncated = True
                raise PathTruncated()
            if total > 4096:
                raise Unsupported('while loop does not terminate in the abstraction')
            try:
                self.exec_block(st.body, env)
            except _Break:
                return
            except _Continue:
                continue

    def exc_matches(self, exc: ExcVal, handler_type: Any) -> bool:
        if handler_type is None:
            return True
        types = handler_type if isinstance(handler_type, (tuple, list)) else [handler_type]
        for t in types:
            tname = t.name if isinstance(t, (Builtin, ModRef)) else (t.qual if isinstance(t, ClassRef) else None)
            if tname is None:
                raise Unsupported(f'handler type {vrepr(t)}')
            if exc.cls in self.external_exc_bases:
                # an exception class of a third-party library whose ancestry is a recorded fact: caught exactly by the classes it derives from
                if tname in self.external_exc_bases[exc.cls]:
                    return True
                continue
            if isinstance(t, ModRef):
                # external exception class: matches only the very same class name
                if exc.cls == tname or exc.cls == tname.rsplit('.', 1)[-1]:
                    return True
                continue
            if exc.cls == '?':
                # unknown exception class: assume it is an Exception subclass
                if tname in ('Exception', 'BaseException'):
                    return True
                continue
            if self.exc_is_subclass(exc.cls, tname):
                return True
        return False

    def exc_is_subclass(self, cls: str, base: str) -> bool:
        if cls == base:
            return True
        if cls in self.repo.classes:
            for m in self.repo.mro(cls):
                if m == base or m.rsplit('.', 1)[-1] == base and m not in self.repo.classes:
                    return True
                if m not in self.repo.classes and m.rsplit('.', 1)[-1] in BUILTIN_EXC:
                    if self.exc_is_subclass(m.rsplit('.', 1)[-1], base):
                        return True
            return False
        if cls in BUILTIN_EXC and base in BUILTIN_EXC:
            return issubclass(getattr(_bi, cls), getattr(_bi, base))
        return False

    def exec_try(self, st: ast.Try, env: Env) -> None:
        try:
            try:
                self.exec_block(st.body, env)
            except Raised as r:
                for h in st.handlers:
                    ht = self.eval(h.type, env) if h.type is not None else None
                    if self.exc_matches(r.exc, ht):
                        if h.name:
                            env.vars[h.name] = r.exc
                        prev = getattr(env, 'current_exc', None)
                        env.current_exc = r.exc  # type: ignore[attr-defined]
                        self.event('handler', self._loc(h, env), r.exc.cls)
                        try:
                            self.exec_block(h.body, env)
                        finally:
                            env.current_exc = prev  # type: ignore[attr-defined]
                        break
                else:
                    raise
            else:
                self.exec_block(st.orelse, env)
        finally:
            if st.finalbody:
                self.exec_block(st.finalbody, env)

    def exec_with(self, st: ast.With, env: Env) -> None:
        suppress: List[Any] = []
        for item in st.items:
            cm = self.eval(item.context_expr, env)
            if isinstance(cm, App) and cm.op in ('suppress', 'call:contextlib.suppress'):
                suppress.extend(cm.args)
                continue
            if item.optional_vars is not None:
                self.assign(item.optional_vars, App('enter', cm), env)
        try:
            self.exec_block(st.body, env)
        except Raised as r:
            if suppress and self.exc_matches(r.exc, suppress):
                return
            raise

    def exec_import(self, st, env: Env) -> None:
        if isinstance(st, ast.ImportFrom):
            base = st.module or ''
            if st.level:
                parts = env.module.name.split('.')
                if not env.module.path.endswith('__init__.py'):
                    parts = parts[:-1]
                parts = parts[: len(parts) - (st.level - 1)]
                base = '.'.join(parts + ([st.module] if st.module else []))
            for a in st.names:
                env.vars[a.asname or a.name] = self.resolve_qual(f'{base}.{a.name}')
        else:
            for a in st.names:
                env.vars[a.asname or a.name.split('.')[0]] = ModRef(a.name if a.asname else a.name.split('.')[0])

    # ---------------------------------------------------------------- assignment
    def assign(self, target: ast.AST, value: Any, env: Env) -> None:
        if isinstance(target, ast.Name):
            env.owner(target.id).vars[target.id] = value
        elif isinstance(target, (ast.Tuple, ast.List)):
            vals = self.unpack(value, len(target.elts), target)
            star = [i for i, t in enumerate(target.elts) if isinstance(t, ast.Starred)]
            if star:
                raise Unsupported('starred assignment')
            for t, v in zip(target.elts, vals):
                self.assign(t, v, env)
        elif isinstance(target, ast.Attribute):
            obj = self.eval(target.value, env)
            r = self.hooks.setattr(self, obj, target.attr, value, target)
            if r is not NotImplemented:
                return
            if isinstance(obj, Obj):
                obj.fields[target.attr] = value
            elif isinstance(obj, (Sym, App)):
                self.event('setattr', obj, target.attr, value)
            elif isinstance(obj, ClassRef):
                self.event('setattr', obj, target.attr, value)
            else:
                raise Unsupported(f'attribute assignment on {vrepr(obj)}')
        elif isinstance(target, ast.Subscript):
            obj = self.eval(target.value, env)
            idx = self.eval_slice(target.slice, env)
            if isinstance(obj, (dict, list)) and not isinstance(idx, (Sym, App)):
                try:
                    obj[idx] = value
                except Exception as ex:
                    raise Raised(ExcVal(type(ex).__name__))
            elif isinstance(obj, dict):
                obj[idx] = value
            else:
                self.event('setitem', obj, idx, value)
        elif isinstance(target, ast.Starred):
            raise Unsupported('starred target')
        else:
            raise Unsupported(f'assignment target {type(target).__name__}')

    def unpack(self, value: Any, n: int, node: ast.AST) -> List[Any]:
        if isinstance(value, (list, tuple)):
            if len(value) != n:
                raise Raised(ExcVal('ValueError', ('unpack',)))
            return list(value)
        if isinstance(value, LazyGen):
            vals = list(value.gen)
            if len(vals) != n:
                raise Raised(ExcVal('ValueError', ('unpack',)))
            return vals
        if isinstance(value, (Sym, App)):
            return [App('item', value, i) for i in range(n)]
        if isinstance(value, (str, bytes)) and len(value) == n:
            return list(value)
        if isinstance(value, Obj):
            its = self.iterate(value, node)
            vals = list(its)
            if len(vals) != n:
                raise Raised(ExcVal('ValueError', ('unpack',)))
            return vals
        raise Unsupported(f'unpack of {vrepr(value)}')

    # --------------------------------------------------------------- expressions
    def eval(self, node: Optional[ast.AST], env: Env) -> Any:
        if node is None:
            return None
        m = getattr(self, 'e_' + type(node).__name__, None)
        if m is None:
            raise Unsupported(f'expression {type(node).__name__} at {self._loc(node, env)}')
        return m(node, env)

    def e_Constant(self, node, env):
        return node.value

    def e_Name(self, node, env):
        found, v = env.lookup(node.id)
        if found:
            return v
        r = self.hooks.name(self, node.id, node)
        if r is not NotImplemented:
            return r
        return self.global_name(node.id, env.module, node)

    def global_name(self, name: str, mi: ModuleInfo, node=None) -> Any:
        if name in mi.classes:
            return ClassRef(mi.classes[name].qualname)
        if name in mi.functions:
            return FuncRef(mi.functions[name], module=mi)
        if name in mi.assigns:
            try:
                return self.repo.fold(mi.assigns[name], mi)
            except NotConstant:
                ck = (mi.name, name)
                if ck not in self.module_consts:  # module-level objects are singletons (identity tests such as `x is Undefined`)
                    self.module_consts[ck] = self.eval(mi.assigns[name], Env(mi))
                return self.module_consts[ck]
        if name in mi.imports:
            return self.resolve_qual(self.repo.resolve_name(mi, name))
        if hasattr(_bi, name):
            return Builtin(name)
        # unbound at this point of the path: Python raises NameError / UnboundLocalError
        raise Raised(ExcVal('UnboundLocalError', (name,), origin=mi.name))

    def resolve_qual(self, q: str) -> Any:
        kind, obj = self.repo.lookup(q)
        if kind == 'class':
            return ClassRef(q)
        if kind == 'func':
            return FuncRef(obj, module=obj.module)
        if kind == 'module':
            return ModRef(q)
        if kind == 'const':
            mi, expr = obj
            try:
                return self.repo.fold(expr, mi)
            except NotConstant:
                return self.global_name(q.rsplit('.', 1)[-1], mi)
        # maybe module attribute chain, e.g. pytezos.x.y.Z re-exported
        mod, _, attr = q.rpartition('.')
        if mod in self.repo.modules:
            return self.global_name(attr, self.repo.modules[mod])
        if q in STDLIB_CONSTS:
            return STDLIB_CONSTS[q]
        return ModRef(q)  # external module or external symbol

    def e_Tuple(self, node, env):
        return tuple(self._elts(node.elts, env))

    def e_List(self, node, env):
        return list(self._elts(node.elts, env))

    def e_Set(self, node, env):
        return set(self._hashable(x) for x in self._elts(node.elts, env))

    def _hashable(self, v):
        return v

    def _elts(self, elts, env) -> List[Any]:
        out: List[Any] = []
        for e in elts:
            if isinstance(e, ast.Starred):
                v = self.eval(e.value, env)
                out.extend(self.iterate(v, e))
            else:
                out.append(self.eval(e, env))
        return out

    def e_Dict(self, node, env):
        d: Dict[Any, Any] = {}
        for k, v in zip(node.keys, node.values):
            if k is None:
                sub = self.eval(v, env)
                if isinstance(sub, dict):
                    d.update(sub)
                else:
                    d[App('**', sub)] = sub
            else:
                d[self.eval(k, env)] = self.eval(v, env)
        return d

    def e_JoinedStr(self, node, env):
        parts = []
        for v in node.values:
            if isinstance(v, ast.Constant):
                parts.append(v.value)
            else:
                x = self.eval(v.value, env)
                if v.format_spec is None and v.conversion == -1 and isinstance(x, (str, int)) and not isinstance(x, bool):
                    parts.append(str(x))
                elif v.format_spec is None and v.conversion == -1 and getattr(x, 'typ', None) == 'str':
                    parts.append(x)  # format() of a str is the str itself
                else:
                    parts.append(App('fmt', x, v.conversion))
        if all(isinstance(p, str) for p in parts):
            return ''.join(parts)
        return cat(*parts) if parts else ''

    def e_Lambda(self, node, env):
        return FuncRef(None, closure=env, lam=node, module=env.module)

    def e_IfExp(self, node, env):
        return self.eval(node.body, env) if self.truth(self.eval(node.test, env)) else self.eval(node.orelse, env)

    def e_BoolOp(self, node, env):
        last = len(node.values) - 1
        v: Any = None
        for i, e in enumerate(node.values):
            v = self.eval(e, env)
            if i == last:
                return v  # the value of the last operand is the result whatever its truth
            t = self.truth(v)
            if isinstance(node.op, ast.And) and not t:
                return v
            if isinstance(node.op, ast.Or) and t:
                return v
        return v

    def e_UnaryOp(self, node, env):
        v = self.eval(node.operand, env)
        if isinstance(node.op, ast.Not):
            if isinstance(v, (Sym, App)):
                if isinstance(v, App) and v.op == 'not':
                    return v.args[0] if isinstance(v.args[0], App) and v.args[0].op in self.BOOL_OPS else App('bool', v.args[0])
                return App('not', v)  # decided where it is used (if / while / and / or)
            return not self.truth(v)
        if is_prim(v):
            try:
                if isinstance(node.op, ast.USub):
                    return -v
                if isinstance(node.op, ast.UAdd):
                    return +v
                if isinstance(node.op, ast.Invert):
                    return ~v
            except Exception as ex:
                raise Raised(ExcVal(type(ex).__name__))
        return App('u' + type(node.op).__name__, v)

    def e_BinOp(self, node, env):
        return self.binop(node.op, self.eval(node.left, env), self.eval(node.right, env), node)

    OPERATOR_BINOPS = {'add': ast.Add, 'sub': ast.Sub, 'mul': ast.Mult, 'floordiv': ast.FloorDiv, 'truediv': ast.Div, 'mod': ast.Mod, 'pow': ast.Pow,
                       'lshift': ast.LShift, 'rshift': ast.RShift, 'or': ast.BitOr, 'and': ast.BitAnd, 'xor': ast.BitXor,
                       'concat': ast.Add}
    OPERATOR_CMPS = {'eq': '==', 'ne': '!=', 'lt': '<', 'le': '<=', 'gt': '>', 'ge': '>=', 'is': 'is', 'is_not': 'is not', 'contains': 'in'}

    def binop(self, op: ast.AST, a: Any, b: Any, node: ast.AST) -> Any:
        name = type(op).__name__
        r = self.hooks.binop(self, name, a, b, node)
        if r is not NotImplemented:
            return r
        conc = lambda x: is_prim(x) or (isinstance(x, (list, tuple)))  # noqa: E731
        if conc(a) and conc(b):
            try:
                if name == 'Add':
                    return a + b
                if name == 'Sub':
                    return a - b
                if name == 'Mult':
                    return a * b
                if name == 'FloorDiv':
                    return a // b
                if name == 'Div':
                    return a / b
                if name == 'Mod':
                    if isinstance(a, (str, bytes)):
                        return App('fmt%', a, b) if not is_concrete(b) else a % b
                    return a % b
                if name == 'Pow':
                    return a**b
                if name == 'LShift':
                    return a << b
                if name == 'RShift':
                    return a >> b
                if name == 'BitOr':
                    return a | b
                if name == 'BitAnd':
                    return a & b
                if name == 'BitXor':
                    return a ^ b
            except Exception as ex:
                raise Raised(ExcVal(type(ex).__name__, (str(ex),)))
        if name == 'BitOr' and isinstance(a, (set, frozenset)) and isinstance(b, (set, frozenset)):
            return a | b
        if name == 'Add':
            if isinstance(a, (bytes, str, App, Sym)) and isinstance(b, (bytes, str, App, Sym)):
                if isinstance(a, (bytes, str)) or isinstance(b, (bytes, str)) or \
                        (isinstance(a, App) and a.op == 'cat') or (isinstance(b, App) and b.op == 'cat') or \
                        getattr(a, 'typ', None) in ('bytes', 'str') or getattr(b, 'typ', None) in ('bytes', 'str') or \
                        (isinstance(a, App) and a.op.startswith('call:')) or (isinstance(b, App) and b.op.startswith('call:')) or \
                        (isinstance(a, App) and a.op in self.BYTES_OPS) or (isinstance(b, App) and b.op in self.BYTES_OPS):
                    return cat(a, b)
        if name == 'Mod' and isinstance(a, (str, bytes)):
            return App('fmt%', a, b)
        return App('op:' + name, a, b)

    BYTES_OPS = {'mcall:to_bytes', 'mcall:encode', 'mcall:digest', 'ext', 'raw', 'mcall:hex', 'mcall:decode', 'fmt'}
    NEVER_NONE_OPS = {'str', 'int', 'len', 'cat', 'min', 'max', 'abs', 'bytes', 'sorted', 'fmt', 'slice'}
    BOOL_OPS = {'==', '<', '<=', '>', '>=', 'in', 'is', 'not', 'isinstance', 'eq'}
    CMP = {'Eq': '==', 'NotEq': '!=', 'Lt': '<', 'LtE': '<=', 'Gt': '>', 'GtE': '>=', 'In': 'in', 'NotIn': 'not in',
           'Is': 'is', 'IsNot': 'is not'}

    def e_Compare(self, node, env):
        left = self.eval(node.left, env)
        result: Any = True
        for op, comp in zip(node.ops, node.comparators):
            right = self.eval(comp, env)
            result = self.compare(self.CMP[type(op).__name__], left, right, node)
            if len(node.ops) > 1:
                if not self.truth(result):
                    return False
            left = right
        return result

    def compare(self, op: str, a: Any, b: Any, node: ast.AST) -> Any:
        r = self.hooks.compare(self, op, a, b, node)
        if r is not NotImplemented:
            return r
        if op in ('is', 'is not'):
            if a is None or b is None or isinstance(a, bool) or isinstance(b, bool):
                other = b if (a is None or isinstance(a, bool)) and not (b is None or isinstance(b, bool)) else a
                const = a if other is b else b
                if isinstance(other, App) and (other.op.startswith('op:') or other.op in self.NEVER_NONE_OPS):
                    return op != 'is'  # an arithmetic / string result is never None, True or False itself
                if isinstance(other, (Sym, App)):
                    t = App('is', other, const)
                    return t if op == 'is' else App('not', t)
                res = other is const
                return res if op == 'is' else not res
            if isinstance(a, (Sym, App)) or isinstance(b, (Sym, App)):
                t = App('is', a, b)
                return t if op == 'is' else App('not', t)
            res = (a is b) or (vkey(a) == vkey(b) and isinstance(a, (ClassRef, Builtin)))
            return res if op == 'is' else not res
        if op in ('in', 'not in'):
            res = self.contains(b, a, node)
            if op == 'in':
                return res
            return App('not', res) if isinstance(res, (Sym, App)) else (not res)
        if is_prim(a) and is_prim(b) or (is_concrete(a) and is_concrete(b)):
            try:
                return {'==': lambda: a == b, '!=': lambda: a != b, '<': lambda: a < b, '<=': lambda: a <= b,
                        '>': lambda: a > b, '>=': lambda: a >= b}[op]()
            except Exception as ex:
                raise Raised(ExcVal(type(ex).__name__))
        # dunder methods of repo objects
        if isinstance(a, Obj) or isinstance(b, Obj):
            r = self.obj_compare(op, a, b, node)
            if r is not NotImplemented:
                return r
        if op in ('==', '!='):
            if vkey(a) == vkey(b):
                return op == '=='
            # structurally different containers of different length are unequal
            if isinstance(a, (list, tuple)) and isinstance(b, (list, tuple)) and len(a) != len(b):
                return op == '!='
            if isinstance(a, (list, tuple)) and isinstance(b, (list, tuple)) and type(a) is type(b):
                # element-wise, left to right (Python semantics): unequal as soon as one pair is unequal
                for x, y in zip(a, b):
                    if not self.truth(self.compare('==', x, y, node)):
                        return op == '!='
                return op == '=='
            if isinstance(a, (ClassRef, Builtin, FuncRef)) and isinstance(b, (ClassRef, Builtin, FuncRef)):
                return op == '!='
            # a constant of one primitive type never equals a constant of another
            t = App('==', *sorted([a, b], key=lambda x: repr(vkey(x))))
            return t if op == '==' else App('not', t)
        return App(op, a, b)

    def obj_compare(self, op: str, a: Any, b: Any, node: ast.AST) -> Any:
        dun = {'==': '__eq__', '!=': '__ne__', '<': '__lt__', '<=': '__le__', '>': '__gt__', '>=': '__ge__'}[op]
        refl = {'<': '__gt__', '>': '__lt__', '<=': '__ge__', '>=': '__le__', '==': '__eq__', '!=': '__ne__'}[op]
        if isinstance(a, Obj):
            m = self.repo.find_method(a.cls, dun)
            if m is not None:
                return self.call_function(FuncRef(m, a, True), [b], {}, node)
        if isinstance(b, Obj):
            m = self.repo.find_method(b.cls, refl)
            if m is not None:
                return self.call_function(FuncRef(m, b, True), [a], {}, node)
        if op == '!=':
            r = self.obj_compare('==', a, b, node)
            if r is NotImplemented:
                return NotImplemented
            return App('not', r) if isinstance(r, (Sym, App)) else (not self.truth(r))
        if op == '==':
            return a is b
        raise Raised(ExcVal('TypeError', (f'{op} not supported',)))

    def contains(self, container: Any, item: Any, node: ast.AST) -> Any:
        if isinstance(container, (list, tuple, set, frozenset, dict)):
            elems = list(container.keys()) if isinstance(container, dict) else list(container)
            if is_concrete(item) and all(is_concrete(e) for e in elems):
                try:
                    return item in container
                except TypeError:
                    return item in elems
            ik = vkey(item)
            unknown = []
            for e in elems:
                if vkey(e) == ik:
                    return True
                if not (is_concrete(e) and is_concrete(item)):
                    unknown.append(e)
            if not unknown:
                return False
            if is_concrete(container):
                return App('in', item, tuple(sorted(elems, key=repr)) if isinstance(container, (set, frozenset)) else tuple(elems))
            res: Any = False
            for e in unknown:
                c = self.compare('==', item, e, node)
                if self.truth(c):
                    return True
            return res
        if isinstance(container, (str, bytes)) and isinstance(item, type(container)):
            return item in container
        if isinstance(container, (str, bytes)) and isinstance(item, int) and isinstance(container, bytes):
            return item in container
        if isinstance(container, Obj):
            m = self.repo.find_method(container.cls, '__contains__')
            if m is not None:
                return self.call_function(FuncRef(m, container, True), [item], {}, node)
        return App('in', item, container)

    def e_Attribute(self, node, env):
        obj = self.eval(node.value, env)
        return self.getattr(obj, node.attr, node)

    def getattr(self, obj: Any, name: str, node: Optional[ast.AST]) -> Any:
        r = self.hooks.attr(self, obj, name, node)
        if r is not NotImplemented:
            return r
        if isinstance(obj, SuperRef):
            mro = self.repo.mro(obj.recv.cls if isinstance(obj.recv, Obj) else (obj.recv.qual if isinstance(obj.recv, ClassRef) else obj.cls))
            after = mro[mro.index(obj.cls) + 1:] if obj.cls in mro else mro[1:]
            for c in after:
                ci = self.repo.classes.get(c)
                if ci and name in ci.methods:
                    m = ci.methods[name]
                    if 'staticmethod' in m.decorators:
                        return FuncRef(m, module=m.module)
                    return FuncRef(m, obj.recv, True, module=m.module)
            if name in ('__init__', '__init_subclass__'):
                return Builtin('object.' + name)
            raise Unsupported(f'super().{name} not found on the repo MRO of {obj.cls}')
        if isinstance(obj, Obj):
            if name in obj.fields:
                return obj.fields[name]
            if name == '__class__':
                return ClassRef(obj.cls)
            return self.class_getattr(obj.cls, name, obj, node)
        if isinstance(obj, ClassRef):
            if name == '__name__':
                return obj.qual.rsplit('.', 1)[-1]
            return self.class_getattr(obj.qual, name, None, node)
        if isinstance(obj, ModRef):
            q = f'{obj.name}.{name}'
            if obj.name in self.repo.modules:
                return self.global_name(name, self.repo.modules[obj.name], node)
            if q in STDLIB_CONSTS:
                return STDLIB_CONSTS[q]  # a documented constant of the standard library (string.digits ...)
            return ModRef(q)
        if isinstance(obj, NTVal):
            if name in obj.ntc.fields:
                return obj[obj.ntc.fields.index(name)]
            raise Raised(ExcVal('AttributeError', (name,)))
        if isinstance(obj, NTRow):
            if name in obj._fields:
                return obj.field(name)
            raise Raised(ExcVal('AttributeError', (name,)))
        if isinstance(obj, ExcVal):
            if name == 'args':
                return obj.args
            return App('attr', obj, name)
        if isinstance(obj, (Sym, App)):
            return App('attr', obj, name)
        if isinstance(obj, Builtin):
            return Builtin(f'{obj.name}.{name}')
        if isinstance(obj, FuncRef):
            if name == '__name__':
                return obj.fi.name if obj.fi else '<lambda>'
            return App('attr', obj, name)
        # concrete python value: method or attribute
        if hasattr(obj, name):
            return BoundMethod(obj, name)
        raise Raised(ExcVal('AttributeError', (name,)))

    def class_getattr(self, cls: str, name: str, inst: Optional[Obj], node) -> Any:
        for c in self.repo.mro(cls):
            ci = self.repo.classes.get(c)
            if ci is None:
                continue
            if name in ci.methods:
                fi = ci.methods[name]
                decs = fi.decorators
                if 'property' in decs or 'cached_property' in decs or 'functools.cached_property' in decs:
                    if inst is None:
                        return App('property', ClassRef(cls), name)
                    return self.call_function(FuncRef(fi, inst, True), [], {}, node)
                if 'staticmethod' in decs:
                    return FuncRef(fi, module=fi.module)
                if 'classmethod' in decs:
                    return FuncRef(fi, ClassRef(inst.cls if inst is not None else cls), True, module=fi.module)
                if inst is not None:
                    return FuncRef(fi, inst, True, module=fi.module)
                return FuncRef(fi, module=fi.module)
            if name in ci.attrs:
                try:
                    return self.repo.fold(ci.attrs[name], ci.module)
                except NotConstant:
                    return self.eval(ci.attrs[name], Env(ci.module, cls=ci))
            # class keyword-defined attributes (prim=..., args_len=...) are set by __init_subclass__
            if name in ci.keywords:
                return ci.keywords[name]
        if inst is not None:
            return App('attr', inst, name)
        return App('attr', ClassRef(cls), name)

    def e_Subscript(self, node, env):
        obj = self.eval(node.value, env)
        idx = self.eval_slice(node.slice, env)
        return self.subscript(obj, idx, node)

    def eval_slice(self, s: ast.AST, env: Env) -> Any:
        if isinstance(s, ast.Slice):
            return slice(self.eval(s.lower, env), self.eval(s.upper, env), self.eval(s.step, env))
        return self.eval(s, env)

    def subscript(self, obj: Any, idx: Any, node: ast.AST) -> Any:
        r = self.hooks.subscript(self, obj, idx, node)
        if r is not NotImplemented:
            return r
        if isinstance(idx, slice):
            parts = (idx.start, idx.stop, idx.step)
            if isinstance(obj, (list, tuple, str, bytes)) and all(p is None or isinstance(p, int) for p in parts):
                return obj[idx]
            return App('slice', obj, *parts)
        if isinstance(obj, dict):
            if idx in obj if _hashable(idx) else False:
                return obj[idx]
            if isinstance(idx, (Sym, App)):
                if not obj:
                    raise Raised(ExcVal('KeyError', (idx,)))
                return App('getitem', obj if is_concrete(obj) else App('dict', *obj.keys()), idx)
            raise Raised(ExcVal('KeyError', (idx,)))
        if isinstance(obj, (list, tuple, str, bytes, range)):
            if isinstance(idx, int) or (isinstance(obj, range) and isinstance(idx, slice)):
                try:
                    return obj[idx]
                except IndexError:
                    raise Raised(ExcVal('IndexError'))
            return App('getitem', obj, idx)
        if isinstance(obj, Obj):
            m = self.repo.find_method(obj.cls, '__getitem__')
            if m is not None:
                return self.call_function(FuncRef(m, obj, True), [idx], {}, node)
        if isinstance(obj, (ClassRef, Builtin, ModRef)):
            return obj  # typing subscript, e.g. Type[X]
        return App('getitem', obj, idx)

    def e_Starred(self, node, env):
        raise Unsupported('starred expression')

    def e_NamedExpr(self, node, env):
        v = self.eval(node.value, env)
        self.assign(node.target, v, env)
        return v

    # comprehensions ---------------------------------------------------------
    def _comp_iter(self, generators, env: Env, body: Callable[[Env], Any]):
        def rec(i: int, e: Env):
            if i == len(generators):
                yield body(e)
                return
            g = generators[i]
            itv = self.eval(g.iter, e)
            for item in self.iterate(itv, g.iter):
                e2 = Env(e.module, e, e.cls)
                self.assign(g.target, item, e2)
                ok = True
                for c in g.ifs:
                    if not self.truth(self.eval(c, e2)):
                        ok = False
                        break
                if ok:
                    yield from rec(i + 1, e2)

        return rec(0, env)

    def e_ListComp(self, node, env):
        return list(self._comp_iter(node.generators, env, lambda e: self.eval(node.elt, e)))

    def e_SetComp(self, node, env):
        return set(self._comp_iter(node.generators, env, lambda e: self.eval(node.elt, e)))

    def e_GeneratorExp(self, node, env):
        return LazyGen(self._comp_iter(node.generators, env, lambda e: self.eval(node.elt, e)), norm(node))

    def e_DictComp(self, node, env):
        return dict(self._comp_iter(node.generators, env, lambda e: (self.eval(node.key, e), self.eval(node.value, e))))

    # iteration --------------------------------------------------------------
    def iterate(self, v: Any, node: ast.AST):
        r = self.hooks.iterate(self, v, node)
        if r is not NotImplemented:
            return r
        if isinstance(v, LazyGen):
            return v.gen
        if isinstance(v, (list, tuple, set, frozenset)):
            return list(v) if not isinstance(v, (set, frozenset)) else sorted(v, key=repr)
        if isinstance(v, dict):
            return list(v.keys())
        if isinstance(v, (str, bytes)):
            return list(v)
        if isinstance(v, range):
            if len(v) > 4096:
                raise Unsupported('range too long')
            return list(v)
        if isinstance(v, Obj):
            m = self.repo.find_method(v.cls, '__iter__')
            if m is not None:
                r = self.call_function(FuncRef(m, v, True), [], {}, node)
                return self.iterate(r, node)
        if isinstance(v, App) and v.op == 'iter_known':
            return list(v.args)
        raise Unsupported(f'iteration over {vrepr(v)} (unknown length)')

    # calls ------------------------------------------------------------------
    def e_Call(self, node, env):
        callee = self.eval(node.func, env)
        args: List[Any] = []
        for a in node.args:
            if isinstance(a, ast.Starred):
                args.extend(self.iterate(self.eval(a.value, env), a))
            else:
                args.append(self.eval(a, env))
        kwargs: Dict[str, Any] = {}
        for kw in node.keywords:
            if kw.arg is None:
                d = self.eval(kw.value, env)
                if isinstance(d, dict) and all(isinstance(k, str) for k in d):
                    kwargs.update(d)
                else:
                    kwargs['**'] = d
            else:
                kwargs[kw.arg] = self.eval(kw.value, env)
        return self.call(callee, args, kwargs, node, env)

    def call(self, callee: Any, args: List[Any], kwargs: Dict[str, Any], node: Optional[ast.AST], env: Optional[Env] = None):
        # functools.partial is plumbing, not a call of the library: the hooks see the call it stands for
        if isinstance(callee, PartialVal):
            return self.call(callee.func, callee.args + list(args), dict(callee.kwargs, **kwargs), node, env)
        if isinstance(callee, ModRef) and callee.name == 'functools.partial' and args:
            return PartialVal(args[0], args[1:], kwargs)
        if isinstance(callee, ModRef) and callee.name.startswith('operator.') and not kwargs:
            # the operator module spells the operators as functions: operator.or_(a, b) IS a | b
            fn = callee.name.split('.', 1)[1].strip('_')
            if fn in self.OPERATOR_BINOPS and len(args) == 2:
                return self.binop(self.OPERATOR_BINOPS[fn](), args[0], args[1], node)
            if fn in self.OPERATOR_CMPS and len(args) == 2:
                a0, a1 = (args[1], args[0]) if fn == 'contains' else (args[0], args[1])  # contains(a, b) is `b in a`
                return self.compare(self.OPERATOR_CMPS[fn], a0, a1, node)
            if fn == 'not' and len(args) == 1:
                return not self.truth(args[0])
            if fn == 'neg' and len(args) == 1:
                return self.binop(ast.Sub(), 0, args[0], node)
            if fn == 'getitem' and len(args) == 2:
                return self.subscript(args[0], args[1], node) if hasattr(self, 'subscript') else NotImplemented
        # a module-level function that did not exist when the checks were written (a helper a refactoring extracted) cannot have been meant
        # by any model of a hook: it is interpreted, whatever the domain of the check
        fresh_helper = isinstance(callee, FuncRef) and callee.fi is not None and callee.fi.cls is None and self.repo.is_fresh(callee.fi.qualname)
        r = NotImplemented if fresh_helper else self.hooks.call(self, callee, args, kwargs, node)
        if r is not NotImplemented:
            return r
        if isinstance(callee, FuncRef):
            return self.call_function(callee, args, kwargs, node)
        if isinstance(callee, ClassRef):
            return self.construct(callee, args, kwargs, node)
        if isinstance(callee, Builtin):
            return self.call_builtin(callee.name, args, kwargs, node, env)
        if isinstance(callee, BoundMethod):
            return self.call_method(callee.recv, callee.name, args, kwargs, node)
        if isinstance(callee, ModRef):
            if callee.name == 'typing.cast' and len(args) == 2:
                return args[1]
            if callee.name == 'collections.namedtuple' and len(args) == 2 and isinstance(args[0], str) and is_concrete(args[1]):
                fields = args[1].replace(',', ' ').split() if isinstance(args[1], str) else list(args[1])
                return NTClass(args[0], tuple(fields))
            if callee.name == 'itertools.chain' and not kwargs and all(isinstance(a, (list, tuple, LazyGen, dict, set, frozenset)) for a in args):
                return [x for a in args for x in self.iterate(a, node)]  # concatenation of sequences of known length
            if callee.name == 'itertools.chain.from_iterable' and len(args) == 1 and not kwargs and isinstance(args[0], (list, tuple, LazyGen)):
                outer = list(self.iterate(args[0], node))
                if all(isinstance(a, (list, tuple, LazyGen, dict, set, frozenset)) for a in outer):
                    return [x for a in outer for x in self.iterate(a, node)]
            if callee.name in PURE_STDLIB and all(is_concrete(a) for a in args) and not kwargs:
                try:
                    return PURE_STDLIB[callee.name](*args)
                except Exception as ex:
                    raise Raised(ExcVal(type(ex).__name__, (str(ex),)))
            return App('call:' + callee.name, *args, *[App('kw', k, v) for k, v in kwargs.items()])
        if isinstance(callee, App) and callee.op == 'attr':
            return App('mcall:' + callee.args[1], callee.args[0], *args, *[App('kw', k, v) for k, v in kwargs.items()])
        if isinstance(callee, (Sym, App)):
            return App('apply', callee, *args, *[App('kw', k, v) for k, v in kwargs.items()])
        if isinstance(callee, NTClass):
            vals = list(args) + [kwargs[f] for f in callee.fields[len(args):]]
            if len(vals) != len(callee.fields):
                raise Raised(ExcVal('TypeError', ('namedtuple arity',)))
            return NTVal(callee, tuple(vals))
        if isinstance(callee, Obj):
            m = self.repo.find_method(callee.cls, '__call__')
            if m is not None:
                return self.call_function(FuncRef(m, callee, True), args, kwargs, node)
        raise Unsupported(f'call of {vrepr(callee)}')

    def opaque_call(self, name: str, args: List[Any], kwargs: Dict[str, Any]) -> App:
        return App('call:' + name, *args, *[App('kw', k, v) for k, v in sorted(kwargs.items())])

    def call_function(self, fr: FuncRef, args: List[Any], kwargs: Dict[str, Any], node: Optional[ast.AST],
                      force_inline: bool = False) -> Any:
        if fr.fi is not None:
            fnode: Any = fr.fi.node
            mod = fr.fi.module
            qual = fr.fi.qualname
            # A function that did not exist when the checks were written (not in reference/known_functions.json) is a helper
            # extracted by a later refactoring: nobody decided to treat it as opaque, so it is transparent (always inlined, and it
            # does not count towards the inlining depth).  Opaqueness is a decision about a *known* function only.
            fresh = self.is_fresh(qual)
            if fresh and self.call_stack.count(qual) >= max(self.max_recursion, 1) + 1:
                fresh = False
            if not force_inline and not fresh and (self.depth >= self.max_depth or not self.hooks.inline(self, fr.fi)
                                                   or self.call_stack.count(qual) >= self.max_recursion):
                a = ([fr.self_val] if fr.bound else []) + list(args)
                return self.opaque_call(qual, a, kwargs)
            if fresh:
                self.depth -= 1  # compensated below: a fresh helper is transparent for the depth bound
                try:
                    if _has_yield(fnode):
                        return self.call_generator(fr, args, kwargs, node)
                    return self._run_body(fr, fnode, mod, qual, args, kwargs)
                finally:
                    self.depth += 1
            if _has_yield(fnode):
                return self.call_generator(fr, args, kwargs, node)
        else:
            fnode = fr.lam
            mod = fr.module
            qual = '<local>.' + getattr(fnode, 'name', '<lambda>')
            if isinstance(fnode, ast.FunctionDef) and (self.call_stack.count(qual) >= self.max_recursion or self.depth >= self.max_depth + 4 + self.max_recursion):
                return self.opaque_call(qual, list(args), kwargs)
        return self._run_body(fr, fnode, mod, qual, args, kwargs)

    _known_functions: Optional[set] = None

    def is_fresh(self, qual: str) -> bool:
        cls = type(self)
        if cls._known_functions is None:
            import json as _j
            import os as _os
            path = _os.path.join(_os.path.dirname(_os.path.abspath(__file__)), 'reference', 'known_functions.json')
            try:
                with open(path) as f:
                    cls._known_functions = set(_j.load(f)['functions'])
            except OSError:
                cls._known_functions = set()
        return bool(cls._known_functions) and qual not in cls._known_functions

    def _run_body(self, fr: FuncRef, fnode: Any, mod: Any, qual: str, args: List[Any], kwargs: Dict[str, Any]) -> Any:
        env = Env(mod, fr.closure, fr.fi.cls if fr.fi else None)
        a = ([fr.self_val] if fr.bound else []) + list(args)
        self.bind_params(fnode.args, a, kwargs, env, fr)
        self.depth += 1
        self.call_stack.append(qual)
        try:
            if isinstance(fnode, ast.Lambda):
                return self.eval(fnode.body, env)
            try:
                self.exec_block(fnode.body, env)
            except _Return as r:
                return r.value
            except Raised as r:
                if self.wrap_errortrace and fr.fi is not None and fr.fi.cls is not None and not fr.fi.name.startswith('_') \
                        and self.repo.metaclass_of(fr.fi.cls.qualname) == 'pytezos.michelson.micheline.ErrorTrace' \
                        and not self.exc_is_subclass(r.exc.cls, 'pytezos.michelson.micheline.MichelsonRuntimeError'):
                    # ErrorTrace wraps every public method: any Exception leaves as MichelsonRuntimeError
                    raise Raised(ExcVal('pytezos.michelson.micheline.MichelsonRuntimeError', (r.exc.cls,) + tuple(r.exc.args), origin=r.exc.origin))
                raise
            return None
        finally:
            self.depth -= 1
            self.call_stack.pop()

    def call_generator(self, fr: FuncRef, args, kwargs, node):
        """Generator functions are run eagerly to a list of yielded values (side effects in program order are
        those of a full consumption)."""
        fnode = fr.fi.node
        env = Env(fr.fi.module, fr.closure, fr.fi.cls)
        a = ([fr.self_val] if fr.bound else []) + list(args)
        self.bind_params(fnode.args, a, kwargs, env, fr)
        out: List[Any] = []
        self.depth += 1
        self.call_stack.append(fr.fi.qualname)
        self.yield_sinks.append(out)
        capped = False
        try:
            try:
                self.exec_block(fnode.body, env)
            except _Return:
                pass
            except _GenCap:
                capped = True
        finally:
            self.yield_sinks.pop()
            self.depth -= 1
            self.call_stack.pop()
        if capped:
            # an endless schedule (`while True: yield ...`): the first GEN_CAP values are known; a consumer that stops earlier (zip with a
            # bounded range, islice, a loop with break) is exact, one that asks for more is outside what this evaluation can say
            def beyond(items=out, name=fr.fi.qualname):
                yield from items
                raise Unsupported(f'generator {name} consumed beyond {GEN_CAP} values')
            return LazyGen(beyond(), 'capped ' + fr.fi.qualname)
        return out

    def bind_params(self, a: ast.arguments, args: List[Any], kwargs: Dict[str, Any], env: Env, fr: FuncRef) -> None:
        params = [p.arg for p in a.posonlyargs + a.args]
        defaults = [None] * (len(params) - len(a.defaults)) + list(a.defaults)
        kwargs = dict(kwargs)
        denv = Env(env.module, fr.closure, env.cls)
        for i, p in enumerate(params):
            if i < len(args):
                env.vars[p] = args[i]
            elif p in kwargs:
                env.vars[p] = kwargs.pop(p)
            elif defaults[i] is not None:
                env.vars[p] = self.eval(defaults[i], denv)
            else:
                raise Raised(ExcVal('TypeError', (f'missing argument {p}',)))
        extra = args[len(params):]
        if a.vararg:
            env.vars[a.vararg.arg] = tuple(extra)
        elif extra:
            raise Raised(ExcVal('TypeError', ('too many arguments',)))
        for p, d in zip(a.kwonlyargs, a.kw_defaults):
            if p.arg in kwargs:
                env.vars[p.arg] = kwargs.pop(p.arg)
            elif d is not None:
                env.vars[p.arg] = self.eval(d, denv)
            else:
                raise Raised(ExcVal('TypeError', (f'missing kw-only {p.arg}',)))
        if a.kwarg:
            env.vars[a.kwarg.arg] = kwargs
        elif kwargs:
            raise Raised(ExcVal('TypeError', (f'unexpected keyword {sorted(kwargs)}',)))

    def construct(self, cr: ClassRef, args, kwargs, node) -> Any:
        q = cr.qual
        if self.is_exception_class(q):
            return ExcVal(q, tuple(args))
        init = self.repo.find_method(q, '__init__')
        obj = Obj(q)
        if init is not None and self.hooks.inline(self, init) and self.depth < self.max_depth + 2:
            self.call_function(FuncRef(init, obj, True), args, kwargs, node, force_inline=True)
            return obj
        # dataclass-like / NamedTuple-like: bind by class annotations order
        ci = self.repo.classes.get(q)
        if ci is not None:
            names = [st.target.id for st in ci.node.body if isinstance(st, ast.AnnAssign) and isinstance(st.target, ast.Name)]
            for n, v in zip(names, args):
                obj.fields[n] = v
        obj.fields.update(kwargs)
        if args and not obj.fields:
            obj.fields['args'] = tuple(args)
        return obj

    def is_exception_class(self, q: str) -> bool:
        if q in BUILTIN_EXC:
            return True
        if q in self.repo.classes:
            for m in self.repo.mro(q):
                if m not in self.repo.classes and m.rsplit('.', 1)[-1] in BUILTIN_EXC:
                    return True
        return False

    # builtins ---------------------------------------------------------------
    def call_builtin(self, name: str, args: List[Any], kwargs: Dict[str, Any], node, env=None) -> Any:
        if name in BUILTIN_EXC:
            return ExcVal(name, tuple(args))
        if name == 'super' and env is not None:
            return self._super(args, env, node)
        if name in ('object.__init__', 'object.__init_subclass__'):
            return None
        h = getattr(self, 'b_' + name.replace('.', '_'), None)
        if h is not None:
            return h(args, kwargs, node)
        if all(is_concrete(a) for a in args) and all(is_concrete(v) for v in kwargs.values()) and name in SAFE_BUILTINS:
            try:
                return getattr(_bi, name)(*args, **kwargs)
            except Exception as ex:
                raise Raised(ExcVal(type(ex).__name__, (str(ex),)))
        return App('call:' + name, *args, *[App('kw', k, v) for k, v in kwargs.items()])

    def b_len(self, args, kwargs, node):
        (v,) = args
        if isinstance(v, (list, tuple, dict, set, frozenset, str, bytes, range)):
            return len(v)
        if isinstance(v, LazyGen):
            raise Raised(ExcVal('TypeError'))
        if isinstance(v, Obj):
            m = self.repo.find_method(v.cls, '__len__')
            if m is not None:
                return self.call_function(FuncRef(m, v, True), [], {}, node)
        return App('len', v)

    def b_isinstance(self, args, kwargs, node):
        obj, cls = args
        classes = list(cls) if isinstance(cls, (tuple, list)) else [cls]
        r = self.hooks.isinstance(self, obj, classes)
        if r is not NotImplemented:
            return r
        if any(isinstance(c, NTClass) for c in classes):
            if isinstance(obj, NTVal) and any(isinstance(c, NTClass) and c.name == obj.ntc.name for c in classes):
                return True
            classes = [c for c in classes if not isinstance(c, NTClass)]
            if not classes:
                return False
        if isinstance(obj, NTVal):
            return any(isinstance(c, Builtin) and c.name == 'tuple' for c in classes)
        if isinstance(obj, Obj):
            for c in classes:
                if isinstance(c, ClassRef) and self.repo.is_subclass(obj.cls, c.qual):
                    return True
            return False
        if isinstance(obj, ExcVal):
            return any(self.exc_matches(obj, c) for c in classes)
        if is_prim(obj) or isinstance(obj, (list, tuple, dict, set, frozenset)):
            for c in classes:
                if isinstance(c, Builtin) and hasattr(_bi, c.name) and isinstance(getattr(_bi, c.name), type):
                    if isinstance(obj, getattr(_bi, c.name)):
                        return True
            return False
        if isinstance(obj, (Sym, App)):
            typ = getattr(obj, 'typ', None)
            if typ is not None:
                for c in classes:
                    cname = c.name if isinstance(c, Builtin) else (c.qual if isinstance(c, ClassRef) else None)
                    if cname == typ or (typ in self.repo.classes and cname and self.repo.is_subclass(typ, cname)):
                        return True
                    if typ == 'bool' and cname == 'int':
                        return True
                return False
            return App('isinstance', obj, tuple(classes))
        if isinstance(obj, (ClassRef,)):
            return any(isinstance(c, Builtin) and c.name == 'type' for c in classes)
        return App('isinstance', obj, tuple(classes))

    def b_issubclass(self, args, kwargs, node):
        a, b = args
        bs = list(b) if isinstance(b, (tuple, list)) else [b]
        if isinstance(a, ClassRef) and all(isinstance(x, ClassRef) for x in bs):
            return any(self.repo.is_subclass(a.qual, x.qual) for x in bs)
        return App('issubclass', a, tuple(bs))

    def b_type(self, args, kwargs, node):
        (v,) = args
        if isinstance(v, Obj):
            return ClassRef(v.cls)
        if is_prim(v) or isinstance(v, (list, tuple, dict)):
            return Builtin(type(v).__name__)
        return App('type', v)

    def b_range(self, args, kwargs, node):
        if all(isinstance(a, int) for a in args):
            return range(*args)
        return App('range', *args)

    def b_enumerate(self, args, kwargs, node):
        start = kwargs.get('start', args[1] if len(args) > 1 else 0)
        items = list(self.iterate(args[0], node))
        # an iterator, as in Python: a loop that leaves it half consumed (break) and comes back later continues where it stopped
        return LazyGen(iter([(start + i, x) for i, x in enumerate(items)]), 'enumerate')

    def b_zip(self, args, kwargs, node):
        its = [iter(self.iterate(a, node)) for a in args]  # in lockstep, as in Python: nothing is pulled once the first one is exhausted
        return [tuple(t) for t in zip(*its)]

    def b_reversed(self, args, kwargs, node):
        return list(reversed(list(self.iterate(args[0], node))))

    def b_list(self, args, kwargs, node):
        return list(self.iterate(args[0], node)) if args else []

    def b_tuple(self, args, kwargs, node):
        return tuple(self.iterate(args[0], node)) if args else ()

    def b_set(self, args, kwargs, node):
        return set(self.iterate(args[0], node)) if args else set()

    def b_frozenset(self, args, kwargs, node):
        return frozenset(self.iterate(args[0], node)) if args else frozenset()

    def b_dict_fromkeys(self, args, kwargs, node):
        keys = list(self.iterate(args[0], node))
        val = args[1] if len(args) > 1 else None
        d: Dict[Any, Any] = {}
        for k in keys:
            if not _hashable(k):
                raise Raised(ExcVal('TypeError', ('unhashable',)))
            d.setdefault(k, val)
        return d

    def b_dict(self, args, kwargs, node):
        d: Dict[Any, Any] = {}
        if args:
            if isinstance(args[0], dict):
                d.update(args[0])
            else:
                for k, v in self.iterate(args[0], node):
                    d[k] = v
        d.update(kwargs)
        return d

    def b_iter(self, args, kwargs, node):
        return LazyGen(iter(self.iterate(args[0], node)))

    def b_next(self, args, kwargs, node):
        g = args[0]
        if isinstance(g, LazyGen):
            try:
                return next(g.gen)
            except StopIteration:
                if len(args) > 1:
                    return args[1]
                raise Raised(ExcVal('StopIteration', origin='next'))
        if isinstance(g, (Sym, App)):
            return App('next', *args)
        raise Unsupported(f'next on {vrepr(g)}')

    def b_any(self, args, kwargs, node):
        for x in self.iterate(args[0], node):
            if self.truth(x):
                return True
        return False

    def b_all(self, args, kwargs, node):
        for x in self.iterate(args[0], node):
            if not self.truth(x):
                return False
        return True

    def b_map(self, args, kwargs, node):
        f = args[0]
        its = [list(self.iterate(a, node)) for a in args[1:]]
        return [self.call(f, list(t), {}, node) for t in zip(*its)]

    def b_filter(self, args, kwargs, node):
        f, seq = args
        out = []
        for x in self.iterate(seq, node):
            r = self.truth(x) if f is None else self.truth(self.call(f, [x], {}, node))
            if r:
                out.append(x)
        return out

    def b_sorted(self, args, kwargs, node):
        items = list(self.iterate(args[0], node))
        if all(is_concrete(x) for x in items) and 'key' not in kwargs:
            try:
                return sorted(items, reverse=bool(kwargs.get('reverse', False)))
            except TypeError:
                raise Raised(ExcVal('TypeError'))
        return App('sorted', items, *[App('kw', k, v) for k, v in kwargs.items()])

    def b_getattr(self, args, kwargs, node):
        obj, name = args[0], args[1]
        if not isinstance(name, str):
            return App('getattr', *args)
        if len(args) > 2:
            if isinstance(obj, Obj):
                if name in obj.fields:
                    return obj.fields[name]
                if self.repo.find_method(obj.cls, name) or self.repo.class_attr(obj.cls, name):
                    return self.getattr(obj, name, node)
                return args[2]
            if isinstance(obj, (Sym, App)):
                r = self.hooks.attr(self, obj, name, node)
                if r is not NotImplemented:
                    return r
                return App('getattr', obj, name, args[2])
            try:
                return self.getattr(obj, name, node)
            except Raised:
                return args[2]
        return self.getattr(obj, name, node)

    def b_hasattr(self, args, kwargs, node):
        obj, name = args
        if isinstance(obj, Obj) and isinstance(name, str):
            return name in obj.fields or bool(self.repo.find_method(obj.cls, name) or self.repo.class_attr(obj.cls, name))
        return App('hasattr', obj, name)

    def b_print(self, args, kwargs, node):
        return None

    def b_str(self, args, kwargs, node):
        if not args:
            return ''
        v = args[0]
        if isinstance(v, (str, int)) and not isinstance(v, bool) and len(args) == 1:
            return str(v)
        return App('str', *args)

    def b_repr(self, args, kwargs, node):
        if len(args) == 1 and is_prim(args[0]):
            return repr(args[0])
        return App('repr', *args)

    def b_int(self, args, kwargs, node):
        if all(is_prim(a) for a in args) and not kwargs:
            try:
                return int(*args)
            except Exception as ex:
                raise Raised(ExcVal(type(ex).__name__))
        if len(args) == 1 and isinstance(args[0], Obj):
            m = self.repo.find_method(args[0].cls, '__int__')
            if m is not None:
                return self.call_function(FuncRef(m, args[0], True), [], {}, node)
        return App('int', *args)

    def b_bool(self, args, kwargs, node):
        if not args:
            return False
        v = args[0]
        if isinstance(v, (Sym, App)):
            return App('bool', v)
        return self.truth(v)

    def b_bytes(self, args, kwargs, node):
        if all(is_concrete(a) for a in args) and not kwargs:
            try:
                return bytes(*args)
            except Exception as ex:
                raise Raised(ExcVal(type(ex).__name__))
        if len(args) == 1 and isinstance(args[0], Obj):
            m = self.repo.find_method(args[0].cls, '__bytes__')
            if m is not None:
                return self.call_function(FuncRef(m, args[0], True), [], {}, node)
        return App('bytes', *args)

    def b_min(self, args, kwargs, node):
        vals = list(args) if len(args) > 1 else list(self.iterate(args[0], node))
        if all(is_prim(v) for v in vals) and not kwargs:
            return min(vals)
        return App('min', *vals)

    def b_max(self, args, kwargs, node):
        vals = list(args) if len(args) > 1 else list(self.iterate(args[0], node))
        if all(is_prim(v) for v in vals) and not kwargs:
            return max(vals)
        return App('max', *vals)

    def b_sum(self, args, kwargs, node):
        vals = list(self.iterate(args[0], node))
        acc: Any = args[1] if len(args) > 1 else 0
        for v in vals:
            acc = self.binop(ast.Add(), acc, v, node)
        return acc

    def b_abs(self, args, kwargs, node):
        if is_prim(args[0]):
            return abs(args[0])
        return App('abs', args[0])

    def b_callable(self, args, kwargs, node):
        v = args[0]
        if isinstance(v, (FuncRef, ClassRef, Builtin, BoundMethod)):
            return True
        if isinstance(v, (Sym, App)):
            return App('callable', v)
        return False

    def b_super(self, args, kwargs, node):
        raise Unsupported('super()')

    def _super(self, args, env, node):
        """super() / super(C, self): a reference that resolves attributes on the MRO after the class."""
        e = env
        cls = None
        while e is not None and cls is None:
            cls = e.cls
            e = e.parent
        if len(args) == 2 and isinstance(args[0], ClassRef):
            start, me = args[0].qual, args[1]
        else:
            if cls is None:
                raise Unsupported('super() outside a class')
            start = cls.qualname
            me = None
            e = env
            while e is not None and me is None:
                for nm in ('self', 'cls', 'mcs'):
                    if nm in e.vars:
                        me = e.vars[nm]
                        break
                e = e.parent
            if me is None:
                raise Unsupported('super(): receiver not found')
        return SuperRef(start, me)

    def b_cast(self, args, kwargs, node):
        return args[1]

    def b_id(self, args, kwargs, node):
        return App('id', args[0])

    def b_hash(self, args, kwargs, node):
        v = args[0]
        if isinstance(v, Obj):
            m = self.repo.find_method(v.cls, '__hash__')
            if m is not None:
                return self.call_function(FuncRef(m, v, True), [], {}, node)
        return App('hash', v)

    # methods of concrete python values ------------------------------------
    def call_method(self, recv: Any, name: str, args: List[Any], kwargs: Dict[str, Any], node) -> Any:
        if isinstance(recv, (list, dict, set)) or (isinstance(recv, (tuple, frozenset))):
            if isinstance(recv, dict) and name in ('get', 'pop', 'setdefault') and args and isinstance(args[0], (Sym, App)) \
                    and not (_hashable(args[0]) and args[0] in recv):
                if name == 'get' and not recv:
                    return args[1] if len(args) > 1 else None
                return App(f'dict.{name}', recv if is_concrete(recv) else App('dict', *recv.keys()), *args)
            if isinstance(recv, dict) and name == 'items':
                return [(k, v) for k, v in recv.items()]
            if isinstance(recv, dict) and name == 'keys':
                return KeyList(recv.keys())
            if isinstance(recv, dict) and name == 'values':
                return list(recv.values())
            if isinstance(recv, dict) and name == 'update' and args and not isinstance(args[0], dict):
                raise Unsupported('dict.update with abstract argument')
            if name in ('index', 'count', 'remove') and not is_concrete((recv, args)):
                ks = [vkey(x) for x in recv]
                ak = vkey(args[0])
                if isinstance(recv, set) and name == 'remove' and ak not in ks:
                    raise Raised(ExcVal('KeyError'))
                if name == 'count':
                    return ks.count(ak)
                if ak in ks:
                    i = ks.index(ak)
                    if name == 'index':
                        return i
                    if isinstance(recv, set):
                        recv.discard([x for x in recv if vkey(x) == ak][0])
                    else:
                        del recv[i]
                    return None
                raise Raised(ExcVal('ValueError'))
            if name == 'sort':
                if is_concrete(recv) and not kwargs:
                    recv.sort()
                    return None
                raise Unsupported('sort of abstract list')
            if name in ('extend',) and args:
                args = [list(self.iterate(args[0], node))]
            if name == 'join':
                raise Unsupported('join on container')
            try:
                return getattr(recv, name)(*args, **kwargs)
            except Exception as ex:
                raise Raised(ExcVal(type(ex).__name__, (str(ex),)))
        if isinstance(recv, (str, bytes)) and name == 'join':
            items = list(self.iterate(args[0], node))
            if all(isinstance(x, type(recv)) for x in items):
                return recv.join(items)
            if len(recv) == 0:
                return cat(*items) if items else recv
            out: List[Any] = []
            for i, x in enumerate(items):
                if i:
                    out.append(recv)
                out.append(x)
            return cat(*out) if out else recv
        if isinstance(recv, (str, bytes)) and name in ('format',):
            if is_concrete(args) and is_concrete(kwargs):
                return recv.format(*args, **kwargs)
            return App('format', recv, *args)
        if is_prim(recv):
            if all(is_concrete(a) for a in args) and all(is_concrete(v) for v in kwargs.values()):
                if isinstance(recv, int) and name == 'to_bytes' and args and isinstance(args[0], int) and args[0] > 4096:
                    raise Unsupported('huge to_bytes')
                try:
                    return getattr(recv, name)(*args, **kwargs)
                except Exception as ex:
                    raise Raised(ExcVal(type(ex).__name__, (str(ex),)))
            return App(f'm:{name}', recv, *args, *[App('kw', k, v) for k, v in kwargs.items()])
        if isinstance(recv, range):
            return getattr(recv, name)(*args)
        raise Unsupported(f'method {name} on {vrepr(recv)}')


def sort_key_kind(it: 'Interp', f: Any) -> str:
    """What a `key=` argument of sorted() projects out of a (key, value) entry: 'identity' (no key function), 'first' (the entry's key:
    `lambda x: x[0]`, `operator.itemgetter(0)`, a named function returning its argument's first item), 'other:<term>' or 'unknown'.
    Decided by applying the function to a symbolic pair, not by its spelling."""
    if f is None:
        return 'identity'
    if isinstance(f, App) and f.op in ('call:operator.itemgetter', 'call:itemgetter') and list(f.args) == [0]:
        return 'first'
    if isinstance(f, FuncRef):
        probe = (Sym('probe_k'), Sym('probe_v'))
        try:
            r = it.call_function(f, [probe], {}, None, force_inline=True)
        except Exception:
            return 'unknown'
        if isinstance(r, Sym) and r.name == 'probe_k':
            return 'first'
        if isinstance(r, tuple) and len(r) == 2 and all(isinstance(x, Sym) for x in r) and (r[0].name, r[1].name) == ('probe_k', 'probe_v'):
            return 'identity'
        return 'other:' + vrepr(r)
    return 'unknown'


import json as _json

PURE_STDLIB = {'json.dumps': _json.dumps, 'json.loads': _json.loads}
import string as _string
STDLIB_CONSTS = {f'string.{n}': getattr(_string, n) for n in ('ascii_letters', 'ascii_lowercase', 'ascii_uppercase', 'digits', 'hexdigits', 'octdigits', 'punctuation', 'whitespace', 'printable')}

SAFE_BUILTINS = {'abs', 'bool', 'bytes', 'chr', 'divmod', 'float', 'hex', 'int', 'len', 'max', 'min', 'oct', 'ord', 'pow',
                 'round', 'str', 'sum', 'bin', 'bytearray'}


def _hashable(v) -> bool:
    try:
        hash(v)
        return True
    except TypeError:
        return False


def _load(target: ast.AST) -> ast.AST:
    import copy

    t = copy.copy(target)
    t.ctx = ast.Load()  # type: ignore[attr-defined]
    return t


_yield_cache: Dict[int, bool] = {}


def _has_yield(node: ast.AST) -> bool:
    k = id(node)
    if k in _yield_cache:
        return _yield_cache[k]
    res = False
    stack = list(ast.iter_child_nodes(node)) if isinstance(node, (ast.FunctionDef, ast.AsyncFunctionDef)) else [node]
    while stack:
        n = stack.pop()
        if isinstance(n, (ast.Yield, ast.YieldFrom)):
            res = True
            break
        if isinstance(n, (ast.FunctionDef, ast.AsyncFunctionDef, ast.Lambda)):
            continue
        stack.extend(ast.iter_child_nodes(n))
    _yield_cache[k] = res
    return res
