"""E3 type-resolved call graph over the CPython ast of the repo, receivers resolved by the mypy type oracle (sa/typed.py).

Edges of a function f (nested functions and lambdas are attributed to f):
  call      x.m(...)         receiver class C from the oracle: the method found on C's MRO plus every override in a subclass of C (CHA)
            super().m(...)   the next definition on the MRO of f's class
            name(...)        repo function, or class -> its __init__ (and __new__/metaclass __call__ are ignored)
  subscript x[i] (load)      C.__getitem__ by the same rule
  iterate   for _ in x / comprehensions / list(x) ...   C.__iter__
  operator  a < b, a == b, a in b, a + b ...            dunder of the left (or, for `in`, right) operand
  builtin   int(x) len(x) str(x) bytes(x) bool(x) hash(x) repr(x) sorted(x)/min/max     matching dunder
  property  x.p                                          the @property function
If the receiver type is unknown (Any) the edge is resolved BY NAME to every method of that name in `byname_scope` and is marked so.
"""
from __future__ import annotations

import ast
from dataclasses import dataclass, field
from typing import Any, Dict, Iterable, List, Optional, Set, Tuple

from .model import FuncInfo, Repo
from .typed import TypeOracle

CMP = {ast.Lt: '__lt__', ast.LtE: '__le__', ast.Gt: '__gt__', ast.GtE: '__ge__', ast.Eq: '__eq__', ast.NotEq: '__ne__'}
BIN = {ast.Add: '__add__', ast.Sub: '__sub__', ast.Mult: '__mul__', ast.FloorDiv: '__floordiv__', ast.Mod: '__mod__', ast.BitAnd: '__and__',
       ast.BitOr: '__or__', ast.BitXor: '__xor__', ast.LShift: '__lshift__', ast.RShift: '__rshift__', ast.Div: '__truediv__', ast.Pow: '__pow__'}
BUILTIN_DUNDER = {'int': ['__int__'], 'len': ['__len__'], 'str': ['__str__', '__repr__'], 'bytes': ['__bytes__'], 'bool': ['__bool__', '__len__'],
                  'hash': ['__hash__'], 'repr': ['__repr__'], 'sorted': ['__iter__'], 'min': ['__iter__'], 'max': ['__iter__'], 'list': ['__iter__'],
                  'tuple': ['__iter__'], 'set': ['__iter__'], 'iter': ['__iter__'], 'enumerate': ['__iter__'], 'zip': ['__iter__'], 'map': ['__iter__'],
                  'filter': ['__iter__'], 'all': ['__iter__'], 'any': ['__iter__'], 'sum': ['__iter__'], 'reversed': ['__iter__', '__reversed__'],
                  'next': ['__next__'], 'abs': ['__abs__']}


@dataclass
class Edge:
    src: str
    dst: str
    kind: str  # call | subscript | iterate | operator | builtin | property | init
    line: int
    expr: str
    how: str  # static | cha | byname | super


class CallGraph:
    def __init__(self, repo: Repo, oracle: TypeOracle, scope: str = 'pytezos.michelson', byname_scope: str = 'pytezos.michelson'):
        self.repo = repo
        self.oracle = oracle
        self.scope = scope
        self.byname_scope = byname_scope
        self.edges: Dict[str, List[Edge]] = {}
        self.n_sites = 0
        self.n_unresolved = 0
        self._by_name: Dict[str, List[FuncInfo]] = {}
        for ci in repo.classes.values():
            if ci.qualname.startswith(byname_scope):
                for n, m in ci.methods.items():
                    self._by_name.setdefault(n, []).append(m)
        self._props: Dict[str, Set[str]] = {}
        for fi in repo.iter_functions(scope):
            self.edges[fi.qualname] = self._edges_of(fi)

    # ---------------------------------------------------------------------------------------------------------------- resolution
    def methods_on(self, cls_qual: str, name: str) -> List[Tuple[FuncInfo, str]]:
        """The definition seen by instances of cls (MRO) and all overrides below it."""
        out: List[Tuple[FuncInfo, str]] = []
        m = self.repo.find_method(cls_qual, name)
        if m is not None:
            out.append((m, 'static'))
        for sub in self.repo.subclasses(cls_qual):
            ci = self.repo.classes.get(sub)
            if ci and name in ci.methods:
                out.append((ci.methods[name], 'cha'))
        return out

    def resolve_method(self, fi: FuncInfo, recv: ast.AST, name: str, allow_byname: bool) -> Tuple[List[Tuple[FuncInfo, str]], bool]:
        """-> (targets, resolved).  resolved=False: receiver unknown."""
        rel = fi.module.relpath
        # module.function
        d = _dotted(recv)
        if d is not None and d.split('.')[0] not in self._locals(fi):
            q = self.repo.resolve_name(fi.module, d)
            kind, obj = self.repo.lookup(q)
            if kind == 'module':
                k2, o2 = self.repo.lookup(f'{q}.{name}')
                if k2 == 'func':
                    return [(o2, 'static')], True
                if k2 == 'class':
                    return self._ctor(o2.qualname), True
                return [], True
            if kind == 'class':
                return self.methods_on(obj.qualname, name), True
        classes, known = self.oracle.classes(rel, recv)
        proj = [c for c in classes if c in self.repo.classes]
        out: List[Tuple[FuncInfo, str]] = []
        for c in proj:
            out += self.methods_on(c, name)
        if known or proj:
            return _uniq(out), True
        if allow_byname:
            return [(m, 'byname') for m in self._by_name.get(name, [])], False
        return [], False

    def _locals(self, fi: FuncInfo) -> Set[str]:
        k = fi.qualname
        if k not in self._props:
            a = fi.node.args
            names = {x.arg for x in a.posonlyargs + a.args + a.kwonlyargs}
            if a.vararg:
                names.add(a.vararg.arg)
            if a.kwarg:
                names.add(a.kwarg.arg)
            for n in ast.walk(fi.node):
                if isinstance(n, ast.Name) and isinstance(n.ctx, ast.Store):
                    names.add(n.id)
                elif isinstance(n, ast.arg):
                    names.add(n.arg)
            self._props[k] = names
        return self._props[k]

    def _ctor(self, cls_qual: str) -> List[Tuple[FuncInfo, str]]:
        out = []
        for n in ('__init__', '__new__', '__post_init__'):
            m = self.repo.find_method(cls_qual, n)
            if m is not None:
                out.append((m, 'static'))
        return out

    # ---------------------------------------------------------------------------------------------------------------- extraction
    def _edges_of(self, fi: FuncInfo) -> List[Edge]:
        out: List[Edge] = []
        rel = fi.module.relpath

        def add(targets: Iterable[Tuple[FuncInfo, str]], kind: str, node: ast.AST, how_override: Optional[str] = None):
            for m, how in targets:
                out.append(Edge(fi.qualname, m.qualname, kind, getattr(node, 'lineno', fi.node.lineno), _short(node), how_override or how))

        for n in ast.walk(fi.node):
            if isinstance(n, ast.Call):
                f = n.func
                self.n_sites += 1
                if isinstance(f, ast.Attribute):
                    if isinstance(f.value, ast.Call) and isinstance(f.value.func, ast.Name) and f.value.func.id == 'super' and fi.cls is not None:
                        mro = self.repo.mro(fi.cls.qualname)
                        start = mro
                        if f.value.args and isinstance(f.value.args[0], ast.Name):
                            q = self.repo.resolve_name(fi.module, f.value.args[0].id)
                            if q in mro:
                                start = mro[mro.index(q):]
                        for c in start[1:]:
                            ci = self.repo.classes.get(c)
                            if ci and f.attr in ci.methods:
                                add([(ci.methods[f.attr], 'super')], 'call', n)
                                break
                        continue
                    tg, ok = self.resolve_method(fi, f.value, f.attr, allow_byname=True)
                    if not ok:
                        self.n_unresolved += 1
                    add(tg, 'call', n)
                elif isinstance(f, ast.Name):
                    q = self.repo.resolve_name(fi.module, f.id)
                    kind, obj = self.repo.lookup(q)
                    if kind == 'func':
                        add([(obj, 'static')], 'call', n)
                    elif kind == 'class':
                        add(self._ctor(obj.qualname), 'init', n)
                    elif f.id in BUILTIN_DUNDER and n.args:
                        for dn in BUILTIN_DUNDER[f.id]:
                            tg, _ = self.resolve_method(fi, n.args[0], dn, allow_byname=False)
                            add(tg, 'builtin', n)
                    else:
                        # a local variable holding a class object (cls(...), type(self)(...))
                        classes, _ = self.oracle.classes(rel, f)
                        for c in classes:
                            if c in self.repo.classes and any(r == ('type', c) for r in self.oracle.of(rel, f)):
                                tg = self._ctor(c)
                                for sub in self.repo.subclasses(c):
                                    ci = self.repo.classes.get(sub)
                                    if ci and '__init__' in ci.methods:
                                        tg.append((ci.methods['__init__'], 'cha'))
                                add(_uniq(tg), 'init', n)
            elif isinstance(n, ast.Subscript) and isinstance(n.ctx, ast.Load):
                tg, _ = self.resolve_method(fi, n.value, '__getitem__', allow_byname=False)
                add(tg, 'subscript', n)
            elif isinstance(n, (ast.For, ast.comprehension)):
                tg, _ = self.resolve_method(fi, n.iter, '__iter__', allow_byname=False)
                add(tg, 'iterate', n.iter)
            elif isinstance(n, ast.Compare):
                left = n.left
                for op, right in zip(n.ops, n.comparators):
                    if type(op) in CMP:
                        tg, _ = self.resolve_method(fi, left, CMP[type(op)], allow_byname=False)
                        add(tg, 'operator', n)
                    elif isinstance(op, (ast.In, ast.NotIn)):
                        tg, _ = self.resolve_method(fi, right, '__contains__', allow_byname=False)
                        add(tg, 'operator', n)
                    left = right
            elif isinstance(n, ast.BinOp) and type(n.op) in BIN:
                tg, _ = self.resolve_method(fi, n.left, BIN[type(n.op)], allow_byname=False)
                add(tg, 'operator', n)
            elif isinstance(n, ast.UnaryOp) and isinstance(n.op, ast.USub):
                tg, _ = self.resolve_method(fi, n.operand, '__neg__', allow_byname=False)
                add(tg, 'operator', n)
            elif isinstance(n, ast.Attribute) and isinstance(n.ctx, ast.Load):
                classes, _ = self.oracle.classes(rel, n.value)
                for c in classes:
                    if c in self.repo.classes:
                        for m, how in self.methods_on(c, n.attr):
                            if 'property' in m.decorators or 'cached_property' in m.decorators:
                                add([(m, how)], 'property', n)
        return out

    # ---------------------------------------------------------------------------------------------------------------- queries
    def reach(self, roots: Iterable[str], cut: Set[str]) -> Dict[str, Optional[Edge]]:
        """Forward closure from roots; functions in `cut` are recorded (as reached) but not expanded.  -> node -> edge that first reached it."""
        pred: Dict[str, Optional[Edge]] = {}
        work: List[str] = []
        for r in roots:
            if r not in pred:
                pred[r] = None
                work.append(r)
        while work:
            f = work.pop(0)
            if f in cut:
                continue
            for e in self.edges.get(f, []):
                if e.dst not in pred:
                    pred[e.dst] = e
                    work.append(e.dst)
        return pred

    def path(self, pred: Dict[str, Optional[Edge]], node: str) -> List[Edge]:
        out: List[Edge] = []
        cur: Optional[str] = node
        while cur is not None and pred.get(cur) is not None:
            e = pred[cur]
            assert e is not None
            out.append(e)
            cur = e.src
        return list(reversed(out))


def _dotted(n: ast.AST) -> Optional[str]:
    parts = []
    while isinstance(n, ast.Attribute):
        parts.append(n.attr)
        n = n.value
    if isinstance(n, ast.Name):
        parts.append(n.id)
        return '.'.join(reversed(parts))
    return None


def _uniq(xs: List[Tuple[FuncInfo, str]]) -> List[Tuple[FuncInfo, str]]:
    seen, out = set(), []
    for m, how in xs:
        if m.qualname not in seen:
            seen.add(m.qualname)
            out.append((m, how))
    return out


def _short(n: ast.AST) -> str:
    try:
        s = ast.unparse(n)
    except Exception:
        s = type(n).__name__
    return ' '.join(s.split())[:100]
