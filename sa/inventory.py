"""Writes sa/reference/known_functions.json: the qualified names of every function and method of /repo as of now.

The abstract interpreter treats a function that is NOT in this inventory as a helper introduced by a later refactoring and inlines it
unconditionally (see Interp.is_fresh).  Re-run after a `fix:` commit in /repo that adds a function:  python -m sa.inventory
"""
import json
import os
import subprocess

from .model import Repo

HERE = os.path.dirname(os.path.abspath(__file__))


def main() -> int:
    repo = Repo()
    names = sorted({fi.qualname for fi in repo.iter_functions()})
    head = subprocess.run(['git', '-C', repo.root if hasattr(repo, 'root') else '/repo', 'rev-parse', 'HEAD'], capture_output=True, text=True).stdout.strip()
    with open(os.path.join(HERE, 'reference', 'known_functions.json'), 'w') as f:
        json.dump({'source': f'python -m sa.inventory on /repo at {head} (inventory of the functions that existed when the checks were written; not an oracle)', 'functions': names}, f, indent=0)
    print(len(names), 'functions')
    return 0


if __name__ == '__main__':
    raise SystemExit(main())
