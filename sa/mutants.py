"""E6 self-validation: seeded mutants of the *current* tree.

Each mutant is a single textual edit of one repo file (it must apply exactly once and the file must still byte-compile);
the property's check is run on a scratch copy (SA_REPO) with a scratch SA_VERIF so that the committed evidence is untouched,
and must exit 1 naming the expected construct.  A miss is a checker weakness (reported, exit 1 of the self-test), never a
verdict about /repo.

  python -m sa selftest [ids or property ids...] [--jobs N] [--list]
"""
from __future__ import annotations

import json
import os
import py_compile
import shutil
import subprocess
import sys
import tempfile
from concurrent.futures import ThreadPoolExecutor
from typing import Any, Dict, List

from .mutant_table import MUTANTS

VERIF = os.path.dirname(os.path.dirname(os.path.abspath(__file__)))
REPO = os.environ.get('SA_REPO', '/repo')


def run_one(m: Dict[str, Any]) -> Dict[str, Any]:
    tmp = tempfile.mkdtemp(prefix='sa-mut-')
    try:
        dst = os.path.join(tmp, 'repo', 'src')
        shutil.copytree(os.path.join(REPO, 'src', 'pytezos'), os.path.join(dst, 'pytezos'),
                        ignore=shutil.ignore_patterns('__pycache__'))
        edits = m.get('edits') or [m]
        for e in edits:
            path = os.path.join(tmp, 'repo', e['file'])
            with open(path) as f:
                s = f.read()
            cnt = s.count(e['old'])
            if cnt != e.get('count', 1):
                return dict(m, status='STALE', detail=f'edit applies {cnt} times in {e["file"]}')
            s = s.replace(e['old'], e['new'])
            with open(path, 'w') as f:
                f.write(s)
            try:
                py_compile.compile(path, doraise=True, cfile=os.path.join(tmp, 'x.pyc'))
            except py_compile.PyCompileError as ex:
                return dict(m, status='STALE', detail=f'mutant does not compile: {ex}')
        vdir = os.path.join(tmp, 'verif')
        os.makedirs(vdir)
        kf = os.path.join(VERIF, 'known_findings.json')
        if os.path.exists(kf):
            shutil.copy(kf, vdir)
        env = dict(os.environ, SA_REPO=os.path.join(tmp, 'repo'), SA_VERIF=vdir, PYTHONPATH=VERIF)
        results = []
        for prop in m['props']:
            r = subprocess.run([sys.executable, '-m', 'sa', 'check', prop], capture_output=True, text=True, env=env, cwd=VERIF)
            out = r.stdout
            hit = r.returncode == 1 and (m.get('expect', '') in out)
            results.append((prop, r.returncode, hit, out[-600:]))
        killed = any(h for _, _, h, _ in results)
        status = 'KILLED' if killed else ('ERROR' if any(rc == 2 for _, rc, _, _ in results) else 'MISSED')
        return dict(m, status=status, detail='; '.join(f'{p}: rc={rc}' for p, rc, _, _ in results),
                    output=results[0][3] if not killed else '')
    finally:
        shutil.rmtree(tmp, ignore_errors=True)


def main(argv: List[str], jobs: int = 8) -> int:
    sel = [a for a in argv if not a.startswith('--')]
    ms = [m for m in MUTANTS if not sel or m['id'] in sel or any(p in sel for p in m['props'])]
    if '--list' in argv:
        for m in ms:
            print(m['id'], m['props'], m.get('why', ''))
        return 0
    with ThreadPoolExecutor(jobs) as ex:
        res = list(ex.map(run_one, ms))
    bad = 0
    for r in res:
        print(f'{r["status"]:7} {r["id"]:40} {r["detail"]}')
        if r['status'] != 'KILLED':
            bad += 1
            if r.get('output'):
                print('        ' + r['output'].replace('\n', '\n        ')[:800])
    print(f'mutants: {len(res)} tried, {len(res) - bad} reported by the checks, {bad} not')
    out = os.path.join(VERIF, 'selftest_last.json')
    with open(out, 'w') as f:
        json.dump([{k: v for k, v in r.items() if k not in ('output',)} for r in res], f, indent=1)
    return 1 if bad else 0
