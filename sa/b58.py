"""Own base58 arithmetic (Bitcoin alphabet) — the repo's base58 package is not used."""
ALPHABET = b'123456789ABCDEFGHJKLMNPQRSTUVWXYZabcdefghijkmnopqrstuvwxyz'


def b58encode(data: bytes) -> bytes:
    n = int.from_bytes(data, 'big')
    out = bytearray()
    while n:
        n, r = divmod(n, 58)
        out.append(ALPHABET[r])
    pad = len(data) - len(data.lstrip(b'\x00'))
    return bytes([ALPHABET[0]]) * pad + bytes(reversed(out))


def interval(bin_prefix: bytes, payload_len: int):
    """Smallest and largest base58check strings of prefix||payload||checksum over all payloads (and all checksums)."""
    lo = b58encode(bin_prefix + b'\x00' * (payload_len + 4))
    hi = b58encode(bin_prefix + b'\xff' * (payload_len + 4))
    return lo, hi


def common_prefix(a: bytes, b: bytes) -> bytes:
    i = 0
    while i < min(len(a), len(b)) and a[i] == b[i]:
        i += 1
    return a[:i]
