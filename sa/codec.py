"""Write-trace of forge_micheline and read-trace of unforge_micheline (shared by C04/C05).

Both are obtained by abstract interpretation of the function bodies over node *shapes*;
no byte is ever produced: children, primitive names, literals are opaque symbols.
"""
from __future__ import annotations

import ast
from typing import Any, Dict, List, Tuple

from .absint import App, BoundMethod, Builtin, FuncRef, Hooks, Interp, ModRef, Sym, is_concrete, vrepr
from .model import AnalysisError, Repo

FORGE = 'pytezos.michelson.forge'


# ------------------------------------------------------------------------------------------------ encoder
class EncHooks(Hooks):
    def inline(self, it, fi):
        return fi.qualname in (f'{FORGE}.forge_micheline', f'{FORGE}.get_tag')

    def call(self, it, callee, args, kwargs, node):
        if isinstance(callee, FuncRef) and callee.fi is not None and callee.fi.qualname == f'{FORGE}.forge_micheline':
            if args and isinstance(args[0], Sym):
                return App('child', args[0])
        return NotImplemented

    def truth(self, it, term):
        if isinstance(term, Sym):
            return True  # a present field is a non-empty literal
        if isinstance(term, App) and term.op == 'is' and isinstance(term.args[0], Sym) and term.args[1] is None:
            return False
        return None


def enc_shapes() -> Dict[str, Any]:
    shapes: Dict[str, Any] = {
        'int': {'int': Sym('I', 'str')},
        'string': {'string': Sym('S', 'str')},
        'bytes': {'bytes': Sym('B', 'str')},
        'seq0': [],
        'seq2': [Sym('c1'), Sym('c2')],
    }
    for n in range(0, 5):
        for a in (0, 1, 2):
            d: Dict[str, Any] = {'prim': Sym('P', 'str')}
            if n:
                d['args'] = [Sym(f'c{i + 1}') for i in range(n)]
            if a:
                d['annots'] = [Sym(f'a{i + 1}', 'str') for i in range(a)]
            shapes[f'prim{n}a{a}'] = d
    # explicit empty lists behave like absent ones
    shapes['prim0a0-empty'] = {'prim': Sym('P', 'str'), 'args': [], 'annots': []}
    return shapes


def _is_text(v: Any) -> bool:
    if isinstance(v, Sym):
        return v.typ == 'str'
    if isinstance(v, str):
        return True
    return isinstance(v, App) and v.op == 'cat' and all(_is_text(a) for a in v.args)


def _text_array_is_counted_in_bytes(repo: Repo) -> bool:
    """forge_array handed a text: is the length prefix the length of the UTF-8 bytes it writes (and not the number of characters)?"""
    fa = repo.func(f'{FORGE}.forge_array')
    res = Interp(repo, Hooks(), max_depth=1).run_function(fa, [Sym('data', 'str')])
    enc = App('mcall:encode', Sym('data'))
    want = App('cat', App('mcall:to_bytes', App('len', enc), 4, 'big'), enc)
    return len(res) == 1 and res[0].outcome == 'return' and vrepr(res[0].value) == vrepr(want)


def _tok(v: Any, prim_tags_keys, repo: Any = None) -> List[Any]:
    """Normalise an encoder result term to a token list."""
    if isinstance(v, bytes):
        return [('const', v.hex())] if v else []
    if isinstance(v, App):
        if v.op == 'cat':
            out: List[Any] = []
            for a in v.args:
                out += _tok(a, prim_tags_keys, repo)
            return out
        if v.op == 'child':
            return [('child', v.args[0].name)]
        if v.op == 'getitem' and isinstance(v.args[0], dict) and isinstance(v.args[1], Sym) and v.args[1].name == 'P':
            if set(v.args[0].keys()) != set(prim_tags_keys):
                raise AnalysisError('primitive tag looked up in a table other than prim_tags')
            return [('primtag',)]
        if v.op == f'call:{FORGE}.forge_array':
            lb = 'default'
            inner = v.args[0]
            for a in v.args[1:]:
                if isinstance(a, App) and a.op == 'kw' and a.args[0] == 'len_bytes':
                    lb = a.args[1]
                else:
                    lb = a
            if repo is not None and _is_text(inner):
                # a text handed to the array writer as it is: right only if the writer counts the bytes it writes
                as_bytes = App('mcall:encode', inner)
                if _text_array_is_counted_in_bytes(repo):
                    return [('arr', lb, tuple(_tok(as_bytes, prim_tags_keys, repo)))]
                return [('arr whose length prefix is not the number of UTF-8 bytes written (a text is handed to forge_array)', lb, tuple(_tok(as_bytes, prim_tags_keys, repo)))]
            return [('arr', lb, tuple(_tok(inner, prim_tags_keys, repo)))]
        if v.op == f'call:{FORGE}.forge_int' and len(v.args) == 1 and isinstance(v.args[0], App) and v.args[0].op == 'int' \
                and isinstance(v.args[0].args[0], Sym):
            return [('zint', v.args[0].args[0].name)]
        if v.op == 'call:bytes.fromhex' and isinstance(v.args[0], Sym):
            return [('hex', v.args[0].name)]
        if v.op == 'mcall:encode' and not v.args[1:]:
            inner = v.args[0]
            if isinstance(inner, Sym):
                return [('utf8', inner.name)]
            if isinstance(inner, App) and inner.op == 'cat':
                return [('utf8-join', tuple(x.name if isinstance(x, Sym) else x for x in inner.args))]
    raise AnalysisError(f'encoder emits a term the template normaliser does not model: {vrepr(v)}')


def encoder_templates(repo: Repo) -> Dict[str, Any]:
    fi = repo.func(f'{FORGE}.forge_micheline')
    keys = list(repo.const('pytezos.michelson.tags.prim_tags').keys())
    out: Dict[str, Any] = {}
    for name, shape in enc_shapes().items():
        it = Interp(repo, EncHooks(), max_depth=3)
        res = it.run_function(fi, [shape])
        paths = []
        for p in res:
            if p.outcome == 'return':
                paths.append(('emit', _tok(p.value, keys, repo)))
            else:
                paths.append(('raise', p.value.cls))
        out[name] = paths
    return out


def reference_template(name: str) -> List[Any]:
    """Micheline binary encoding (Tezos data_encoding of Micheline.canonical_encoding)."""
    if name == 'int':
        return [('const', '00'), ('zint', 'I')]
    if name == 'string':
        return [('const', '01'), ('arr', 'default', (('utf8', 'S'),))]
    if name == 'bytes':
        return [('const', '0a'), ('arr', 'default', (('hex', 'B'),))]
    if name == 'seq0':
        return [('const', '02'), ('arr', 'default', ())]
    if name == 'seq2':
        return [('const', '02'), ('arr', 'default', (('child', 'c1'), ('child', 'c2')))]
    if name.startswith('prim'):
        core = name.split('-')[0]
        n = int(core[4])
        a = int(core[6])
        kids = tuple(('child', f'c{i + 1}') for i in range(n))
        if a == 1:
            ann: Any = ('arr', 'default', (('utf8', 'a1'),))
        elif a == 2:
            ann = ('arr', 'default', (('utf8-join', ('a1', ' ', 'a2')),))
        else:
            ann = None
        if n >= 3:
            toks: List[Any] = [('const', '09'), ('primtag',), ('arr', 'default', kids)]
            toks.append(ann if ann else ('const', '00000000'))
            return _merge(toks)
        tag = 3 + 2 * n + (1 if a else 0)
        toks = [('const', f'{tag:02x}'), ('primtag',)] + list(kids)
        if ann:
            toks.append(ann)
        return toks
    raise KeyError(name)


def _merge(toks):
    return toks


# ------------------------------------------------------------------------------------------------ decoder
class DecHooks(Hooks):
    """`data` is an opaque buffer; reads are recorded as events.  The first byte read is the forced node tag."""

    def __init__(self, tag: int):
        self.tag = tag
        self.reads = 0
        self.loop_seen: Dict[Any, int] = {}

    def reset(self, it):
        self.reads = 0
        self.loop_seen = {}

    def inline(self, it, fi):
        return fi.qualname in (f'{FORGE}.unforge_micheline', f'{FORGE}.read_tag')

    def subscript(self, it, obj, idx, node):
        if isinstance(obj, Sym) and obj.name == 'data':
            if isinstance(idx, slice):
                return App('tail', idx.start) if idx.stop is None and idx.step is None else App('window', idx.start, idx.stop)
            self.reads += 1
            if self.reads == 1:
                it.event('read-tag')
                return self.tag
            it.event('read-byte', self.reads)
            return Sym(f'byte{self.reads}', 'int')
        return NotImplemented

    def call(self, it, callee, args, kwargs, node):
        if isinstance(callee, FuncRef) and callee.fi is not None:
            q = callee.fi.qualname
            if q == f'{FORGE}.unforge_int':
                it.event('read-zint')
                k = len(it.events)
                return (Sym(f'zint{k}', 'int'), Sym(f'off{k}', 'int'))
            if q == f'{FORGE}.unforge_array':
                lb = kwargs.get('len_bytes', args[1] if len(args) > 1 else 'default')
                it.event('read-arr', lb)
                k = len(it.events)
                return (Sym(f'arr{k}', 'bytes'), Sym(f'off{k}', 'int'))
        if isinstance(callee, FuncRef) and callee.fi is None and isinstance(callee.lam, ast.FunctionDef):
            if callee.lam.name == 'unforge' and '<local>.unforge' in it.call_stack:
                it.event('child')
                return Sym(f'child{len(it.events)}')
        return NotImplemented

    def truth(self, it, term):
        # `while ptr < end` in a sequence: one symbolic child then stop
        if isinstance(term, App) and term.op == '<':
            k = vrepr(term.args[1])
            n = self.loop_seen.get(k, 0)
            self.loop_seen[k] = n + 1
            if n == 0:
                it.event('children-begin')
                return True
            it.event('children-end')
            return False
        if isinstance(term, App) and term.op in ('==',) and any(isinstance(a, App) and a.op == 'len' for a in term.args):
            return None
        if isinstance(term, App) and term.op == '>' and isinstance(term.args[0], App) and term.args[0].op == 'len':
            return None  # len(value) > 0 for annotations: both ways
        return None


def decoder_traces(repo: Repo, tags=range(256)) -> Dict[int, Any]:
    fi = repo.func(f'{FORGE}.unforge_micheline')
    out: Dict[int, Any] = {}
    for t in tags:
        it = Interp(repo, DecHooks(t), max_depth=6, while_bound=3)
        res = it.run_function(fi, [Sym('data', 'bytes')])
        paths = []
        for p in res:
            ev = [e for e in p.events if not (isinstance(e, tuple) and e and e[0] == 'handler')]
            paths.append((p.outcome, p.value.cls if p.outcome == 'raise' else _shape(p.value), ev, p))
        out[t] = paths
    return out


def _shape(v: Any) -> Any:
    if isinstance(v, dict):
        return {k: _shape(x) for k, x in v.items()}
    if isinstance(v, list):
        return [_shape(x) for x in v]
    if isinstance(v, Sym):
        return f'${v.name.rstrip("0123456789")}'
    if isinstance(v, App):
        if v.op == 'getitem' and isinstance(v.args[0], dict):
            return 'prim_int[byte]'
        return v.op
    return v
