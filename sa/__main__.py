"""sa — static checks of baking-bad/pytezos properties.

  python -m sa setup
  python -m sa check <id> [--tier quick|thorough]
  python -m sa replay <file>
  python -m sa all [--tier quick|thorough] [--jobs N]
  python -m sa selftest [<id> ...] [--jobs N]
"""
from __future__ import annotations

import importlib
import json
import os
import sys
import traceback

from .model import AnalysisError, Repo
from .report import Check, analysis_error

PROPS = [f'C{i:02d}' for i in range(1, 34)]
NOT_APPLICABLE: set = set()


def run_check(pid: str, tier: str) -> int:
    if pid in NOT_APPLICABLE:
        return analysis_error(pid, 'property is not claimed (see MANIFEST.not_applicable)')
    try:
        mod = importlib.import_module(f'sa.props.{pid.lower()}')
    except ModuleNotFoundError as e:
        if e.name == f'sa.props.{pid.lower()}':
            return analysis_error(pid, 'no check implemented')
        raise
    try:
        # a path explosion must end as a broken analysis (exit 2), not as a machine out of memory
        import resource

        lim = int(os.environ.get('SA_MEM_GB', '6')) * 2 ** 30
        resource.setrlimit(resource.RLIMIT_AS, (lim, lim))
    except (ValueError, OSError):
        pass
    try:
        repo = Repo()
        chk = Check(pid, tier, getattr(mod, 'LEVEL', 'other'))
        mod.run(repo, chk)
        if hasattr(mod, 'controls'):
            mod.controls(chk)
        return chk.finish()
    except AnalysisError as e:
        # an obligation that has already failed for a reason not in the known-findings file is a violation whatever the rest of the analysis
        # would have said: report it (exit 1) and say that the run stopped early; otherwise the run is broken (exit 2), never a pass
        try:
            if chk.unlisted_failures():
                chk.note('stopped_early', str(e)[:300])
                print(f'NOTE property={pid} the analysis stopped early ({str(e)[:200]}); the violations below were established before that')
                return chk.finish()
        except NameError:
            pass
        return analysis_error(pid, str(e))
    except Exception as e:  # a traceback must not look like a violation
        traceback.print_exc(file=sys.stderr)
        return analysis_error(pid, f'internal error {type(e).__name__}: {e}')


def main(argv) -> int:
    if not argv:
        print(__doc__)
        return 2
    cmd, rest = argv[0], argv[1:]
    tier = os.environ.get('VERIF_TIER', 'quick')
    if '--tier' in rest:
        i = rest.index('--tier')
        tier = rest[i + 1]
        rest = rest[:i] + rest[i + 2 :]
    jobs = 8
    if '--jobs' in rest:
        i = rest.index('--jobs')
        jobs = int(rest[i + 1])
        rest = rest[:i] + rest[i + 2 :]
    if cmd == 'check':
        return run_check(rest[0], tier)
    if cmd == 'replay':
        with open(rest[0]) as f:
            rec = json.load(f)
        pid = rec['property']
        print(f'replaying obligation {rec.get("key")} of {pid} on the current tree')
        rc = run_check(pid, 'quick')
        return rc
    if cmd == 'setup':
        from . import setup as _setup

        return _setup.main()
    if cmd == 'all':
        import subprocess
        from concurrent.futures import ThreadPoolExecutor

        ids = rest or [p for p in PROPS if p not in NOT_APPLICABLE]

        def one(pid):
            r = subprocess.run([sys.executable, '-m', 'sa', 'check', pid, '--tier', tier], capture_output=True, text=True)
            return pid, r.returncode, r.stdout.strip()

        worst = 0
        with ThreadPoolExecutor(jobs) as ex:
            for pid, rc, out in ex.map(one, ids):
                print(f'[{pid}] rc={rc}\n{out}')
                worst = max(worst, rc)
        return worst
    if cmd == 'selftest':
        from . import mutants

        return mutants.main(rest, jobs)
    print(__doc__)
    return 2


if __name__ == '__main__':
    rc = main(sys.argv[1:])
    sys.stdout.flush()
    sys.stderr.flush()
    os._exit(rc)
