"""Abstract execution of Michelson instructions (C01, C02, C16, C20).

The REAL MichelsonStack class is interpreted by E4 on a stack of abstract values, so pops, pushes and the protected prefix
are exactly the repo's.  Values are `Obj`s of the real type classes whose payload is symbolic (`value`/`items`/... = Sym);
type checks (assert_type_equal/in) are recorded and assumed to pass (programs are well typed); constructors of bounded
numeric types (`from_value`) are decided with a small interval domain (`rng`) so that "may fail" is derived, not assumed.
"""
from __future__ import annotations

from typing import Any, Dict, List, Optional, Tuple

from .absint import App, Builtin, ClassRef, ExcVal, FuncRef, Hooks, Interp, ModRef, Obj, Raised, Sym, vkey, vrepr
from .model import AnalysisError, Repo

T = 'pytezos.michelson.types'
STACK = 'pytezos.michelson.stack.MichelsonStack'
MRE = 'pytezos.michelson.micheline.MichelsonRuntimeError'
INF = None
M63 = 2 ** 63

TYPECLS = {
    'int': f'{T}.core.IntType', 'nat': f'{T}.core.NatType', 'mutez': f'{T}.domain.MutezType', 'timestamp': f'{T}.domain.TimestampType',
    'bool': f'{T}.core.BoolType', 'bytes': f'{T}.core.BytesType', 'string': f'{T}.core.StringType', 'unit': f'{T}.core.UnitType',
    'bls12_381_fr': f'{T}.bls.BLS12_381_FrType', 'bls12_381_g1': f'{T}.bls.BLS12_381_G1Type', 'bls12_381_g2': f'{T}.bls.BLS12_381_G2Type',
    'option': f'{T}.option.OptionType', 'pair': f'{T}.pair.PairType', 'or': f'{T}.sum.OrType', 'list': f'{T}.list.ListType',
    'set': f'{T}.set.SetType', 'map': f'{T}.map.MapType', 'big_map': f'{T}.big_map.BigMapType', 'ticket': f'{T}.ticket.TicketType',
    'address': f'{T}.domain.AddressType', 'key': f'{T}.domain.KeyType', 'key_hash': f'{T}.domain.KeyHashType',
    'signature': f'{T}.domain.SignatureType', 'chain_id': f'{T}.domain.ChainIdType', 'contract': f'{T}.domain.ContractType',
    'lambda': f'{T}.domain.LambdaType', 'operation': f'{T}.operation.OperationType', 'never': f'{T}.core.NeverType',
}
RANGE = {'nat': (0, INF), 'mutez': (0, M63 - 1), 'int': (INF, INF), 'timestamp': (INF, INF), 'bls12_381_fr': (INF, INF)}


def val(prim: str, name: str) -> Obj:
    """Abstract value of a simple type: payload is the symbol `name`."""
    o = Obj(TYPECLS[prim], {'value': Sym(name, meta_prim=prim)}, tag=name)
    return o


def prim_of(repo: Repo, cls: str) -> Optional[str]:
    for c in repo.mro(cls):
        p = repo.class_keyword(c, 'prim')
        if p is not None:
            return p
    return None


# ------------------------------------------------------------------------------------------------ interval lemma
def rng(t: Any, conds: List[Tuple[Any, bool]]) -> Tuple[Optional[int], Optional[int]]:
    """Interval of an integer term (None = unbounded)."""
    if isinstance(t, bool):
        return (int(t), int(t))
    if isinstance(t, int):
        return (t, t)
    if isinstance(t, Sym):
        p = t.meta.get('meta_prim')
        return RANGE.get(p, (INF, INF))
    if isinstance(t, App):
        if t.op == 'abs':
            return (0, INF)
        if t.op == 'op:Add':
            a, b = rng(t.args[0], conds), rng(t.args[1], conds)
            return (None if a[0] is None or b[0] is None else a[0] + b[0], None if a[1] is None or b[1] is None else a[1] + b[1])
        if t.op == 'op:Sub':
            a, b = rng(t.args[0], conds), rng(t.args[1], conds)
            lo = None if a[0] is None or b[1] is None else a[0] - b[1]
            hi = None if a[1] is None or b[0] is None else a[1] - b[0]
            # path knowledge  x >= y  /  not (x < y)
            for c, bv in conds:
                if isinstance(c, App) and len(c.args) == 2:
                    x, y = c.args
                    same = vkey(x) == vkey(t.args[0]) and vkey(y) == vkey(t.args[1])
                    swapped = vkey(y) == vkey(t.args[0]) and vkey(x) == vkey(t.args[1])
                    if same and ((c.op == '>=' and bv) or (c.op == '<' and not bv)):
                        lo = 0 if lo is None else max(lo, 0)
                    if same and ((c.op == '>' and bv) or (c.op == '<=' and not bv)):
                        lo = 1 if lo is None else max(lo, 1)
                    if swapped and ((c.op == '<=' and bv) or (c.op == '>' and not bv)):
                        lo = 0 if lo is None else max(lo, 0)
                    if swapped and ((c.op == '<' and bv) or (c.op == '>=' and not bv)):
                        lo = 1 if lo is None else max(lo, 1)
            return (lo, hi)
        if t.op == 'op:Mult':
            a, b = rng(t.args[0], conds), rng(t.args[1], conds)
            if a[0] is not None and a[0] >= 0 and b[0] is not None and b[0] >= 0:
                return (a[0] * b[0], None if a[1] is None or b[1] is None else a[1] * b[1])
            return (INF, INF)
        if t.op in ('op:LShift', 'op:RShift', 'op:BitAnd', 'op:BitOr', 'op:BitXor'):
            a, b = rng(t.args[0], conds), rng(t.args[1], conds)
            if a[0] is not None and a[0] >= 0 and b[0] is not None and b[0] >= 0:
                return (0, INF)
            if t.op == 'op:BitAnd' and ((a[0] is not None and a[0] >= 0) or (b[0] is not None and b[0] >= 0)):
                return (0, INF)  # and with a non-negative number is non-negative
            return (INF, INF)
        if t.op == 'uUSub':
            a = rng(t.args[0], conds)
            return (None if a[1] is None else -a[1], None if a[0] is None else -a[0])
        if t.op == 'len':
            return (0, INF)
        if t.op == 'call:int.from_bytes':
            signed = any(isinstance(a, App) and a.op == 'kw' and a.args[0] == 'signed' and a.args[1] is True for a in t.args)
            return (INF, INF) if signed else (0, INF)
        if t.op == 'int' and len(t.args) == 1:
            return rng(t.args[0], conds)
        # a term compared on the path
        for c, bv in conds:
            if isinstance(c, App) and c.op == '>=' and bv and vkey(c.args[0]) == vkey(t) and isinstance(c.args[1], int):
                return (c.args[1], INF)
    # refine a plain symbol by path conditions  t >= k
    return (INF, INF)


def refine(t: Any, conds, r):
    lo, hi = r
    for c, bv in conds:
        if isinstance(c, App) and len(c.args) == 2 and vkey(c.args[0]) == vkey(t) and isinstance(c.args[1], int):
            k = c.args[1]
            if (c.op == '>=' and bv) or (c.op == '<' and not bv):
                lo = k if lo is None else max(lo, k)
            if (c.op == '<' and bv) or (c.op == '>=' and not bv):
                hi = k - 1 if hi is None else min(hi, k - 1)
    return lo, hi


def _has_divmod(t: Any) -> bool:
    if isinstance(t, App):
        return t.op in ('div', 'mod') or any(_has_divmod(a) for a in t.args)
    return False


class InstrHooks(Hooks):
    def __init__(self, repo: Repo, cls_args: Optional[Dict[str, Any]] = None, inline_types: bool = False):
        self.repo = repo
        self.cls_args = cls_args or {}
        self.inline_types = inline_types

    # which repo functions are interpreted
    def inline(self, it, fi):
        m = fi.module.name
        if m.startswith('pytezos.michelson.instructions.') and fi.name not in ('format_stdout',):
            return True
        if fi.cls is not None and fi.cls.qualname == STACK:
            return True
        if fi.cls is not None and fi.name in ('__int__', '__bool__', '__bytes__', '__len__', '__str__', '__iter__') and m.startswith(T):
            return True
        if self.inline_types and m.startswith(T):
            return True
        return False

    def is_type_cls(self, c) -> bool:
        return isinstance(c, ClassRef) and self.repo.is_subclass(c.qual, f'{T}.base.MichelsonType')

    def is_instr_cls(self, c) -> bool:
        return isinstance(c, ClassRef) and self.repo.is_subclass(c.qual, 'pytezos.michelson.instructions.base.MichelsonInstruction')

    def attr(self, it, obj, name, node):
        if self.is_instr_cls(obj) and name in self.cls_args:
            return self.cls_args[name]
        if isinstance(obj, Obj) and name == 'prim':
            return prim_of(self.repo, obj.cls)
        return NotImplemented

    def from_value(self, it, cls: str, v: Any, node) -> Any:
        prim = prim_of(self.repo, cls)
        it.event('from_value', prim, v)
        if prim in ('nat', 'mutez') and not _has_divmod(v):
            lo, hi = refine(v, it.conds, rng(v, it.conds))
            causes = []
            if lo is None or lo < 0:
                causes.append('negative')
            if prim == 'mutez' and (hi is None or hi >= M63):
                causes.append('overflow')
            for cause in causes:
                if it.choose(2) == 1:
                    it.event('fails', prim, cause)
                    # MichelsonType methods are wrapped by ErrorTrace: the exception class seen by the caller
                    raise Raised(ExcVal(MRE, ('AssertionError' if cause == 'negative' else 'OverflowError', cause)))
        return Obj(cls, {'value': v}, tag='new')

    def call(self, it, callee, args, kwargs, node):
        if isinstance(callee, FuncRef) and callee.fi is not None:
            fi = callee.fi
            n = fi.name
            if n == 'format_stdout':
                return 'stdout'
            if fi.cls is not None and fi.module.name.startswith(T) or (fi.cls is not None and fi.cls.qualname.endswith('micheline.Micheline')):
                recv = callee.self_val
                if n in ('assert_type_equal', 'assert_type_in'):
                    it.event('type-check', n, recv, args)
                    # decidable for simple (argument-less) types: compare primitives
                    rc = recv.cls if isinstance(recv, Obj) else (recv.qual if isinstance(recv, ClassRef) else None)
                    if rc is not None and args and all(isinstance(a, ClassRef) for a in args):
                        rp = prim_of(self.repo, rc)
                        aps = [prim_of(self.repo, a.qual) for a in args]
                        simple = rp in RANGE or rp in ('bool', 'bytes', 'string', 'unit')
                        if simple and all(ap is not None for ap in aps) and rp not in aps:
                            raise Raised(ExcVal(MRE, ('AssertionError', f'type mismatch {rp} vs {aps}')))
                    return None
                if n == 'from_value' and isinstance(recv, ClassRef) and not self.inline_types:
                    return self.from_value(it, recv.qual, args[0] if args else kwargs.get('value'), node)
                if n in ('__int__', '__bool__', '__bytes__', '__len__', '__str__', '__iter__'):
                    return NotImplemented
                if not self.inline_types:
                    it.event('type-call', n, recv, args, dict(kwargs))
                    return App(f'{fi.cls.name}.{n}', *([recv] if recv is not None else []), *args, *[App('kw', k, v) for k, v in sorted(kwargs.items())])
        if self.is_instr_cls(callee):
            return Obj(callee.qual, dict(kwargs, _args=tuple(args)), tag='instr')
        if self.is_type_cls(callee) and not self.inline_types:
            it.event('construct', callee.qual, args, kwargs)
            f = dict(kwargs)
            if args:
                f['value'] = args[0]
            return Obj(callee.qual, f, tag='new')
        if isinstance(callee, Builtin) and callee.name == 'int.from_bytes':
            return App('call:int.from_bytes', *args, *[App('kw', k, v) for k, v in sorted(kwargs.items())])
        if isinstance(callee, Builtin) and callee.name == 'divmod':
            return (App('div', *args), App('mod', *args))
        if isinstance(callee, ModRef) and callee.name.startswith('py_ecc.'):
            return App('call:' + callee.name, *args)
        return NotImplemented


def mk_stack(items: List[Any]) -> Obj:
    return Obj(STACK, {'items': list(items), 'protected': 0})


def run_instruction(repo: Repo, cls_qual: str, stack_items: List[Any], hooks: Optional[InstrHooks] = None, context: Any = None,
                    max_depth: int = 8, max_paths: int = 5000, wrap: bool = False):
    """Interpret <cls>.execute(stack, stdout, context) on an abstract stack.  Returns PathResults whose `value` is the final
    stack content (list) and whose events include pushes/pops as performed by the real stack methods."""
    fi = repo.find_method(cls_qual, 'execute')
    if fi is None:
        raise AnalysisError(f'{cls_qual} has no execute')
    hooks = hooks or InstrHooks(repo)
    it = Interp(repo, hooks, max_depth=max_depth, max_paths=max_paths)
    it.wrap_errortrace = wrap
    it.max_recursion = 3

    def go(i):
        st = mk_stack(stack_items)
        out: List[Any] = []
        ctx = context if context is not None else Sym('context')
        r = i.call_function(FuncRef(fi, ClassRef(cls_qual), True), [st, out, ctx], {}, None, force_inline=True)
        return {'stack': list(st.fields['items']), 'protected': st.fields['protected'], 'result': r}

    return it.run_paths(go)
