"""Input matrix for the typed abstract execution of instructions (shared by C01 and C02) and the comparison with the reference semantics.

A value spec is built with the helpers below; `to_obj` makes the abstract value handed to the repo's code, `to_ref` the (shape, type) pair
handed to the checker's own semantics.  Types may carry annotations on the repo side (the reference is annotation-blind).
"""
from __future__ import annotations

from typing import Any, Dict, Iterator, List, Optional, Tuple

from .absint import App, Obj, PathResult, Sym, vrepr
from .execmodel import Body, IntLit, TCls, leaf, run_typed, t, tshape, vshape, vtype
from .instrmodel import TYPECLS, T
from .model import AnalysisError, Repo
from .refsem import RBody, V, outcomes

UNDEF = f'{T}.base.undefined'


# ------------------------------------------------------------------------------------------------------------------ specs
def L(prim: str, name: str, f: Optional[str] = None):
    return ('leaf', prim, name, f)


def P(a, b, f: Optional[str] = None, n: Optional[str] = None):
    return ('pair', a, b, f, n)


def Left(x, other):
    return ('left', x, other)


def Right(other, x):
    return ('right', other, x)


def Some(x):
    return ('some', x)


def Non(ty):
    return ('none', ty)


def Lst(ty, *xs):
    return ('list', ty, xs)


def Mp(kt, vt, *kvs):
    return ('map', kt, vt, kvs)


def Lam(a, b, body):
    return ('lambda', a, b, body)


def B(name: str, pops: int, pushes: List[Any], script: Optional[List[List[Any]]] = None):
    return ('body', name, pops, pushes, script)


def ty_of(spec) -> TCls:
    k = spec[0]
    if k == 'leaf':
        return TCls(spec[1], [], spec[3])
    if k == 'pair':
        return TCls('pair', [ty_of(spec[1]), ty_of(spec[2])], spec[3], spec[4])
    if k == 'left':
        return TCls('or', [ty_of(spec[1]), tcls(spec[2])])
    if k == 'right':
        return TCls('or', [tcls(spec[1]), ty_of(spec[2])])
    if k == 'some':
        return TCls('option', [ty_of(spec[1])])
    if k == 'none':
        return TCls('option', [tcls(spec[1])])
    if k == 'list':
        return TCls('list', [tcls(spec[1])])
    if k == 'map':
        return TCls('map', [tcls(spec[1]), tcls(spec[2])])
    if k == 'lambda':
        return TCls('lambda', [tcls(spec[1]), tcls(spec[2])])
    raise AnalysisError(f'bad value spec {spec!r}')


def tcls(ty) -> TCls:
    """type spec: 'nat' | ('pair', a, b) | TCls"""
    if isinstance(ty, TCls):
        return ty
    if isinstance(ty, str):
        return TCls(ty, [])
    return TCls(ty[0], [tcls(a) for a in ty[1:]])


def to_obj(spec, undefined: Obj) -> Any:
    k = spec[0]
    tc = ty_of(spec)
    if k == 'leaf':
        o = leaf(spec[1], spec[2])
        o.fields['_t'] = tc
        return o
    q = TYPECLS[tc.prim]
    if k == 'pair':
        return Obj(q, {'items': (to_obj(spec[1], undefined), to_obj(spec[2], undefined)), '_t': tc}, tag='pair')
    if k == 'left':
        return Obj(q, {'items': (to_obj(spec[1], undefined), undefined), '_t': tc}, tag='or')
    if k == 'right':
        return Obj(q, {'items': (undefined, to_obj(spec[2], undefined)), '_t': tc}, tag='or')
    if k == 'some':
        return Obj(q, {'item': to_obj(spec[1], undefined), '_t': tc}, tag='option')
    if k == 'none':
        return Obj(q, {'item': None, '_t': tc}, tag='option')
    if k == 'list':
        return Obj(q, {'items': [to_obj(x, undefined) for x in spec[2]], '_t': tc}, tag='list')
    if k == 'map':
        return Obj(q, {'items': [(to_obj(a, undefined), to_obj(b, undefined)) for a, b in spec[3]], '_t': tc}, tag='map')
    if k == 'lambda':
        return Obj(q, {'value': to_body(spec[3], undefined), '_t': tc}, tag='lambda')
    raise AnalysisError(f'bad value spec {spec!r}')


def to_ref(spec) -> V:
    k = spec[0]
    ts = tshape(ty_of(spec))
    if k == 'leaf':
        return (('leaf', 'Unit' if spec[1] == 'unit' else '$' + spec[2]), ts)
    if k == 'pair':
        return (('Pair', to_ref(spec[1])[0], to_ref(spec[2])[0]), ts)
    if k == 'left':
        return (('Left', to_ref(spec[1])[0]), ts)
    if k == 'right':
        return (('Right', to_ref(spec[2])[0]), ts)
    if k == 'some':
        return (('Some', to_ref(spec[1])[0]), ts)
    if k == 'none':
        return (('None',), ts)
    if k == 'list':
        return (('List',) + tuple(to_ref(x)[0] for x in spec[2]), ts)
    if k == 'map':
        return (('Map',) + tuple((to_ref(a)[0], to_ref(b)[0]) for a, b in spec[3]), ts)
    if k == 'lambda':
        return (('Lambda', to_rbody(spec[3])), ts)  # the body object itself: EXEC runs it
    raise AnalysisError(f'bad value spec {spec!r}')


def to_body(b, undefined: Obj) -> Body:
    _, name, pops, pushes, script = b
    body = Body(name, pops, [tcls(x) for x in pushes])
    body.script = [[to_obj(x, undefined) for x in call] for call in script] if script else None  # type: ignore[attr-defined]
    return body


def to_rbody(b) -> RBody:
    _, name, pops, pushes, script = b
    return RBody(name, pops, [tshape(tcls(x)) for x in pushes], [[to_ref(x) for x in call] for call in script] if script else None)


# ------------------------------------------------------------------------------------------------------------------ the matrix
def cases(thorough: bool = False) -> Iterator[Tuple[str, List[Any], List[Any], str]]:
    """(prim, args, stack specs (top first), description).  args: ints, type specs, bodies."""
    if thorough:
        yield from deep_cases()
    a, b, c, d = L('nat', 'a'), L('string', 'b'), L('bytes', 'c'), L('int', 'd')
    z = L('mutez', 'z')  # sentinel below the operands
    fa, fb = L('nat', 'a', f='x'), L('string', 'b', f='y')
    nested = P(P(a, b), P(c, d))
    comb4 = P(a, P(b, P(c, d)))
    comb4a = P(fa, P(fb, P(c, d), f='in2'), n='in1')
    for prim in ('DROP', 'DUP'):
        yield prim, [], [a, z], f'{prim} on a simple value'
        yield prim, [], [nested, z], f'{prim} on a nested pair'
    yield 'SWAP', [], [a, b, z], 'SWAP'
    yield 'SWAP', [], [nested, Some(a), z], 'SWAP of composite values'
    for n in (0, 1, 2, 3):
        yield 'DROP', [n], [a, b, c, z], f'DROP {n}'
        yield 'DIG', [n], [a, b, c, d, z], f'DIG {n}'
        yield 'DUG', [n], [a, b, c, d, z], f'DUG {n}'
    for n in (1, 2, 3):
        yield 'DUP', [n], [a, b, c, z], f'DUP {n}'
    yield 'CAST', ['nat'], [a, z], 'CAST'
    yield 'RENAME', [], [a, z], 'RENAME'
    yield 'UNIT', [], [z], 'UNIT'
    yield 'PAIR', [], [a, b, z], 'PAIR'
    yield 'PAIR', [], [nested, Some(a), z], 'PAIR of composite values'
    yield 'PAIR', [], [fa, fb, z], 'PAIR of annotated values'
    for n in (2, 3, 4):
        yield 'PAIR', [n], [a, b, c, d, z], f'PAIR {n}'
    for v, what in ((P(a, b), 'flat'), (nested, 'nested'), (P(fa, fb, f='p'), 'annotated'), (comb4, 'comb'), (comb4a, 'annotated comb')):
        yield 'UNPAIR', [], [v, z], f'UNPAIR {what}'
        yield 'CAR', [], [v, z], f'CAR {what}'
        yield 'CDR', [], [v, z], f'CDR {what}'
    for v, what in ((comb4, 'comb of 4'), (comb4a, 'annotated comb of 4'), (P(a, P(nested, c)), 'comb of 3 with a pair element')):
        size = 4 if 'of 4' in what else 3
        for n in range(2, size + 1):
            yield 'UNPAIR', [n], [v, z], f'UNPAIR {n} on {what}'
        for n in range(0, 2 * size - 1):
            yield 'GET', [n], [v, z], f'GET {n} on {what}'
            yield 'UPDATE', [n], [L('unit', 'u'), v, z], f'UPDATE {n} on {what}'
    yield 'UPDATE', [2], [P(a, b), comb4, z], 'UPDATE 2 with a pair element'
    # the new component is itself a pair / a comb: at an odd index it replaces ONE component (and stays one), at an even index it is the new tail
    pe, ce = P(L('bool', 'p'), L('timestamp', 'q')), P(L('bool', 'p'), P(L('timestamp', 'q'), L('key_hash', 'r')))
    for n in range(0, 7):
        yield 'UPDATE', [n], [pe, comb4, z], f'UPDATE {n} on comb of 4 with a pair as the new component'
    for n in (1, 3, 4):
        yield 'UPDATE', [n], [ce, comb4, z], f'UPDATE {n} on comb of 4 with a comb of 3 as the new component'
    yield 'UPDATE', [1], [pe, P(a, b), z], 'UPDATE 1 on a flat pair with a pair as the new component'
    yield 'LEFT', ['string'], [a, z], 'LEFT'
    yield 'LEFT', [('pair', 'nat', 'int')], [nested, z], 'LEFT of a pair'
    yield 'RIGHT', ['string'], [a, z], 'RIGHT'
    yield 'SOME', [], [a, z], 'SOME'
    yield 'SOME', [], [nested, z], 'SOME of a pair'
    yield 'NONE', ['nat'], [z], 'NONE'
    yield 'NONE', [('pair', 'nat', 'int')], [z], 'NONE of a pair type'
    yield 'NIL', ['nat'], [z], 'NIL'
    yield 'CONS', [], [a, Lst('nat'), z], 'CONS on the empty list'
    yield 'CONS', [], [a, Lst('nat', L('nat', 'x'), L('nat', 'y')), z], 'CONS'
    yield 'CONS', [], [P(a, b), Lst(('pair', 'nat', 'string'), P(L('nat', 'x'), L('string', 'y'))), z], 'CONS of pairs'
    yield 'FAILWITH', [], [a, z], 'FAILWITH'
    yield 'FAILWITH', [], [nested, z], 'FAILWITH with a pair'
    # ---- control flow
    bt, bf = B('T', 1, ['string']), B('F', 1, ['string'])
    yield 'IF', [bt, bf], [L('bool', 'k'), a, z], 'IF'
    yield 'IF', [B('T', 0, []), B('F', 2, ['nat', 'nat'])], [L('bool', 'k'), a, a, z], 'IF with different branch effects'
    yield 'IF_NONE', [B('N', 0, ['string']), B('S', 1, ['string'])], [Some(a), z], 'IF_NONE on Some'
    yield 'IF_NONE', [B('N', 0, ['string']), B('S', 1, ['string'])], [Non('nat'), z], 'IF_NONE on None'
    yield 'IF_NONE', [B('N', 0, ['string']), B('S', 1, ['string'])], [Some(nested), z], 'IF_NONE on Some pair'
    yield 'IF_LEFT', [B('Lf', 1, ['bytes']), B('Rt', 1, ['bytes'])], [Left(a, 'string'), z], 'IF_LEFT on Left'
    yield 'IF_LEFT', [B('Lf', 1, ['bytes']), B('Rt', 1, ['bytes'])], [Right('nat', b), z], 'IF_LEFT on Right'
    yield 'IF_CONS', [B('C', 2, ['bytes']), B('Nl', 0, ['bytes'])], [Lst('nat', L('nat', 'x'), L('nat', 'y')), z], 'IF_CONS on a list of two'
    yield 'IF_CONS', [B('C', 2, ['bytes']), B('Nl', 0, ['bytes'])], [Lst('nat', L('nat', 'x')), z], 'IF_CONS on a list of one'
    yield 'IF_CONS', [B('C', 2, ['bytes']), B('Nl', 0, ['bytes'])], [Lst('nat'), z], 'IF_CONS on the empty list'
    yield 'LOOP', [B('Bd', 1, ['bool', 'nat'])], [L('bool', 'k'), a, z], 'LOOP'
    yield 'LOOP_LEFT', [B('Bd', 1, [], [[Left(L('nat', 'p'), 'string')], [Right('nat', L('string', 'q'))]])], [Left(a, 'string'), z], 'LOOP_LEFT, two iterations'
    yield 'LOOP_LEFT', [B('Bd', 1, [], [[Right('nat', L('string', 'q'))]])], [Left(a, 'string'), z], 'LOOP_LEFT, one iteration'
    yield 'LOOP_LEFT', [B('Bd', 1, ['nat'])], [Right('nat', b), z], 'LOOP_LEFT, no iteration'
    yield 'ITER', [B('It', 2, ['int'])], [Lst('nat', L('nat', 'x'), L('nat', 'y'), L('nat', 'w')), d, z], 'ITER over a list (accumulator)'
    yield 'ITER', [B('It', 1, [])], [Lst('nat'), z], 'ITER over the empty list'
    yield 'ITER', [B('It', 2, ['int'])], [Mp('nat', 'string', (L('nat', 'k1'), L('string', 'v1')), (L('nat', 'k2'), L('string', 'v2'))), d, z], 'ITER over a map'
    yield 'MAP', [B('Mb', 1, ['string'])], [Lst('nat', L('nat', 'x'), L('nat', 'y')), z], 'MAP over a list'
    yield 'MAP', [B('Mb', 2, ['string', 'int'])], [Lst('nat', L('nat', 'x'), L('nat', 'y')), d, z], 'MAP over a list with an accumulator'
    yield 'MAP', [B('Mb', 1, [('pair', 'nat', 'nat')])], [Lst('nat', L('nat', 'x')), z], 'MAP producing pairs'
    yield 'MAP', [B('Mb', 1, ['bytes'])], [Mp('nat', 'string', (L('nat', 'k1'), L('string', 'v1')), (L('nat', 'k2'), L('string', 'v2'))), z], 'MAP over a map'
    yield 'MAP', [B('Mb', 1, ['bytes'])], [Mp(('pair', 'int', 'int'), 'string', (P(L('int', 'k1'), L('int', 'k2')), L('string', 'v1'))), z], 'MAP over a map with pair keys'
    yield 'MAP', [B('Mb', 1, ['bytes'])], [Mp(('pair', ('pair', 'int', 'nat'), 'int'), 'string', (P(P(L('int', 'k1'), L('nat', 'k0')), L('int', 'k2')), L('string', 'v1'))), z],\
        'MAP over a map with nested pair keys'
    yield 'MAP', [B('Mb', 1, ['string'])], [Lst('nat'), z], 'MAP over the empty list'
    yield 'DIP', [B('Dp', 1, ['int', 'int'])], [a, b, z], 'DIP'
    yield 'DIP', [B('Dp', 2, [])], [a, b, c, z], 'DIP consuming'
    for n in (0, 1, 2):
        yield 'DIP', [n, B('Dp', 1, ['int'])], [a, b, c, z], f'DIP {n}'
    yield 'EXEC', [], [a, Lam('nat', 'string', B('Lb', 1, ['string'])), z], 'EXEC'
    yield 'EXEC', [], [nested, Lam(tcls(ty_of(nested)), ('pair', 'nat', 'nat'), B('Lb', 1, [('pair', 'nat', 'nat')])), z], 'EXEC on pairs'


def deep_cases() -> Iterator[Tuple[str, List[Any], List[Any], str]]:
    """Thorough tier: deeper stacks, longer combs (with every inner annotation pattern), longer collections."""
    import itertools
    z = L('mutez', 'z')
    prims = ['nat', 'string', 'bytes', 'int', 'bool', 'address', 'key_hash']
    vals = [L(p, f'v{i}') for i, p in enumerate(prims)]
    for n in range(0, 7):
        yield 'DIG', [n], vals + [z], f'DIG {n} on 7 values'
        yield 'DUG', [n], vals + [z], f'DUG {n} on 7 values'
        yield 'DROP', [n], vals + [z], f'DROP {n} on 7 values'
        if n >= 1:
            yield 'DUP', [n], vals + [z], f'DUP {n} on 7 values'
        if n >= 2:
            yield 'PAIR', [n], vals + [z], f'PAIR {n} on 7 values'
        for k in (1, 2):
            yield 'DIP', [n, B('Dp', k, ['int'] * (3 - k))], vals + [z], f'DIP {n} with a block popping {k}'
    for size in (5, 6):
        inner = size - 2
        for marks in itertools.product(['', 'f', 'n'], repeat=inner):
            def build(i: int):
                if i == size - 2:
                    node = P(vals[i], vals[i + 1])
                else:
                    node = P(vals[i], build(i + 1))
                if i > 0 and marks[i - 1]:
                    node = ('pair', node[1], node[2], f'x{i}' if marks[i - 1] == 'f' else None, f'y{i}' if marks[i - 1] == 'n' else None)
                return node
            comb = build(0)
            what = f'comb of {size}, inner annotations {"".join(m or "-" for m in marks)}'
            for n in range(2, size + 1):
                yield 'UNPAIR', [n], [comb, z], f'UNPAIR {n} on {what}'
            for n in range(0, 2 * size - 1):
                yield 'GET', [n], [comb, z], f'GET {n} on {what}'
                yield 'UPDATE', [n], [L('unit', 'u'), comb, z], f'UPDATE {n} on {what}'
    xs = [L('nat', f'x{i}') for i in range(4)]
    yield 'MAP', [B('Mb', 2, ['string', 'int'])], [Lst('nat', *xs), L('int', 'acc'), z], 'MAP over a list of 4 with an accumulator'
    yield 'ITER', [B('It', 2, ['int'])], [Lst('nat', *xs), L('int', 'acc'), z], 'ITER over a list of 4'
    kv = [(P(L('int', f'k{i}'), L('nat', f'j{i}')), L('string', f'w{i}')) for i in range(3)]
    yield 'MAP', [B('Mb', 1, ['bytes'])], [Mp(('pair', 'int', 'nat'), 'string', *kv), z], 'MAP over a map of 3 with pair keys'
    yield 'ITER', [B('It', 2, ['int'])], [Mp(('pair', 'int', 'nat'), 'string', *kv), L('int', 'acc'), z], 'ITER over a map of 3 with pair keys'
    yield 'IF_CONS', [B('C', 2, ['bytes']), B('Nl', 0, ['bytes'])], [Lst('nat', *xs), z], 'IF_CONS on a list of four'
    yield 'CONS', [], [L('nat', 'h'), Lst('nat', *xs), z], 'CONS on a list of four'


# ------------------------------------------------------------------------------------------------------------------ running
def find_class(repo: Repo, prim: str, nargs: int) -> Optional[str]:
    base = 'pytezos.michelson.instructions.base.MichelsonInstruction'
    hits = [q for q, ci in repo.classes.items() if q.startswith('pytezos.michelson.instructions.') and repo.is_subclass(q, base)
            and ci.keywords.get('prim') == prim and (ci.keywords.get('args_len') or 0) == nargs]
    return hits[0] if len(hits) == 1 else None


def conv_args(args: List[Any], undefined: Obj) -> Tuple[List[Any], List[Any]]:
    ra, fa = [], []
    for x in args:
        if isinstance(x, int):
            ra.append(IntLit(x))
            fa.append(x)
        elif isinstance(x, tuple) and x and x[0] == 'body':
            ra.append(to_body(x, undefined))
            fa.append(to_rbody(x))
        else:
            ra.append(tcls(x))
            fa.append(tshape(tcls(x)))
    return ra, fa


def norm_repo(res: List[PathResult]) -> List[Dict[str, Any]]:
    out = []
    for p in res:
        trace = [(e[1], tuple(vshape(x) for x in e[2])) for e in p.events if isinstance(e, tuple) and e[0] == 'body']
        dec = [(vrepr(c), bool(b)) for c, b in p.conds]
        if p.outcome == 'return':
            out.append({'kind': 'stack', 'stack': [(vshape(x), vtype(x)) for x in p.value['stack']], 'decisions': dec, 'trace': trace,
                        'protected': p.value['protected'], 'events': p.events})
        elif p.outcome == 'raise':
            out.append({'kind': 'raise', 'exc': vrepr(p.value)[:200], 'decisions': dec, 'trace': trace, 'events': p.events})
        else:
            out.append({'kind': 'truncated', 'decisions': dec, 'trace': trace, 'events': p.events})
    return out


def run_case(repo: Repo, prim: str, args: List[Any], stack: List[Any], unroll: int = 3, protect: int = 0) -> Tuple[Optional[str], List[Dict[str, Any]], List[Dict[str, Any]]]:
    """protect=k: the instruction is run as inside `DIP k { ... }`: k foreign items sit in the protected prefix of the stack.  They must be left
    alone (the normalised outcome drops them and records `prefix_ok`), `protected` must be k again at the end, and the visible part must be
    what the reference semantics gives for the unprotected stack."""
    nargs = len(args)
    q = find_class(repo, prim, nargs)
    if q is None:
        return None, [], []
    undefined = Obj(UNDEF, {}, tag='Undefined')
    ra, fa = conv_args(args, undefined)
    hooks_extra = {'_undefined': undefined}
    guards = [to_obj(L('chain_id', f'dip_guard{i}'), undefined) for i in range(protect)]
    res = run_typed(repo, q, guards + [to_obj(s, undefined) for s in stack], ra, extra=hooks_extra, loop_unroll=unroll, protected=protect)
    ref = outcomes(prim, fa, [to_ref(s) for s in stack], max_choices=unroll + 1)
    got = norm_repo(res)
    if protect:
        gk = [(vshape(g), vtype(g)) for g in guards]
        for o in got:
            if o['kind'] == 'stack':
                o['prefix_ok'] = o['stack'][:protect] == gk and o['protected'] == protect
                o['stack'] = o['stack'][protect:]
                o['protected'] = 0 if o['protected'] == protect else ('left-at', o['protected'])
    return q, got, ref


# ------------------------------------------------------------------------------------------------------------------ level 1 (opaque types)
VARS = {'a': 'nat', 'b': 'string', 'k': 'nat', 'v': 'string', 'ty': 'bytes'}


def parse_type(s: str) -> Any:
    """'option (pair nat nat)' -> ('option', ('pair', ('nat',), ('nat',)))  (type variables instantiated by VARS)"""
    toks = s.replace('(', ' ( ').replace(')', ' ) ').split()
    pos = 0

    def atom():
        nonlocal pos
        tk = toks[pos]
        if tk == '(':
            pos += 1
            r = app()
            assert toks[pos] == ')', s
            pos += 1
            return r
        pos += 1
        return (VARS.get(tk, tk),)

    def app():
        nonlocal pos
        head = toks[pos]
        pos += 1
        args = []
        while pos < len(toks) and toks[pos] != ')':
            args.append(atom())
        return (VARS.get(head, head),) + tuple(args)

    r = app()
    assert pos == len(toks), s
    return r


def ts_to_tcls(ts: Any) -> TCls:
    return TCls(ts[0], [ts_to_tcls(a) for a in ts[1:]])


def opaque_value(ts: Any, name: str, none: bool = False) -> Obj:
    """A value of the type whose leaves are symbols.  Options are Some(...) (or None when `none`), lists have two elements, unions are opaque."""
    tc = ts_to_tcls(ts)
    q = TYPECLS.get(tc.prim, f'{T}.base.MichelsonType')
    if tc.prim == 'pair':
        kids = tuple(opaque_value(a, f'{name}{i}') for i, a in enumerate(ts[1:]))
        return Obj(q, {'items': kids, '_t': tc}, tag=name)
    if tc.prim == 'list':
        return Obj(q, {'items': [opaque_value(ts[1], f'{name}_{i}') for i in range(2)], '_t': tc}, tag=name)
    if tc.prim == 'option':
        return Obj(q, {'item': None if none else opaque_value(ts[1], f'{name}_some'), '_t': tc}, tag=name)
    field = {'or': 'items', 'set': 'items', 'map': 'items', 'big_map': 'items'}.get(tc.prim, 'value')
    return Obj(q, {field: Sym(name, meta_prim=tc.prim), '_t': tc}, tag=name)


class StrLit:
    def __init__(self, s: str):
        self.s = s

    def key(self):
        return ('strlit', self.s)

    def __deepcopy__(self, memo):
        return self


# instruction arguments for level 1 (default: one type argument `ty` per declared argument)
L1_ARGS = {
    'EMIT': lambda: [TCls('nat', [])],
    'SAPLING_EMPTY_STATE': lambda: [IntLit(8)],
    'VIEW': lambda: [StrLit('view'), TCls('bytes', [])],
    'LAMBDA': lambda: [TCls('nat', []), TCls('string', []), Body('Lb', 1, [TCls('string', [])])],
    'LAMBDA_REC': lambda: [TCls('nat', []), TCls('string', []), Body('Lb', 2, [TCls('string', [])])],
    'CONTRACT': lambda: [TCls('nat', [])],
}


def run_l1(repo: Repo, prim: str, nargs: int, ins: List[str], context: Any = None) -> Tuple[Optional[str], List[PathResult], List[Obj]]:
    """Runs the instruction on one stack per variant of its option-typed operands (Some / None); the paths of all variants are returned."""
    q = find_class(repo, prim, nargs)
    if q is None:
        return None, [], []
    sentinels = [opaque_value(('mutez',), 'z0'), opaque_value(('key',), 'z1')]
    types = [parse_type(s) for s in ins]
    opt = [i for i, ts in enumerate(types) if ts[0] == 'option']
    out: List[PathResult] = []
    for mask in range(1 << len(opt)):
        nones = {opt[j] for j in range(len(opt)) if mask >> j & 1}
        items = [opaque_value(ts, f's{i}', none=i in nones) for i, ts in enumerate(types)]
        args: List[Any] = L1_ARGS[prim]() if prim in L1_ARGS else [TCls(VARS['ty'], []) for _ in range(nargs)]
        out += run_typed(repo, q, items + sentinels, args, opaque_types=True, context=context, max_paths=200)
    return q, out, sentinels
