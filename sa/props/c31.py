"""C31 Operation list and payload hashes follow the Tezos Merkle construction.

 1 _reduce_operation_hashes interpreted with opaque leaves for every list length 0..N (N=17 quick, 40 thorough): the result
   TERM (nesting of the hash node H(left, right)) must equal the reference Merkle root: empty -> H(), singleton -> H(x),
   otherwise the full binary tree over the leaves H(x_i) padded to a power of two with copies of the last leaf.
 2 _hash_tuple = blake2b(left || right, digest_size=32).digest(), in that order
 3 block_payload_hash template: predecessor(32) || round as 4 bytes big-endian || operation list hash, Blake2b-256, 'vh'
 4 operation_list_hash / operation_list_list_hash envelopes ('Lo', 'LLo') and the inner reduction
"""
from __future__ import annotations

import os
from typing import Any, List

from ..absint import App, FuncRef, Hooks, Interp, ModRef, Sym, vkey, vrepr
from ..model import AnalysisError, Repo
from ..report import Check

HM = 'pytezos.crypto.hash'


class MerkleHooks(Hooks):
    def inline(self, it, fi):
        return fi.module.name == HM and fi.name != '_hash_tuple'

    def call(self, it, callee, args, kwargs, node):
        if isinstance(callee, FuncRef) and callee.fi is not None and callee.fi.qualname == f'{HM}._hash_tuple':
            a = list(args) + [b''] * (2 - len(args))
            return App('H', a[0], a[1])
        if isinstance(callee, FuncRef) and callee.fi is not None and callee.fi.name == 'base58_decode':
            src = args[0]
            if isinstance(src, App) and src.op == 'mcall:encode':
                src = src.args[0]
            return App('raw', src)
        if isinstance(callee, FuncRef) and callee.fi is not None and callee.fi.name == 'base58_encode':
            return App('b58', args[0], args[1] if len(args) > 1 else kwargs.get('prefix'))
        if isinstance(callee, ModRef) and callee.name == 'hashlib.blake2b':
            return App('blake2b', args[0] if args else b'', kwargs.get('digest_size'))
        return NotImplemented


def ref_root(leaves: List[Any]) -> Any:
    if not leaves:
        return App('H', b'', b'')
    if len(leaves) == 1:
        return App('H', leaves[0], b'')
    level = [App('H', x, b'') for x in leaves]
    size = 1
    while size < len(level):
        size *= 2
    level = level + [level[-1]] * (size - len(level))
    while len(level) > 1:
        level = [App('H', level[i], level[i + 1]) for i in range(0, len(level), 2)]
    return level[0]


def run(repo: Repo, chk: Check) -> None:
    N = 40 if chk.tier == 'thorough' else 17
    chk.explanation = (
        f'_reduce_operation_hashes is interpreted with opaque leaves for every list length 0..{N}; the resulting hash-tree term is '
        'compared with the reference Merkle root (leaves padded to a power of two with copies of the last leaf).  The envelope '
        'functions are reduced to templates.  Bounded in the list length; Blake2b itself is opaque.'
    )
    chk.assumptions.append(f'list lengths above {N} follow the same index arithmetic (bounded check)')
    rf = repo.func(f'{HM}._reduce_operation_hashes')
    chk.set_clause('C31.1')
    for n in range(0, N + 1):
        leaves = [Sym(f'x{i}', 'bytes') for i in range(n)]
        it = Interp(repo, MerkleHooks(), max_depth=40)
        it.max_recursion = 12
        res = it.run_function(rf, [leaves])
        want = ref_root(leaves)
        ok = len(res) == 1 and res[0].outcome == 'return' and vkey(res[0].value) == vkey(want)
        got = vrepr(res[0].value) if res else None
        chk.ob('R-TEMPLATE', rf.qualname, ok, f'Merkle root of {n} leaves', rf.loc,
               {'got': (got or '')[:300], 'want': vrepr(want)[:300]} if not ok or n <= 3 else {'nodes': vrepr(want).count('H(')},
               what=f'the tree built for {n} operation hashes is not the Tezos Merkle tree (padding with the last leaf to a power of two)')
    chk.note('max_leaves', N)
    chk.exhaustive = False

    chk.set_clause('C31.2')
    ht = repo.func(f'{HM}._hash_tuple')
    res = Interp(repo, MerkleHooks(), max_depth=1).run_function(ht, [Sym('l', 'bytes'), Sym('r', 'bytes')])
    want = App('mcall:digest', App('blake2b', App('cat', Sym('l'), Sym('r')), 32))
    alt = App('mcall:digest', App('blake2b', App('op:Add', Sym('l'), Sym('r')), 32))
    ok = len(res) == 1 and vkey(res[0].value) in (vkey(want), vkey(alt))
    chk.ob('R-TEMPLATE', ht.qualname, ok, 'blake2b-256 of left || right', ht.loc, {'got': vrepr(res[0].value) if res else None},
           what='the Merkle node hash is not Blake2b-256 over left followed by right')
    d = ht.node.args.defaults
    chk.ob('R-TEMPLATE', ht.qualname, len(d) == 2 and all(getattr(x, 'value', None) == b'' for x in d), 'missing operands default to the empty string', ht.loc,
           what='the empty-list / singleton hashes are not taken over the empty string / the bare element')

    chk.set_clause('C31.3')
    bp = repo.func(f'{HM}.block_payload_hash')
    _it = Interp(repo, MerkleHooks(), max_depth=12)
    _it.max_recursion = 12
    res = _it.run_function(bp, [Sym('pred', 'str'), Sym('round', 'int'), [Sym('o0', 'str'), Sym('o1', 'str')]])
    root = ref_root([App('raw', Sym('o0')), App('raw', Sym('o1'))])
    payload = App('cat', App('raw', Sym('pred')), App('mcall:to_bytes', Sym('round'), 4, 'big'), root)
    want = App('mcall:decode', App('b58', App('mcall:digest', App('blake2b', payload, 32)), b'vh'))
    ok = len(res) == 1 and vkey(res[0].value) == vkey(want)
    chk.ob('R-TEMPLATE', bp.qualname, ok, "vh(blake2b-256(predecessor || round:int32 BE || operations root))", bp.loc,
           {'got': vrepr(res[0].value)[:400] if res else None, 'want': vrepr(want)[:400]},
           what='block payload hash is not Blake2b-256 over predecessor, 4-byte big-endian round and the operation list hash')

    chk.set_clause('C31.4')
    ol = repo.func(f'{HM}.operation_list_hash')
    _it = Interp(repo, MerkleHooks(), max_depth=12)
    _it.max_recursion = 12
    res = _it.run_function(ol, [[Sym('o0', 'str'), Sym('o1', 'str'), Sym('o2', 'str')]])
    want = App('mcall:decode', App('b58', ref_root([App('raw', Sym(f'o{i}')) for i in range(3)]), b'Lo'))
    chk.ob('R-TEMPLATE', ol.qualname, len(res) == 1 and vkey(res[0].value) == vkey(want), "Lo(root of the decoded operation hashes)", ol.loc,
           {'got': vrepr(res[0].value)[:300] if res else None}, what='operation_list_hash is not the Lo-encoded Merkle root of the decoded hashes')
    # a list may name the same operation hash more than once: every occurrence is a leaf (nothing is de-duplicated or re-ordered on the way)
    _it = Interp(repo, MerkleHooks(), max_depth=12)
    _it.max_recursion = 12
    dup = [Sym('o0', 'str'), Sym('o1', 'str'), Sym('o0', 'str'), Sym('o2', 'str')]
    res = _it.run_function(ol, [list(dup)])
    want = App('mcall:decode', App('b58', ref_root([App('raw', Sym(x.name)) for x in dup]), b'Lo'))
    chk.ob('R-TEMPLATE', ol.qualname, len(res) == 1 and vkey(res[0].value) == vkey(want), 'a repeated operation hash is a leaf at each of its positions', ol.loc,
           {'got': vrepr(res[0].value)[:300] if res else None, 'want': vrepr(want)[:300]},
           what='operation_list_hash of [h0, h1, h0, h2] is not the Merkle root over those four leaves in that order (duplicates dropped or order changed)')
    oll = repo.func(f'{HM}.operation_list_list_hash')
    _it = Interp(repo, _LLHooks(), max_depth=12)
    _it.max_recursion = 12
    res = _it.run_function(oll, [[Sym('l0'), Sym('l1')]])
    want = App('mcall:decode', App('b58', ref_root([App('raw', App('olh', Sym('l0'))), App('raw', App('olh', Sym('l1')))]), b'LLo'))
    chk.ob('R-TEMPLATE', oll.qualname, len(res) == 1 and vkey(res[0].value) == vkey(want), "LLo(root of the Lo hashes of the inner lists)", oll.loc,
           {'got': vrepr(res[0].value)[:300] if res else None}, what='operation_list_list_hash does not reduce the list hashes of the inner lists')

    # ---- memory across calls (shared rule, sa/statelint.py) ----------------------------------------------------------------------------------
    chk.set_clause('C31.M')
    from ..statelint import check_memory
    check_memory(repo, chk, ['pytezos.crypto.hash.'],
                 'the hash returned is the one of an earlier operation list')


class _LLHooks(MerkleHooks):
    def call(self, it, callee, args, kwargs, node):
        if isinstance(callee, FuncRef) and callee.fi is not None and callee.fi.name == 'operation_list_hash':
            return App('olh', args[0])
        return super().call(it, callee, args, kwargs, node)


def controls(chk: Check) -> None:
    x = [Sym('a'), Sym('b'), Sym('c')]
    r = ref_root(x)
    la, lb, lc = (App('H', s, b'') for s in x)
    if vkey(r) != vkey(App('H', App('H', la, lb), App('H', lc, lc))):
        raise AnalysisError('reference Merkle root control failed')
