"""C29 Chain-history search reports exactly the state changes (structural clauses).

 1 R-FMT   every `'..%s..' % x` and every logging call in rpc/search.py has as many operands as conversions
 2 range coverage: find_state_change_intervals, interpreted for several concrete (head, last, step) with opaque values and
   forking comparisons, probes head and a level <= last, and on every path yields exactly the adjacent probe pairs whose values
   differ, as (upper level, upper value, lower level, lower value)
 3 bisection: find_state_change on concrete ranges with forking comparisons returns a level L in (last, head] such that every
   probed level < L compared equal to the start value and every probed level >= L compared different; it terminates
 4 walk / find_state_changes: changes are chained from the interval tail; report order across intervals
"""
from __future__ import annotations

import ast
import re
from typing import Any, Dict, List

from ..absint import App, FuncRef, Hooks, Interp, Sym, vrepr
from ..model import AnalysisError, Repo, dotted, norm
from ..report import Check

S = 'pytezos.rpc.search'
CONV = re.compile(r'%(?:\([^)]*\))?[#0\- +]*(?:\*|\d+)?(?:\.(?:\*|\d+))?[hlL]?([diouxXeEfFgGcrsa%])')


def conversions(fmt: str) -> int:
    return sum(1 for m in CONV.finditer(fmt) if m.group(1) != '%')


def fmt_sites(repo: Repo, fi) -> List[Any]:
    """(kind, line, conversions, operands, text) for % formatting and logging calls in a function."""
    out = []
    inside_logging = set()
    for n in ast.walk(fi.node):
        if isinstance(n, ast.Call) and isinstance(n.func, ast.Attribute) and n.func.attr in ('debug', 'info', 'warning', 'error', 'critical') \
                and n.args and isinstance(n.args[0], ast.BinOp) and len(n.args) > 1:
            inside_logging.add(id(n.args[0]))
    for n in ast.walk(fi.node):
        if id(n) in inside_logging:
            continue
        if isinstance(n, ast.BinOp) and isinstance(n.op, ast.Mod) and isinstance(n.left, ast.Constant) and isinstance(n.left.value, str):
            k = conversions(n.left.value)
            r = n.right
            if isinstance(r, ast.Tuple):
                ops = len(r.elts)
            elif isinstance(r, ast.Dict):
                ops = k
            elif isinstance(r, ast.Name):
                # a name bound once to a tuple display in this function
                ops = 1
                binds = [a.value for a in ast.walk(fi.node) if isinstance(a, ast.Assign)
                         and any(isinstance(t, ast.Name) and t.id == r.id for t in a.targets)]
                if len(binds) == 1 and isinstance(binds[0], ast.Tuple):
                    ops = len(binds[0].elts)
            else:
                ops = 1
            out.append(('percent', n.lineno, k, ops, norm(n)[:90]))
        if isinstance(n, ast.Call) and isinstance(n.func, ast.Attribute) and n.func.attr in ('debug', 'info', 'warning', 'error', 'critical', 'exception') \
                and dotted(n.func.value) in ('logger', 'logging', '_logger', 'log'):
            if n.args and isinstance(n.args[0], ast.Constant) and isinstance(n.args[0].value, str):
                k = conversions(n.args[0].value)
                out.append(('logging', n.lineno, k, len(n.args) - 1, norm(n)[:90]))
            elif n.args and isinstance(n.args[0], ast.BinOp) and isinstance(n.args[0].op, ast.Mod) and len(n.args) > 1:
                # '%s %s' % a, b  -> the format result is used as a format string again with extra args
                inner = n.args[0]
                if isinstance(inner.left, ast.Constant) and isinstance(inner.left.value, str):
                    out.append(('logging-after-percent', n.lineno, conversions(inner.left.value), 1, norm(n)[:90]))
    return out


class SearchHooks(Hooks):
    def __init__(self, inline_names):
        self.inline_names = inline_names
        self.k = 0
        self.nfound = 0

    def reset(self, it):
        self.k = 0
        self.nfound = 0

    def inline(self, it, fi):
        return fi.module.name == S and fi.name in self.inline_names

    def name(self, it, name, node):
        if name == 'logger':
            return Sym('logger')
        return NotImplemented

    def call(self, it, callee, args, kwargs, node):
        if isinstance(callee, Sym) and callee.name == 'get':
            it.event('get', args[0])
            return App('val', args[0])
        if isinstance(callee, Sym) and callee.name == 'equals':
            self.k += 1
            return App('eq', args[0], args[1], self.k)  # decided (forked) where it is used; the serial keeps re-evaluations apart
        if isinstance(callee, App) and callee.op == 'attr' and isinstance(callee.args[0], Sym) and callee.args[0].name == 'logger':
            return None
        if isinstance(callee, FuncRef) and callee.fi is not None and callee.fi.module.name == S and callee.fi.name not in self.inline_names:
            it.event('call', callee.fi.name, args, kwargs)
            if callee.fi.name == 'find_state_change':
                self.nfound += 1
                return (Sym(f'L{self.nfound}', 'int'), Sym(f'V{self.nfound}'))
            if callee.fi.name == 'find_state_change_intervals':
                return [(Sym('h1'), Sym('hv1'), Sym('t1'), Sym('lv1')), (Sym('h2'), Sym('hv2'), Sym('t2'), Sym('lv2'))]
            if callee.fi.name == 'walk_state_change_interval':
                return [App('changes-in', kwargs.get('head', args[0] if args else None), kwargs.get('last', args[1] if len(args) > 1 else None))]
        return NotImplemented

    def binop(self, it, op, a, b, node):
        if op == 'Mod' and isinstance(a, str):
            return App('fmt')
        return NotImplemented


def run(repo: Repo, chk: Check) -> None:
    chk.explanation = (
        'Format/logging arity is decided syntactically for every site of rpc/search.py.  The three search functions are '
        'interpreted on small concrete ranges with opaque values and forking comparisons: probe coverage of the range, exact '
        'correspondence between differing adjacent probes and reported intervals, the bisection invariant and termination, and '
        'the chaining of changes are checked on every path.  Bounded over the sampled (head, last, step) shapes; exactness over '
        'all histories is not decided.'
    )
    mi = repo.module(S)
    # ---- 1 format arity -------------------------------------------------------------------------------------------
    chk.set_clause('C29.1')
    nsites = 0
    for fi in repo.iter_functions(S + '.'):
        for kind, line, k, ops, text in fmt_sites(repo, fi):
            nsites += 1
            if kind == 'logging-after-percent':
                ok = k <= 1
                what = f'`%` is applied to one operand with {k} conversions and the remaining values are passed as logging args: raises TypeError on every call'
            elif kind == 'percent':
                ok = (k == ops) or (k <= 1 and ops == 1)
                what = f'format string has {k} conversions, {ops} operand(s) given: raises TypeError'
            else:
                ok = k == ops
                what = f'logging format has {k} conversions, {ops} argument(s) given'
            chk.ob('R-FMT', fi.qualname, ok, f'{kind} site #{[s for s in fmt_sites(repo, fi)].index((kind, line, k, ops, text))}: conversions={k} operands={ops}',
                   f'{mi.relpath}:{line}', {'text': text}, what=what)
    chk.minimum('format/logging sites in rpc/search.py', nsites, 5)

    # ---- 2 coverage of find_state_change_intervals ------------------------------------------------------------------
    # ---- 1b the search functions keep no state between calls: "exactly the changes of THIS history" cannot hold if a probe of an earlier search
    #         (another contract, another value) is remembered.  A mutable default argument that the body writes to, or a module-level container the
    #         functions write to, is such a memory.
    chk.set_clause('C29.1')
    smod = repo.module(S)
    module_containers = {n for n, v in smod.assigns.items() if isinstance(v, (ast.Dict, ast.List, ast.Set, ast.DictComp, ast.ListComp)) or
                         (isinstance(v, ast.Call) and dotted(v.func) in ('dict', 'list', 'set', 'defaultdict', 'collections.defaultdict', 'OrderedDict'))}
    nfun = 0
    for fi in repo.iter_functions(S + '.'):
        nfun += 1
        a = fi.node.args
        params = [x.arg for x in a.posonlyargs + a.args]
        defaults = dict(zip(params[len(params) - len(a.defaults):], a.defaults))
        defaults.update({k.arg: d for k, d in zip(a.kwonlyargs, a.kw_defaults) if d is not None})
        mutable = {n for n, d in defaults.items() if isinstance(d, (ast.Dict, ast.List, ast.Set)) or
                   (isinstance(d, ast.Call) and dotted(d.func) in ('dict', 'list', 'set', 'defaultdict', 'collections.defaultdict'))}
        written = set()
        for n in ast.walk(fi.node):
            tgt = None
            if isinstance(n, (ast.Assign, ast.AugAssign, ast.AnnAssign)):
                for t in (n.targets if isinstance(n, ast.Assign) else [n.target]):
                    if isinstance(t, ast.Subscript) and isinstance(t.value, ast.Name):
                        written.add(t.value.id)
            if isinstance(n, ast.Call) and isinstance(n.func, ast.Attribute) and isinstance(n.func.value, ast.Name) and \
                    n.func.attr in ('append', 'extend', 'update', 'setdefault', 'add', 'insert', 'pop', 'clear', 'remove', '__setitem__'):
                written.add(n.func.value.id)
            if isinstance(n, ast.Global):
                written.update(n.names)
        leaks = sorted((mutable | module_containers) & written)
        chk.ob('R-FLOW', fi.qualname, not leaks, 'no memory across calls (mutable default argument / module-level container written by the function)', fi.loc,
               {'mutable_defaults': sorted(mutable), 'written': sorted(written & (mutable | module_containers))},
               what=f'{fi.name} writes to {leaks}, which lives across calls: probes of an earlier search (another history) are served to the next one, which then '
                    'reports changes of the wrong history')
    chk.minimum('search functions examined for state', nfun, 4)

    chk.set_clause('C29.2')
    fi = repo.func(f'{S}.find_state_change_intervals')
    shapes = [(200, 0, 60), (100, 0, 60), (10, 0, 3), (9, 0, 3), (5, 2, 60), (61, 0, 60), (120, 60, 60)]
    for head, last, step in shapes:
        it = Interp(repo, SearchHooks({'find_state_change_intervals'}), max_depth=1, max_paths=4000)
        res = it.run_function(fi, [head, last, Sym('get'), Sym('equals')], {'step': step})
        label = f'head={head} last={last} step={step}'
        bad: List[str] = []
        for p in res:
            if p.outcome != 'return':
                bad.append(f'raises {p.value.cls} under {p.cond_repr()[:80]}')
                continue
            probes = [e[1] for e in p.events if isinstance(e, tuple) and e[0] == 'get']
            eqs = [('equals', c.args[0], c.args[1], b) for c, b in p.conds if isinstance(c, App) and c.op == 'eq']
            if not probes or probes[0] != head:
                bad.append('head is not probed first')
            if not all(isinstance(x, int) for x in probes):
                bad.append('non-concrete probe')
                continue
            if min(probes) > last:
                bad.append(f'lowest probe is {min(probes)} > last={last}: changes in ({last}, {min(probes)}] are never examined')
            if min(probes) < last:
                bad.append(f'lowest probe is {min(probes)} < last={last}: a change at or before the start of the range is reported as a change inside it '
                           '(and a level before the first block may be requested)')
            if probes != sorted(probes, reverse=True) or len(set(probes)) != len(probes):
                bad.append(f'probes not strictly descending: {probes}')
            # expected intervals: adjacent probes whose comparison was False
            want = []
            for (lo, hi), e in zip(zip(probes[1:], probes[:-1]), eqs):
                if e[3] is False:
                    want.append((hi, lo))
            got = []
            for y in (p.value or []):
                if isinstance(y, tuple) and len(y) == 4:
                    got.append((y[0], y[2]))
                    if vrepr(y[3]) != vrepr(App('val', y[2])):
                        bad.append(f'lower value of interval {y[0]}..{y[2]} is {vrepr(y[3])}')
            if got != want:
                bad.append(f'intervals {got} for differing adjacent probes {want}')
            # each comparison is between the value just probed and the value of the most recent change point (or head)
            ref_level = probes[0] if probes else None
            for j, e in enumerate(eqs):
                if j + 1 >= len(probes):
                    break
                if vrepr(e[1]) != vrepr(App('val', probes[j + 1])) or vrepr(e[2]) != vrepr(App('val', ref_level)):
                    bad.append(f'comparison {j} is between {vrepr(e[1])} and {vrepr(e[2])}, expected val({probes[j + 1]}) and val({ref_level})')
                if e[3] is False:
                    ref_level = probes[j + 1]
            if len(eqs) != len(probes) - 1:
                bad.append(f'{len(probes)} probes but {len(eqs)} comparisons')
        bad = sorted(set(bad))
        chk.ob('R-PATH', fi.qualname, not bad, f'coverage and intervals: {label}', fi.loc, {'paths': len(res), 'problems': bad[:4]},
               what=f'{label}: {bad[:2]}')

    # ---- 3 bisection -----------------------------------------------------------------------------------------------
    chk.set_clause('C29.3')
    fb = repo.func(f'{S}.find_state_change')
    for head, last in [(8, 0), (9, 0), (2, 1), (1, 0), (60, 0), (37, 5)]:
        it = Interp(repo, SearchHooks({'find_state_change'}), max_depth=40, max_paths=4000)
        it.max_recursion = 20
        res = it.run_function(fb, [head, last, Sym('get'), Sym('equals')], {'pred_value': Sym('pred')})
        bad = []
        for p in res:
            if p.outcome != 'return' or not (isinstance(p.value, tuple) and len(p.value) == 2):
                bad.append(f'{p.outcome} {vrepr(p.value)[:60]}')
                continue
            L, val = p.value
            if not (isinstance(L, int) and last < L <= head):
                bad.append(f'result level {vrepr(L)} outside ({last}, {head}]')
                continue
            if vrepr(val) != vrepr(App('val', L)):
                bad.append(f'returned value is {vrepr(val)}, not the value at level {L}')
            for e in [('equals', c.args[0], c.args[1], b) for c, b in p.conds if isinstance(c, App) and c.op == 'eq']:
                if True:
                    lvl = e[1].args[0] if isinstance(e[1], App) and e[1].op == 'val' else None
                    if not isinstance(lvl, int) or vrepr(e[2]) != '$pred':
                        bad.append(f'comparison of {vrepr(e[1])} with {vrepr(e[2])}')
                    elif (lvl < L) != e[3]:
                        bad.append(f'level {lvl} compared {"equal" if e[3] else "different"} but result is {L}')
            nprobe = len([e for e in p.events if isinstance(e, tuple) and e[0] == 'get'])
            if nprobe > (head - last).bit_length() + 2:
                bad.append(f'{nprobe} probes for a range of {head - last}')
        bad = sorted(set(bad))
        chk.ob('R-PATH', fb.qualname, not bad and len(res) == head - last, f'bisection invariant on ({last}, {head}]', fb.loc,
               {'paths': len(res), 'problems': bad[:4]}, what=f'bisect over ({last}, {head}]: {bad[:2]} paths={len(res)}')

    # ---- 4 chaining -------------------------------------------------------------------------------------------------
    chk.set_clause('C29.4')
    fw = repo.func(f'{S}.walk_state_change_interval')
    it = Interp(repo, SearchHooks({'walk_state_change_interval'}), max_depth=1, while_bound=3)
    res = it.run_function(fw, [Sym('head'), Sym('last'), Sym('get'), Sym('equals')], {'head_value': Sym('hv'), 'last_value': Sym('lv')})
    bad = []
    for p in res:
        calls = [e for e in p.events if isinstance(e, tuple) and e[0] == 'call' and e[1] == 'find_state_change']
        ys = p.value if isinstance(p.value, list) else []
        prev_level, prev_val = '$last', '$lv'
        for i, c in enumerate(calls):
            a, kw = c[2], c[3]
            head_a = vrepr(a[0]) if a else vrepr(kw.get('head'))
            last_a = vrepr(a[1]) if len(a) > 1 else vrepr(kw.get('last'))
            pv = vrepr(kw.get('pred_value', a[4] if len(a) > 4 else None))
            if head_a != '$head' or last_a != prev_level or pv != prev_val:
                bad.append(f'step {i}: searches ({last_a}, {head_a}] from value {pv}, expected ({prev_level}, $head] from {prev_val}')
            prev_level, prev_val = f'$L{i + 1}', f'$V{i + 1}'
        # values are compared with the caller's `equals` only (the three comparing places agree): a built-in == / != on sampled values decides
        # differently from the caller for every coarser or finer notion of equality
        direct = [vrepr(c) for c, _ in p.conds if isinstance(c, App) and c.op in ('==', '!=', 'is', 'is not') and any(t in vrepr(c) for t in ('$hv', '$lv', '$V'))]
        if direct:
            bad.append(f'compares sampled values directly ({direct[0]}) instead of through equals()')
        if [vrepr(y) for y in ys] != [f'($L{i + 1}, $V{i + 1})' for i in range(len(calls))] and not p.truncated:
            bad.append(f'yields {[vrepr(y) for y in ys]} for {len(calls)} changes found')
    chk.ob('R-PATH', fw.qualname, not bad and len(res) >= 2, 'changes are chained from the interval tail upwards', fw.loc, {'paths': len(res), 'problems': sorted(set(bad))[:3]},
           what=f'walk_state_change_interval: {sorted(set(bad))[:2]}')
    fs = repo.func(f'{S}.find_state_changes')
    res = Interp(repo, SearchHooks({'find_state_changes'}), max_depth=1).run_function(fs, [Sym('head'), Sym('last'), Sym('get'), Sym('equals')])
    ok = len(res) == 1 and isinstance(res[0].value, list) and [vrepr(x) for x in res[0].value] == ['changes-in($h1, $t1)', 'changes-in($h2, $t2)']
    chk.ob('R-PATH', fs.qualname, ok, 'every interval is walked between its own bounds', fs.loc, {'result': [vrepr(x) for x in (res[0].value or [])] if res else None},
           what='an interval is skipped or walked with the wrong bounds')
    # report order across intervals: intervals are produced from head downwards and walked in production order
    it = Interp(repo, SearchHooks({'find_state_change_intervals'}), max_depth=1)
    res = it.run_function(repo.func(f'{S}.find_state_change_intervals'), [200, 0, Sym('get'), Sym('equals')], {'step': 60})
    multi = [p for p in res if isinstance(p.value, list) and len(p.value) >= 2]
    descending = bool(multi) and all(p.value[0][0] > p.value[1][0] for p in multi)
    ascending = bool(multi) and all(p.value[0][0] < p.value[1][0] for p in multi)
    chk.ob('R-ORD', f'{S}.find_state_changes', ascending, 'changes are reported in increasing level order across intervals', fs.loc,
           {'interval_order': 'descending' if descending else 'ascending' if ascending else 'mixed'},
           what='intervals are produced from head downwards and reported in that order: with changes in two intervals the newer change is '
                'reported before the older one (increasing order only holds inside one interval)')


def controls(chk: Check) -> None:
    if conversions('%s -> %s at (%s, {level + step})') != 3 or conversions('100%% %d') != 1:
        raise AnalysisError('conversion counter control failed')
