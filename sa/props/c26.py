"""C26 RPC requests retry exactly the transient node failures.

RpcNode.request is interpreted with every HTTP call returning a fresh opaque response (or raising): all paths through the retry
loop are enumerated.  Per path: number of HTTP calls <= 6; each re-send is justified by `status >= 500`, `transient(res)` on the
response just received; the sleep arguments are non-decreasing and <= 2.0; the value returned is the LAST response under
`status == 200`; the errors raised are built from the last response; an exception of the HTTP call ends the request.
_is_transient_response is reduced to a truth table over its atoms and compared with the reference predicate.
"""
from __future__ import annotations

import ast
import itertools
from typing import Any, Dict, List

from ..absint import ClassRef as ClassRef_, App, ExcVal, FuncRef, Hooks, Interp, ModRef, Obj, Raised, Sym, vrepr
from ..model import AnalysisError, Repo, dotted
from ..report import Check

NODE = 'pytezos.rpc.node'


class LoopHooks(Hooks):
    def __init__(self, http_may_raise=False):
        self.k = 0
        self.http_may_raise = http_may_raise

    def reset(self, it):
        self.k = 0

    def inline(self, it, fi):
        return fi.qualname == f'{NODE}.RpcNode.request'

    def call(self, it, callee, args, kwargs, node):
        if isinstance(callee, ModRef):
            if callee.name == 'requests.request':
                self.k += 1
                it.event('http', self.k)
                if self.http_may_raise and it.choose(2) == 1:
                    raise Raised(ExcVal('requests.exceptions.ConnectionError', (self.k,)))
                return Sym(f'res{self.k}')
            if callee.name == 'time.sleep':
                it.event('sleep', args[0])
                return None
            if callee.name.startswith('json.') or callee.name.startswith('pprint.'):
                return App('fmt')
        if isinstance(callee, App) and callee.op == 'attr' and callee.args[1] in ('debug', 'info', 'warning'):
            return None
        if isinstance(callee, App) and callee.op == 'attr' and callee.args[1] == 'pop' and isinstance(callee.args[0], dict):
            return NotImplemented
        if isinstance(callee, FuncRef) and callee.fi is not None and callee.fi.name == '_is_transient_response':
            return App('transient', args[0])
        if isinstance(callee, FuncRef) and callee.fi is not None and callee.fi.name == '_urljoin':
            return App('url')
        if isinstance(callee, FuncRef) and callee.fi is not None and callee.fi.name == 'from_response':
            return ExcVal(f'{NODE}.RpcError', (App('from_response', args[0]),))
        return NotImplemented

    def name(self, it, name, node):
        if name == 'logger':
            return Sym('logger')
        return NotImplemented


def status_of(res: str):
    return vrepr(App('attr', Sym(res), 'status_code'))


def run(repo: Repo, chk: Check) -> None:
    chk.explanation = (
        'All paths of the retry loop are enumerated by abstract interpretation with opaque responses; the retry decision, the '
        'attempt bound, the delays and the final result are checked per path.  The transient-response predicate is reduced to '
        'a truth table over its atomic tests and compared with the reference table.  Timing is not measured.'
    )
    fi = repo.func(f'{NODE}.RpcNode.request')
    consts = {n: repo.const(f'{NODE}.{n}') for n in ('TRANSIENT_RETRY_ATTEMPTS', 'TRANSIENT_RETRY_INITIAL_DELAY', 'TRANSIENT_RETRY_MAX_DELAY')}
    # the three constants are what the loop reads at call time: nothing else in the package may rebind them (`module.NAME = ...` from another
    # module changes the attempt limit / delays for the whole process)
    foreign = []
    for mi2 in repo.modules.values():
        for n in ast.walk(mi2.tree):
            tgs = n.targets if isinstance(n, ast.Assign) else [n.target] if isinstance(n, (ast.AugAssign, ast.AnnAssign)) else []
            for t in tgs:
                if isinstance(t, ast.Attribute) and t.attr in consts:
                    q = repo.resolve_name(mi2, dotted(t.value) or '?')
                    if q == NODE:
                        foreign.append(f'{mi2.relpath}:{n.lineno} {t.attr}')
            if isinstance(n, ast.Call) and dotted(n.func) == 'setattr' and len(n.args) >= 2 and isinstance(n.args[1], ast.Constant) and n.args[1].value in consts:
                foreign.append(f'{mi2.relpath}:{n.lineno} setattr {n.args[1].value}')
    chk.ob('R-FLOW', NODE, not foreign, 'the retry constants are rebound nowhere in the package', None, {'writers': foreign},
           what=f'{foreign[:2]} rebind the retry constants of pytezos.rpc.node at import time: once that module is loaded the loop makes another number of attempts / other delays than the table says')
    chk.set_clause('C26.1')
    chk.ob('R-GUARD', f'{NODE}.TRANSIENT_RETRY_ATTEMPTS', consts['TRANSIENT_RETRY_ATTEMPTS'] == 6, 'attempts == 6', fi.module.relpath,
           consts, what='at most six attempts are specified')
    chk.ob('R-GUARD', f'{NODE}.TRANSIENT_RETRY_MAX_DELAY', consts['TRANSIENT_RETRY_MAX_DELAY'] == 2.0 and
           0 < consts['TRANSIENT_RETRY_INITIAL_DELAY'] <= consts['TRANSIENT_RETRY_MAX_DELAY'], 'delay cap == 2.0 and initial <= cap',
           fi.module.relpath, consts, what='delays must be capped at two seconds')

    def make():
        return Obj(f'{NODE}.RpcNode', {'uri': [Sym('uri')], 'headers': {}}), [Sym('method'), Sym('path')], {}

    res = Interp(repo, LoopHooks(), max_depth=1, max_paths=5000).run_method(fi, make)
    chk.note('loop_paths', len(res))
    chk.minimum('paths through the retry loop', len(res), 20)
    max_http = 0
    for p in res:
        https = [e[1] for e in p.events if isinstance(e, tuple) and e[0] == 'http']
        sleeps = [e[1] for e in p.events if isinstance(e, tuple) and e[0] == 'sleep']
        n = len(https)
        max_http = max(max_http, n)
        condmap = {vrepr(c): b for c, b in p.conds}
        label = f'path with {n} attempts ending in {p.outcome}'
        ok_bound = 1 <= n <= 6
        # every re-send justified by the previous response
        ok_just = True
        for k in range(1, n):
            ge = condmap.get(vrepr(App('>=', App('attr', Sym(f'res{k}'), 'status_code'), 500)))
            tr = condmap.get(vrepr(App('transient', Sym(f'res{k}'))))
            if not (ge is True and tr is True):
                ok_just = False
        # the last response was NOT retried although fewer than 6 attempts: must be non-5xx or non-transient
        ok_stop = True
        if n < 6:
            ge = condmap.get(vrepr(App('>=', App('attr', Sym(f'res{n}'), 'status_code'), 500)))
            tr = condmap.get(vrepr(App('transient', Sym(f'res{n}'))))
            ok_stop = (ge is False) or (tr is False)
        ok_sleep = len(sleeps) == n - 1 and all(isinstance(s, (int, float)) for s in sleeps) and \
            all(a <= b for a, b in zip(sleeps, sleeps[1:])) and all(0 < s <= 2.0 for s in sleeps)
        last = f'res{n}'
        if p.outcome == 'return':
            ok_res = vrepr(p.value) == f'${last}' and condmap.get(vrepr(App('==', 200, App('attr', Sym(last), 'status_code')))) is not False \
                and (condmap.get(vrepr(App('not', App('==', 200, App('attr', Sym(last), 'status_code'))))) is not True)
            # the success test is `status != 200` being false
            ne = [b for c, b in p.conds if isinstance(c, App) and c.op == '==' and 200 in c.args and last in vrepr(c)]
            ok_res = vrepr(p.value) == f'${last}' and ne == [True]
        else:
            ok_res = p.value.cls == f'{NODE}.RpcError' and all(last in vrepr(a) or 'path' in vrepr(a) for a in p.value.args) \
                and not any(f'res{j}' in vrepr(p.value.args) for j in range(1, n))
        for nm, ok, what in (
            ('attempt bound', ok_bound, 'more than six HTTP requests on one path'),
            ('re-send only after transient 5xx', ok_just, 'a request is sent again although the previous response was not a transient 5xx'),
            ('transient 5xx is retried while attempts remain', ok_stop, 'a transient 5xx response with attempts left is not retried'),
            ('delays non-decreasing and capped', ok_sleep, f'sleep arguments {sleeps} are not one per retry, non-decreasing and <= 2.0'),
            ('result from the last response', ok_res, 'the returned response / raised error is not built from the last response, or a non-200 is returned'),
        ):
            chk.ob('R-PATH', fi.qualname, ok, f'{nm}: attempts={n} outcome={p.outcome} sleeps={sleeps}', fi.loc,
                   {'conds': p.cond_repr()[:400]}, what=what)
    chk.ob('R-PATH', fi.qualname, max_http == 6, 'six attempts are reachable', fi.loc, {'max': max_http},
           what=f'the loop can send at most {max_http} requests, six are specified')
    # exceptions of the HTTP call are not retried
    chk.set_clause('C26.2')
    res2 = Interp(repo, LoopHooks(http_may_raise=True), max_depth=1, max_paths=20000).run_method(fi, make)
    bad = []
    for p in res2:
        ev = [e for e in p.events if isinstance(e, tuple) and e[0] == 'http']
        if p.outcome == 'raise' and p.value.cls.endswith('ConnectionError'):
            if p.value.args[0] != len(ev):
                bad.append(p.cond_repr()[:200])
        elif any(False for _ in ev):
            pass
    raised = [p for p in res2 if p.outcome == 'raise' and p.value.cls.endswith('ConnectionError')]
    chk.ob('R-PATH', fi.qualname, bool(raised) and not bad, 'an exception of the HTTP call ends the request', fi.loc,
           {'paths': len(res2), 'raising': len(raised)}, what='a connection error is swallowed and the request re-sent')

    # ---- the error raised is built from the last response whatever its body -----------------------------------------
    chk.set_clause('C26.6')
    bases, world = json_error_ancestry(repo)
    fr = repo.func(f'{NODE}.RpcError.from_response')
    hooks6 = FromResponseHooks()
    it6 = Interp(repo, hooks6, max_depth=1, max_paths=200)
    it6.external_exc_bases = {JSON_ERR: bases}
    from ..absint import ClassRef
    res6 = it6.run_function(fr, [Sym('res')], self_val=ClassRef(f'{NODE}.RpcError'))
    shapes = {}
    for p in res6:
        shape = tuple(e[1:] for e in p.events if isinstance(e, tuple) and e[0] == 'atom')
        shapes[shape] = p
    chk.minimum('response shapes seen by RpcError.from_response', len(shapes), 3)
    for shape, p in sorted(shapes.items(), key=str):
        is_err = p.outcome == 'return' and ((isinstance(p.value, (ExcVal,)) and p.value.cls.endswith('RpcError')) or (isinstance(p.value, Obj) and p.value.cls.endswith('RpcError'))
                                            or (isinstance(p.value, App) and p.value.op == 'from_errors'))
        chk.ob('R-PATH', fr.qualname, is_err, f'response {dict(shape)}: an RpcError is built from it', fr.loc,
               {'outcome': p.outcome, 'value': vrepr(p.value)[:120], 'json_error_caught_by': world},
               what=f'for a response with {dict(shape)} RpcError.from_response ends with {p.outcome} {vrepr(p.value)[:100]}: the caller does not get the error of the last '
                    f'response (requests raises requests.exceptions.JSONDecodeError from Response.json(); {world})')

    # ---- truth table of _is_transient_response -------------------------------------------------------------------
    chk.set_clause('C26.5')
    tf = repo.func(f'{NODE}._is_transient_response')
    markers = repo.const(f'{NODE}._TRANSIENT_TEXT_MARKERS')
    table_ok = isinstance(markers, (tuple, list, set, frozenset)) and set(markers) == {'prevalidator.ml'}
    chk.ob('R-TABLE', f'{NODE}._TRANSIENT_TEXT_MARKERS', table_ok, 'marker list', tf.module.relpath, {'markers': markers if not isinstance(markers, (set, frozenset)) else sorted(markers)},
           what=f'the table of text markers is {markers!r}, not the one-element collection ("prevalidator.ml",): a bare string is scanned character by character, so '
                'nearly every non-JSON 5xx body counts as transient and is re-sent')
    if not table_ok:
        return
    hooks = TransientHooks()
    itt = Interp(repo, hooks, max_depth=1, max_paths=50000)
    itt.external_exc_bases = {JSON_ERR: bases}
    res = itt.run_function(tf, [Sym('res')])
    chk.minimum('paths of the transient predicate', len(res), 6)
    atoms_seen = set()
    for p in res:
        val: Dict[str, bool] = {}
        for c, b in p.conds:
            a = atom_name(c)
            if a is None:
                raise AnalysisError(f'_is_transient_response: unrecognised atom {vrepr(c)}')
            val[a] = atom_value(c, b)
        for e in p.events:
            if isinstance(e, tuple) and e[0] == 'atom':
                val[e[1]] = e[2]
        atoms_seen |= set(val)
        free = [a for a in ATOMS if a not in val]
        mismatches = []
        for combo in itertools.product((False, True), repeat=len(free)):
            full = dict(val, **dict(zip(free, combo)))
            if not feasible(full):
                continue
            want = reference_transient(full)
            if want is None:
                continue  # don't care
            got = p.value if p.outcome == 'return' else 'raise'
            if got is not want:
                mismatches.append({'valuation': {k: v for k, v in full.items() if v}, 'got': got, 'want': want})
        chk.ob('R-DISPATCH', tf.qualname, p.outcome == 'return' and not mismatches,
               'row ' + ' '.join(f'{k}={"T" if v else "F"}' for k, v in sorted(val.items())), tf.loc,
               {'result': vrepr(p.value), 'mismatch': mismatches[:2]},
               what=f'transient predicate differs from the reference on {mismatches[:1]} (true atoms listed; errN = N-th element of the error list)')
    need = {'json', 'parses', 'list', 'proto0', 'temporary0', 'proto1', 'temporary1', 'marker'}
    chk.require(need <= atoms_seen, f'atoms not all exercised: {sorted(atoms_seen)}')


NERR = 2  # the error list is abstracted to two representative elements: the verdict must not depend on their order
ATOMS = ['json', 'parses', 'list', 'nonempty', 'marker'] + [f'{a}{i}' for i in range(NERR) for a in ('isdict', 'proto', 'temporary')]


def feasible(v: Dict[str, bool]) -> bool:
    if v['list'] and not (v['json'] and v['parses']):
        return False
    if v['parses'] and not v['json']:
        return False
    if v['nonempty'] and not v['list']:
        return False
    for i in range(NERR):
        if (v[f'isdict{i}'] or v[f'proto{i}'] or v[f'temporary{i}']) and not v['nonempty']:
            return False  # an empty list has no elements to speak of
        if (v[f'proto{i}'] or v[f'temporary{i}']) and not v['list']:
            return False
        if (v[f'proto{i}'] or v[f'temporary{i}']) and not v[f'isdict{i}']:
            return False
    return True


def reference_transient(v: Dict[str, bool]):
    if v['json'] and v['parses'] and v['list']:
        if any(v[f'isdict{i}'] and v[f'proto{i}'] for i in range(NERR)):
            return None if v['marker'] else False  # documented: a protocol error anywhere in the list is never retried; statement ambiguous with marker
        if any(v[f'isdict{i}'] and v[f'temporary{i}'] for i in range(NERR)):
            return True
    return v['marker']


def atom_name(c: Any):
    s = vrepr(c)
    if "'content-type'" in s and 'application/json' in s:
        return 'json'
    if s.startswith('isinstance($body'):
        return 'list'
    idx = next((str(i) for i in range(NERR) if f'$err{i}' in s), None)
    if s.startswith('isinstance($err') and idx is not None:
        return 'isdict' + idx
    if 'startswith' in s and 'proto.' in s and idx is not None:
        return 'proto' + idx
    if "'temporary'" in s and idx is not None:
        return 'temporary' + idx
    if s.startswith('in(') and 'prevalidator.ml' in s:
        return 'marker'
    if s == '$body':
        return 'nonempty'  # truthiness of the decoded list
    return None


def atom_value(c: Any, b: bool) -> bool:
    """the value of the atom under which the path runs: a test written with the negated operator (`!=`, `not in`) stands for the opposite value"""
    return (not b) if isinstance(c, App) and c.op in ('!=', 'not in', 'is not') else b


JSON_ERR = 'requests.exceptions.JSONDecodeError'


def json_error_ancestry(repo: Repo):
    """the handler classes that catch what requests.Response.json() raises, in every installation in which the package itself can be imported
    (reference/external.json: the class derives from simplejson's error when simplejson is importable, from json's otherwise)"""
    import json as _json
    import os

    ext = _json.load(open(os.path.join(os.path.dirname(os.path.dirname(__file__)), 'reference', 'external.json')))['exception_ancestry'][JSON_ERR]
    needs_simplejson = any(v == 'simplejson' or v.startswith('simplejson.') for mi in repo.modules.values() for v in mi.imports.values())
    if needs_simplejson:
        return list(ext['caught_by_if_simplejson_installed']), 'simplejson is imported by the package, so it is installed and the error derives from simplejson.JSONDecodeError and ValueError, not from json.JSONDecodeError'
    both = [c for c in ext['caught_by_if_simplejson_installed'] if c in ext['caught_by_otherwise']]
    return both, 'the package does not require simplejson, so only the classes that catch the error with and without it count'


class FromResponseHooks(Hooks):
    def inline(self, it, fi):
        return fi.qualname == f'{NODE}.RpcError.from_response'

    def call(self, it, callee, args, kwargs, node):
        if isinstance(callee, App) and callee.op == 'attr' and callee.args[1] == 'json' and isinstance(callee.args[0], Sym):
            if it.choose(2) == 0:
                it.event('atom', 'body parses', True)
                return Sym('errors', 'list')
            it.event('atom', 'body parses', False)
            raise Raised(ExcVal(JSON_ERR, ('bad json',)))
        if isinstance(callee, FuncRef) and callee.fi is not None and callee.fi.name == 'from_errors':
            return App('from_errors', *args)
        if isinstance(callee, ClassRef_) and callee.qual.endswith('RpcError'):
            return Obj(callee.qual, {'args': tuple(args)})
        return NotImplemented

    def compare(self, it, op, a, b, node):
        s = vrepr(a) + vrepr(b)
        if 'content-type' in s and op in ('==', '!='):
            v = it.choose(2) == 0
            it.event('atom', 'content-type is application/json', v)
            return v if op == '==' else not v
        return NotImplemented

    def isinstance(self, it, obj, cls):
        if isinstance(obj, Sym) and obj.name == 'errors':
            return True  # node errors are lists of error objects
        return NotImplemented


class TransientHooks(Hooks):
    def call(self, it, callee, args, kwargs, node):
        if isinstance(callee, App) and callee.op == 'attr' and callee.args[1] == 'json' and isinstance(callee.args[0], Sym):
            if it.choose(2) == 0:
                it.event('atom', 'parses', True)
                return Sym('body')
            it.event('atom', 'parses', False)
            raise Raised(ExcVal(JSON_ERR, ('bad json',)))
        return NotImplemented

    def iterate(self, it, obj, node):
        if isinstance(obj, Sym) and obj.name == 'body':
            return [Sym(f'err{i}') for i in range(NERR)]  # predicate abstraction: two representative elements (order matters to a first-match loop)
        return NotImplemented


def controls(chk: Check) -> None:
    v = dict({a: False for a in ATOMS}, json=True, parses=True, list=True, nonempty=True, isdict0=True, temporary0=True)
    if reference_transient(v) is not True or reference_transient(dict(v, isdict1=True, proto1=True)) is not False:
        raise AnalysisError('reference transient table broken')
