"""C09 Base58Check typed encodings are unambiguous and invertible.

Clauses decided (see DESIGN §5 C09):
 1 prefix+length for ALL payloads of every row (interval argument, exhaustive over rows)
 2 unambiguous dispatch between rows (encoder and decoder selection)
 3 selection semantics of base58_encode / base58_decode on the finite abstraction
   (encoded length class x ascii prefix class): right row or ValueError; checksum delegated
 4 validators' prefix lists subset of the table; every call site with static payload length hits a row
"""
from __future__ import annotations

import ast
import json
import os

from ..absint import App, Hooks, Interp, Sym, vrepr
from ..b58 import common_prefix, interval
from ..bytelen import infer_len
from ..model import AnalysisError, NotConstant, Repo, dotted, norm
from ..report import Check

LEVEL = 'proof'
ENC = 'pytezos.crypto.encoding'
REF = os.path.join(os.path.dirname(os.path.dirname(__file__)), 'reference', 'base58.json')


def table(repo: Repo):
    rows = repo.const(f'{ENC}.base58_encodings')
    if not isinstance(rows, list) or not rows:
        raise AnalysisError('base58_encodings is not a literal list')
    out = []
    for r in rows:
        if not (isinstance(r, tuple) and len(r) >= 4 and isinstance(r[0], bytes) and isinstance(r[1], int)
                and isinstance(r[2], bytes) and isinstance(r[3], int)):
            raise AnalysisError(f'unexpected row shape in base58_encodings: {r!r}')
        out.append(r)
    return out


class _DecodeHooks(Hooks):
    """v is an abstract encoded string with a fixed (length, ascii-prefix) class."""

    def __init__(self, length, prefix):
        self.length = length  # int or None (= a length no row has)
        self.prefix = prefix  # bytes or None (= a prefix no row has)

    def call(self, it, callee, args, kwargs, node):
        if isinstance(callee, App) and callee.op == 'attr' and isinstance(callee.args[0], Sym) and callee.args[0].name == 'v':
            if callee.args[1] == 'startswith' and len(args) == 1 and isinstance(args[0], bytes):
                p = args[0]
                if self.prefix is None:
                    return False
                if self.prefix.startswith(p):
                    return True
                if p.startswith(self.prefix):
                    return App('tail-startswith', p[len(self.prefix):])  # depends on the free characters
                return False
        return NotImplemented

    def compare(self, it, op, a, b, node):
        for x, y in ((a, b), (b, a)):
            if isinstance(x, App) and x.op == 'len' and isinstance(x.args[0], Sym) and x.args[0].name == 'v' and isinstance(y, int):
                if op == '==':
                    return self.length == y
                if op == '!=':
                    return self.length != y
        return NotImplemented


class _EncodeHooks(Hooks):
    def __init__(self, length):
        self.length = length

    def compare(self, it, op, a, b, node):
        for x, y in ((a, b), (b, a)):
            if isinstance(x, App) and x.op == 'len' and isinstance(x.args[0], Sym) and x.args[0].name == 'v' and isinstance(y, int):
                if op == '==':
                    return self.length == y
                if op == '!=':
                    return self.length != y
        return NotImplemented


def run(repo: Repo, chk: Check) -> None:
    chk.explanation = (
        'Table rows of base58_encodings are folded from the source; for each row the checker computes with its own base58 '
        'arithmetic the smallest and largest possible check-encoded string over all payloads and all checksums; since base58 of '
        'a fixed-width big-endian integer is monotone, a common length and common leading characters of the two ends hold for '
        'every payload in between.  Row selection by base58_encode/base58_decode is interpreted abstractly over the finite '
        'classes (length, ascii prefix).  Decides prefix/length/dispatch, not checksum arithmetic (delegated to b58decode_check).'
    )
    chk.assumptions += [
        'base58.b58encode_check/b58decode_check implement Base58Check (4-byte double-SHA256 checksum)',
        'monotonicity of base58 on fixed-width integers',
    ]
    rows = table(repo)
    mi = repo.module(ENC)
    chk.note('rows', len(rows))
    chk.minimum('base58_encodings rows', len(rows), 40)

    # ---- clause 1: interval argument per row ------------------------------------------------------------------
    chk.set_clause('C09.1')
    with open(REF) as f:
        ref = json.load(f)['rows']
    refmap = {(r['ascii'], r['payload_len']): r for r in ref}
    ref_by_ascii_len = {(r['ascii'], r['encoded_len']): r for r in ref}
    for r in rows:
        asc, enc_len, binp, plen = r[0], r[1], r[2], r[3]
        name = f'{ENC}.base58_encodings[{asc.decode()}:{plen}]'
        lo, hi = interval(binp, plen)
        facts = {'bin_prefix': binp.hex(), 'payload_len': plen, 'min': lo.decode(), 'max': hi.decode(),
                 'declared': [asc.decode(), enc_len]}
        ok_len = len(lo) == len(hi) == enc_len
        chk.ob('R-TABLE', name, ok_len, 'encoded-length', mi.relpath, facts,
               what=f'payloads of {plen} bytes under {binp.hex()} encode to {len(lo)}..{len(hi)} characters, declared {enc_len}')
        cp = common_prefix(lo, hi) if len(lo) == len(hi) else b''
        chk.ob('R-TABLE', name, cp.startswith(asc), 'ascii-prefix', mi.relpath, facts,
               what=f'all encodings share only the leading characters {cp.decode()!r}, declared prefix {asc.decode()!r}')
        # reference rows (guards against a consistent-but-wrong edit of both columns)
        rr = refmap.get((asc.decode(), plen)) or ref_by_ascii_len.get((asc.decode(), enc_len))
        if rr is not None:
            same = bytes(rr['bin_prefix']) == binp and rr['encoded_len'] == enc_len and rr['payload_len'] == plen
            chk.ob('R-TABLE', name, same, 'reference-row', mi.relpath, {'reference': rr},
                   what=f'row differs from the Tezos registration {rr}')
        else:
            chk.info('R-TABLE', name, 'no reference row (extra kind)', mi.relpath)
    # every reference row the property's kinds need is present
    have = {(r[0].decode(), r[3]) for r in rows} | {(r[0].decode(), r[1]) for r in rows}
    for rr in ref:
        present = (rr['ascii'], rr['payload_len']) in have or (rr['ascii'], rr['encoded_len']) in have
        chk.ob('R-TABLE', f'{ENC}.base58_encodings', present, f'row-present {rr["ascii"]}:{rr["encoded_len"]}', mi.relpath,
               what=f'kind {rr["ascii"]} has no row')

    # ---- clause 2: unambiguous dispatch -----------------------------------------------------------------------
    chk.set_clause('C09.2')
    pairs = 0
    for i in range(len(rows)):
        for j in range(i + 1, len(rows)):
            a, b = rows[i], rows[j]
            pairs += 1
            cname = f'{ENC}.base58_encodings[{a[0].decode()}:{a[3]}|{b[0].decode()}:{b[3]}]'
            if a[1] == b[1]:
                amb = a[0].startswith(b[0]) or b[0].startswith(a[0])
                chk.ob('R-DISPATCH', cname, not amb, 'decode-ambiguous', mi.relpath,
                       {'encoded_len': a[1], 'prefixes': [a[0].decode(), b[0].decode()]},
                       what='two kinds with the same encoded length and nested ascii prefixes: one string valid for both')
            if a[0] == b[0]:
                chk.ob('R-DISPATCH', cname, a[3] != b[3], 'encode-ambiguous', mi.relpath,
                       {'prefix': a[0].decode(), 'payload_lens': [a[3], b[3]]},
                       what='two rows with the same ascii prefix and payload length: the second is unreachable')
    chk.note('row_pairs', pairs)

    # ---- clause 3: selection semantics on the finite abstraction ----------------------------------------------
    chk.set_clause('C09.3')
    dec = repo.func(f'{ENC}.base58_decode')
    enc = repo.func(f'{ENC}.base58_encode')
    lens = sorted({r[1] for r in rows}) + [None]
    prefixes = sorted({r[0] for r in rows}) + [None]
    cases = 0
    for L in lens:
        for P in prefixes:
            it = Interp(repo, _DecodeHooks(L, P), max_depth=1)
            res = it.run_function(dec, [Sym('v', 'bytes')])
            cases += 1
            matching = [r for r in rows if r[1] == L and P is not None and P.startswith(r[0])]
            cname = f'{ENC}.base58_decode'
            detail = f'class len={L} prefix={P.decode() if P else None}'
            outs = set()
            for p in res:
                if p.outcome == 'raise':
                    outs.add(('raise', p.value.cls))
                else:
                    outs.add(('return', vrepr(p.value)))
            if matching:
                want = {('return', vrepr(App('slice', App('call:base58.b58decode_check', Sym('v')), len(matching[0][2]), None, None)))}
                # strings whose free characters continue into a longer prefix are clause-2 territory: all paths must agree
                ok = outs == want
                chk.ob('R-DISPATCH', cname, ok, detail, dec.loc, {'outcomes': sorted(map(str, outs)), 'want': sorted(map(str, want))},
                       what='a well-formed string of this kind is not decoded by checksum-verify then strip of the row\'s binary prefix')
            else:
                ok = bool(outs) and all(o[0] == 'raise' and o[1] == 'ValueError' for o in outs)
                # prefix classes that only *partially* match (P shorter than a row prefix) may accept on the branch
                # where the free characters complete the longer prefix: that string then IS of the longer class.
                if not ok and P is not None:
                    ok = all((o[0] == 'raise' and o[1] == 'ValueError') for o in outs
                             ) or all(_tail_only(p) for p in res if p.outcome == 'return')
                chk.ob('R-DISPATCH', cname, ok, detail, dec.loc, {'outcomes': sorted(map(str, outs))},
                       what='a string with unknown prefix or wrong length is not rejected with ValueError')
    plens = sorted({r[3] for r in rows}) + [None]
    for L in plens:
        for P in sorted({r[0] for r in rows}) + [b'\x7f\x7f']:
            it = Interp(repo, _EncodeHooks(L), max_depth=1)
            res = it.run_function(enc, [Sym('v', 'bytes'), P])
            cases += 1
            matching = [r for r in rows if r[3] == L and r[0] == P]
            outs = set()
            for p in res:
                outs.add(('raise', p.value.cls) if p.outcome == 'raise' else ('return', vrepr(p.value)))
            detail = f'class payload_len={L} prefix={P.decode("latin1")}'
            if matching:
                want = {('return', vrepr(App('call:base58.b58encode_check', App('cat', matching[0][2], Sym('v')))))}
                chk.ob('R-DISPATCH', f'{ENC}.base58_encode', outs == want, detail, enc.loc,
                       {'outcomes': sorted(map(str, outs)), 'want': sorted(map(str, want))},
                       what='payload is not encoded as check(bin_prefix + payload) of its row')
            else:
                ok = bool(outs) and all(o == ('raise', 'ValueError') for o in outs)
                chk.ob('R-DISPATCH', f'{ENC}.base58_encode', ok, detail, enc.loc, {'outcomes': sorted(map(str, outs))},
                       what='(prefix, length) without a row is not rejected with ValueError')
    chk.note('dispatch_classes', cases)

    # ---- clause 4: validators and call sites ------------------------------------------------------------------
    chk.set_clause('C09.4')
    table_prefixes = {r[0] for r in rows}
    nvalid = 0
    from ..validators import all_validators

    for vname, pl in sorted(all_validators(repo).items()):
        fi = repo.func(f'{ENC}.{vname}')
        nvalid += 1
        missing = [p for p in pl if p not in table_prefixes]
        chk.ob('R-TABLE', fi.qualname, not missing, 'validator-prefixes', fi.loc, {'prefixes': [p.decode() for p in pl]},
               what=f'validator accepts prefixes without a table row: {missing}')
    chk.minimum('validators', nvalid, 9)
    v = repo.func(f'{ENC}._validate')
    # decided on abstract strings of which the first bytes and the bytes occurring later are known: accepted (and handed to base58_decode, which
    # checks length and checksum) exactly when the string STARTS with one of the prefixes
    vcases = [
        ('starts with a listed prefix', PStr(b'AA', set()), True),
        ('starts with the second listed prefix', PStr(b'BB', {b'ZZ'}), True),
        ('starts with a foreign prefix', PStr(b'ZZ', set()), False),
        ('starts with a foreign prefix but contains a listed one later', PStr(b'ZZ', {b'AA'}), False),
        ('starts with a foreign prefix and ends with a listed one', PStr(b'ZZ', {b'BB'}, tail=b'BB'), False),
    ]
    for what, pv, want in vcases:
        res = Interp(repo, _ValidateHooks(), max_depth=1).run_function(v, [pv, [b'AA', b'BB']])
        acc = [p for p in res if p.outcome == 'return']
        rej = [p for p in res if p.outcome == 'raise']
        decoded = all(any(e == ('decode-called',) or e == 'decode-called' for e in p.events) for p in acc)
        ok = (bool(acc) and not rej and decoded) if want else (bool(rej) and not acc and all(p.value.cls == 'ValueError' for p in rej))
        chk.ob('R-PATH', f'{ENC}._validate', ok, f'a string that {what} is {"checked by base58_decode" if want else "rejected with ValueError"}', v.loc,
               {'accepting_paths': len(acc), 'rejecting': [vrepr(p.value)[:60] for p in rej], 'decode_called': decoded},
               what=f'_validate on a string that {what}: {"accepted without base58_decode or rejected" if want else "not rejected (or rejected with a non-ValueError)"} '
                    f'- validators must test the kind by the START of the string and always run the checksum decode')

    # a TEXT argument is validated as the text it is: its characters are what is tested for the prefix and handed to base58_decode.  The shared
    # normaliser scrub_input reads a str as hexadecimal first, so a str must be encoded before it goes through it (the hex spelling of a valid
    # string is not that string)
    class _TextHooks(Hooks):
        def inline(self, it, fi):
            return fi.name == '_validate'

        def isinstance(self, it, obj, classes):
            from ..absint import Builtin
            names = {c.name for c in classes if isinstance(c, Builtin)}
            if isinstance(obj, Sym) and obj.name == 'text':
                return 'str' in names
            if isinstance(obj, App) and obj.op in ('chars-of', 'hex-or-ascii-of'):
                return bool(names & {'bytes', 'bytearray'})
            return NotImplemented

        def call(self, it, callee, args, kwargs, node):
            from ..absint import FuncRef
            if isinstance(callee, App) and callee.op == 'attr' and isinstance(callee.args[0], Sym) and callee.args[0].name == 'text' and callee.args[1] == 'encode':
                return App('chars-of', callee.args[0])
            if isinstance(callee, FuncRef) and callee.fi is not None and callee.fi.name == 'scrub_input':
                x = args[0]
                return App('hex-or-ascii-of', x) if isinstance(x, Sym) else x   # bytes pass through; a str is read as hex when it parses as hex
            if isinstance(callee, FuncRef) and callee.fi is not None and callee.fi.name == 'base58_decode':
                it.event('decoded', args[0])
                return App('decoded')
            if isinstance(callee, App) and callee.op == 'attr' and callee.args[1] == 'startswith':
                it.event('prefix-tested-on', callee.args[0])
                return it.choose(2) == 0
            return NotImplemented

    rt = Interp(repo, _TextHooks(), max_depth=1).run_function(v, [Sym('text', 'str'), [b'AA', b'BB']])
    tested = sorted({vrepr(e[1]) for p in rt for e in p.events if isinstance(e, tuple) and e[0] in ('prefix-tested-on', 'decoded')})
    chk.ob('R-FLOW', f'{ENC}._validate', tested == ['chars-of($text)'], 'a str argument is validated as its own characters (prefix test and base58_decode)', v.loc,
           {'validated_value': tested},
           what=f'_validate tests / decodes {tested} for a str argument instead of the characters of the string: the hexadecimal spelling of a valid encoding '
                '(or any text that happens to parse as hex) is validated as the bytes it spells, so is_pkh("747a31...") is True while base58_decode of that text fails')

    # call sites of base58_encode with a statically known payload length
    sites = known = 0
    for fi in repo.iter_functions('pytezos.'):
        if fi.module.name == 'pytezos.rpc.docs':
            continue
        for call in [n for n in ast.walk(fi.node) if isinstance(n, ast.Call)]:
            d = dotted(call.func)
            if d is None or repo.resolve_name(fi.module, d) != f'{ENC}.base58_encode':
                continue
            sites += 1
            args = list(call.args)
            pnode = args[1] if len(args) > 1 else next((k.value for k in call.keywords if k.arg == 'prefix'), None)
            vnode = args[0] if args else next((k.value for k in call.keywords if k.arg == 'v'), None)
            if pnode is None or vnode is None:
                continue
            try:
                prefix = repo.fold(pnode, fi.module)
            except NotConstant:
                prefix = None
            n = infer_len(repo, fi.module, fi.node, vnode)
            if prefix is None or n is None:
                chk.info('R-TABLE', fi.qualname, f'call site with dynamic prefix/length: {norm(call)[:80]}', fi.loc)
                continue
            known += 1
            hit = any(r[0] == prefix and r[3] == n for r in rows)
            chk.ob('R-TABLE', fi.qualname, hit, f'encode-site prefix={prefix.decode()} len={n}',
                   f'{fi.module.relpath}:{call.lineno}', {'call': norm(call)[:120]},
                   what=f'base58_encode with a {n}-byte payload and prefix {prefix!r} has no table row: always raises')
    chk.note('encode_call_sites', sites)
    chk.note('encode_call_sites_static', known)
    chk.minimum('base58_encode call sites', sites, 25)
    chk.minimum('base58_encode call sites with static length', known, 15)
    chk.exhaustive = True

    # ---- who may write the table: the rows decided above are the rows of the literal; nothing may add, change or drop rows afterwards ----------
    writers = []
    for mi2 in repo.modules.values():
        for n in ast.walk(mi2.tree):
            tgt = None
            if isinstance(n, ast.Call) and isinstance(n.func, ast.Attribute) and n.func.attr in ('append', 'extend', 'insert', 'remove', 'pop', 'clear', 'sort', 'reverse', '__setitem__', '__iadd__'):
                tgt = n.func.value
            elif isinstance(n, (ast.AugAssign, ast.AnnAssign)) and not (mi2.name == ENC and isinstance(n.target, ast.Name) and isinstance(n, ast.AnnAssign)):
                tgt = n.target
            elif isinstance(n, ast.Assign):
                tgt = next((t.value if isinstance(t, ast.Subscript) else None for t in n.targets if isinstance(t, ast.Subscript)), None)
            elif isinstance(n, ast.Delete):
                tgt = next((t.value for t in n.targets if isinstance(t, ast.Subscript)), None)
            d = dotted(tgt) if tgt is not None else None
            if d and repo.canonical(repo.resolve_name(mi2, d)) == f'{ENC}.base58_encodings':
                writers.append(f'{mi2.relpath}:{n.lineno}')
    chk.ob('R-FLOW', f'{ENC}.base58_encodings', not writers, 'the table is written nowhere but in its literal', repo.module(ENC).relpath, {'writers': writers},
           what=f'base58_encodings is modified at {writers[:3]}: rows added or changed at import time escape the prefix / length / ambiguity decisions made on the literal '
                '(a kind registered with the binary prefix of another kind encodes to the same strings)')

    # ---- memory across calls (shared rule, sa/statelint.py) ----------------------------------------------------------------------------------
    chk.set_clause('C09.M')
    from ..statelint import check_memory
    check_memory(repo, chk, ['pytezos.crypto.encoding.'],
                 'an encoding chosen for one (prefix, length) is reused for another payload length')


def _tail_only(p) -> bool:
    return any(isinstance(t, App) and t.op == 'tail-startswith' and b for t, b in p.conds)


class PStr:
    """Abstract byte string: the leading bytes, the byte strings known to occur later in it, and optionally its last bytes."""

    def __init__(self, head: bytes, later: set, tail: bytes = b''):
        self.head, self.later, self.tail = head, later, tail

    def key(self):
        return ('pstr', self.head, tuple(sorted(self.later)), self.tail)

    def __deepcopy__(self, memo):
        return self


class _ValidateHooks(Hooks):
    def inline(self, it, fi):
        return fi.name == '_validate'

    def attr(self, it, obj, name, node):
        if isinstance(obj, PStr):
            return App('attr', obj, name)
        return NotImplemented

    def subscript(self, it, obj, idx, node):
        if isinstance(obj, PStr) and isinstance(idx, slice) and idx.step is None:
            if idx.start in (None, 0) and isinstance(idx.stop, int) and 0 <= idx.stop <= len(obj.head):
                return obj.head[:idx.stop]
            if idx.stop is None and isinstance(idx.start, int) and idx.start < 0 and -idx.start <= len(obj.tail):
                return obj.tail[idx.start:]
        return NotImplemented

    def compare(self, it, op, a, b, node):
        if op in ('in', 'not in') and isinstance(b, PStr) and isinstance(a, bytes):
            r = b.head.startswith(a) or a in b.later or (bool(b.tail) and a in b.tail)
            return r if op == 'in' else not r
        return NotImplemented

    def call(self, it, callee, args, kwargs, node):
        from ..absint import FuncRef

        if isinstance(callee, FuncRef) and callee.fi is not None:
            if callee.fi.name == 'base58_decode':
                it.event('decode-called')
                return App('decoded')
            if callee.fi.name == 'scrub_input':
                return args[0]
        if isinstance(callee, App) and callee.op == 'attr' and isinstance(callee.args[0], PStr):
            pv, name = callee.args
            if name == 'startswith' and isinstance(args[0], (bytes, tuple)):
                ps = args[0] if isinstance(args[0], tuple) else (args[0],)
                return any(pv.head.startswith(x) for x in ps)
            if name == 'endswith' and isinstance(args[0], bytes):
                return bool(pv.tail) and pv.tail.endswith(args[0])
            if name in ('find', 'index') and isinstance(args[0], bytes):
                if pv.head.startswith(args[0]):
                    return 0
                if args[0] in pv.later:
                    return 7
                if name == 'index':
                    from ..absint import ExcVal, Raised
                    raise Raised(ExcVal('ValueError'))
                return -1
            if name == 'encode':
                return pv
        return NotImplemented

    def isinstance(self, it, obj, classes):
        from ..absint import Builtin

        if (isinstance(obj, Sym) and obj.name == 'v') or isinstance(obj, PStr):
            return any(isinstance(c, Builtin) and c.name == 'bytes' for c in classes)
        return NotImplemented


def controls(chk: Check) -> None:
    """Positive controls: the interval rule must fire on a broken synthetic row and stay silent on a good one."""
    lo, hi = interval(bytes([6, 161, 159]), 20)
    good = len(lo) == len(hi) == 36 and common_prefix(lo, hi).startswith(b'tz1')
    lo2, hi2 = interval(bytes([6, 161, 159]), 21)
    bad = len(lo2) == len(hi2) == 36 and common_prefix(lo2, hi2).startswith(b'tz1')
    if not good or bad:
        raise AnalysisError('positive control of the base58 interval rule failed')
