"""C27 Node errors map to the most specific registered error class.

 R-TEMPLATE  _gen_error_variants on symbolic ids of 1..5 dot-separated chunks: the ordered candidate list equals
             [full id, id without the two-chunk protocol prefix, final component, category]
 R-PATH      from_errors: last error; first variant that is a registry key wins; otherwise the generic RpcError;
             empty list -> generic error
 R-TABLE     registry keys (error_id= class keywords) are reachable by some variant form
"""
from __future__ import annotations

import ast

from typing import Any, List

from ..absint import App, ClassRef, ExcVal, FuncRef, Hooks, Interp, Sym, vrepr
from ..model import AnalysisError, Repo
from ..report import Check

NODE = 'pytezos.rpc.node'


class SplitHooks(Hooks):
    def __init__(self, n: int):
        self.n = n

    def call(self, it, callee, args, kwargs, node):
        if isinstance(callee, App) and callee.op == 'attr' and isinstance(callee.args[0], Sym) and callee.args[0].name == 'error_id' \
                and callee.args[1] == 'split' and args == ['.']:
            return [Sym(f'c{i}', 'str') for i in range(self.n)]
        return NotImplemented


def ref_variants(n: int) -> List[str]:
    chunks = [f'$c{i}' for i in range(n)]
    out = ['$error_id']
    if n > 2:
        out.append('.'.join(chunks[2:]))
    if n > 1:
        out.append(chunks[-1])
        out.append(chunks[-2])
    return out


def show(v: Any) -> str:
    if isinstance(v, Sym):
        return f'${v.name}'
    if isinstance(v, App) and v.op == 'cat':
        return ''.join(show(a) if not isinstance(a, str) else a for a in v.args)
    if isinstance(v, str):
        return v
    return vrepr(v)


class FromErrorsHooks(Hooks):
    def __init__(self, nvariants: int):
        self.nv = nvariants

    def inline(self, it, fi):
        return fi.name == 'from_errors'

    def attr(self, it, obj, name, node):
        if name == '__handlers__' and isinstance(obj, ClassRef):
            return Sym('handlers')
        return NotImplemented

    def call(self, it, callee, args, kwargs, node):
        if isinstance(callee, FuncRef) and callee.fi is not None and callee.fi.name == '_gen_error_variants':
            it.event('variants-of', args[0])
            return [Sym(f'v{i}', 'str') for i in range(self.nv)]
        return NotImplemented


def run(repo: Repo, chk: Check) -> None:
    chk.explanation = (
        '_gen_error_variants is interpreted on a symbolic identifier split into 1..5 opaque chunks; the ordered list it builds is '
        'compared with the reference order (full id, id without protocol prefix, final component, category).  from_errors is '
        'interpreted with an opaque registry: on every path the result must be the handler of the first variant found in the '
        'registry applied to the LAST error, else the generic RpcError.  Decides the lookup order for every id shape; does not '
        'run any lookup.'
    )
    gv = repo.func(f'{NODE}._gen_error_variants')
    chk.set_clause('C27.1')
    for n in range(1, 6):
        res = Interp(repo, SplitHooks(n), max_depth=1).run_function(gv, [Sym('error_id', 'str')])
        got = [[show(x) for x in p.value] if p.outcome == 'return' and isinstance(p.value, list) else ['raise'] for p in res]
        want = ref_variants(n)
        chk.ob('R-TEMPLATE', gv.qualname, got == [want], f'chunks={n}', gv.loc, {'variants': got, 'reference': want},
               what=f'for an id of {n} components the candidates are tried as {got}, the specified order is {want} '
                    '(e.g. proto.X.michelson_v1.script_rejected must reach script_rejected before michelson_v1)')

    chk.set_clause('C27.2')
    fe = repo.func(f'{NODE}.RpcError.from_errors')
    nv = 4
    res = Interp(repo, FromErrorsHooks(nv), max_depth=1).run_function(fe, [[Sym('e0'), Sym('e1')]], self_val=ClassRef(f'{NODE}.RpcError'))
    seen_first = set()
    ok_all = True
    detail: List[Any] = []
    for p in res:
        trues = [i for i in range(nv) if any(b and vrepr(c) == vrepr(App('in', Sym(f'v{i}'), Sym('handlers'))) for c, b in p.conds)]
        falses = [i for i in range(nv) if any((not b) and vrepr(c) == vrepr(App('in', Sym(f'v{i}'), Sym('handlers'))) for c, b in p.conds)]
        ids = [e for e in p.events if isinstance(e, tuple) and e[0] == 'variants-of']
        last_ok = len(ids) == 1 and vrepr(ids[0][1]) == vrepr(App('getitem', Sym('e1'), 'id'))
        if trues:
            i = trues[0]
            want = App('apply', App('getitem', Sym('handlers'), Sym(f'v{i}')), Sym('e1'))
            good = p.outcome == 'return' and vrepr(p.value) == vrepr(want) and falses == list(range(i)) and last_ok
            seen_first.add(i)
        else:
            good = p.outcome == 'return' and isinstance(p.value, ExcVal) and p.value.cls == f'{NODE}.RpcError' \
                and [vrepr(a) for a in p.value.args] == ['$e1'] and falses == list(range(nv)) and last_ok
        detail.append({'under': p.cond_repr(), 'result': vrepr(p.value), 'ok': good})
        ok_all = ok_all and good
    chk.ob('R-PATH', fe.qualname, ok_all and seen_first == set(range(nv)), 'first registered variant of the last error wins', fe.loc,
           {'paths': detail}, what='from_errors does not return the handler of the first matching variant applied to the last error')
    res = Interp(repo, FromErrorsHooks(nv), max_depth=1).run_function(fe, [[]], self_val=ClassRef(f'{NODE}.RpcError'))
    chk.ob('R-PATH', fe.qualname, len(res) == 1 and isinstance(res[0].value, ExcVal) and res[0].value.cls == f'{NODE}.RpcError',
           'empty error list -> generic error', fe.loc, what='an empty error list does not give the generic RpcError')

    chk.set_clause('C27.3')
    keys = []
    for q in repo.subclasses(f'{NODE}.RpcError'):
        k = repo.class_keyword(q, 'error_id')
        for key in (k if isinstance(k, list) else [k]):
            if isinstance(key, str):
                keys.append((q, key))
    chk.minimum('registered error classes', len(keys), 5)
    seen = {}
    for q, key in keys:
        ci = repo.cls(q)
        chk.ob('R-TABLE', q, key not in seen, f'unique key {key}', ci.loc, {'also': seen.get(key)}, what='two classes register the same id')
        seen[key] = q
        chk.ob('R-TABLE', q, 1 <= len(key.split('.')) <= 2 or key.startswith('proto.'), f'reachable key {key}', ci.loc,
               what='a key of 3+ components without protocol prefix is never produced by the variant generator')
    chk.note('registry', sorted(seen))

    # ---- 4 registration: a class is filed under exactly the identifier(s) it declares - the lookup in from_errors compares the candidates with
    #        the registered keys as they are, so any rewriting of the key at registration (case folding, stripping) makes that class unreachable
    chk.set_clause('C27.4')
    isub = repo.find_method(f'{NODE}.RpcError', '__init_subclass__')
    chk.require(isub is not None, 'RpcError.__init_subclass__ not found')

    class RegHooks(Hooks):
        def __init__(self):
            self.table: Dict[Any, Any] = {}

        def inline(self, it, fi):
            return fi.qualname == isub.qualname

        def attr(self, it, obj, name, node):
            if name == '__handlers__':
                return self.table
            return NotImplemented

        def call(self, it, callee, args, kwargs, node):
            from ..absint import Builtin
            if isinstance(callee, Builtin) and callee.name == 'object.__init_subclass__':
                return None
            return NotImplemented

        def isinstance(self, it, obj, classes):
            from ..absint import Builtin
            names = {c.name for c in classes if isinstance(c, Builtin)}
            if isinstance(obj, Sym):
                return 'str' in names
            return NotImplemented

    # the subclasses register themselves when their module is imported: the module that defines them must be imported by `import pytezos` itself
    # (import graph from the package root over unconditional top-level imports), or the table is empty for a process that never names it
    reg_mods = sorted({repo.classes[q].module.name for q in repo.subclasses(f'{NODE}.RpcError')})
    graph = {}
    for mi2 in repo.modules.values():
        deps = set()
        for st in mi2.tree.body:
            names = []
            if isinstance(st, ast.Import):
                names = [a.name for a in st.names]
            elif isinstance(st, ast.ImportFrom) and st.level == 0 and st.module:
                names = [st.module] + [f'{st.module}.{a.name}' for a in st.names]
            for nm in names:
                parts = nm.split('.')
                for k in range(len(parts), 0, -1):
                    cand = '.'.join(parts[:k])
                    if cand in repo.modules:
                        deps.add(cand)
                        # importing a submodule imports its packages
                        for j in range(1, k):
                            if '.'.join(parts[:j]) in repo.modules:
                                deps.add('.'.join(parts[:j]))
                        break
        graph[mi2.name] = deps
    seen, todo = set(), ['pytezos']
    while todo:
        m = todo.pop()
        if m in seen:
            continue
        seen.add(m)
        todo.extend(graph.get(m, ()))
    unreachable = [m for m in reg_mods if m not in seen]
    chk.ob('R-FLOW', f'{NODE}.RpcError', bool(reg_mods) and not unreachable, 'the modules that register the error classes are imported by `import pytezos`', None,
           {'registering_modules': reg_mods, 'not_imported_from_the_package_root': unreachable, 'modules_reached': len(seen)},
           what=f'{unreachable} define the registered error classes but are not imported (directly or transitively) by `import pytezos`: the handler table stays empty and '
                'every node error is mapped to the generic RpcError')

    for label, given in (('a single identifier', Sym('id_a', 'str')), ('a list of two identifiers', [Sym('id_a', 'str'), Sym('id_b', 'str')])):
        h = RegHooks()
        subs = repo.subclasses(f'{NODE}.RpcError')
        chk.require(subs, 'no subclass of RpcError in the package')
        sub = ClassRef(subs[0])  # a real subclass, so that helpers of the base class are found through its MRO
        res = Interp(repo, h, max_depth=2).run_paths(lambda i, given=given: i.call_function(FuncRef(isub, sub, True), [], {'error_id': given}, None, force_inline=True))
        want = [vrepr(x) for x in (given if isinstance(given, list) else [given])]
        got = sorted(vrepr(k) for k in h.table)
        ok = len(res) == 1 and res[0].outcome == 'return' and got == sorted(want) and all(isinstance(v, ClassRef) and v.qual == sub.qual for v in h.table.values())
        chk.ob('R-FLOW', isub.qualname, ok, f'{label}: registered under exactly the declared identifier(s)', isub.loc, {'keys': got, 'declared': want},
               what=f'a subclass declaring {want} is registered under {got}: identifiers that are not already in that form (mixed case, ...) can never be found by '
                    'from_errors, which looks the candidates up as they are')
