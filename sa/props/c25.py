"""C25 Injected operations carry the account's next counters (counter life cycle).

fill / autofill / inject and the ExecutionContext counter cache are interpreted over client-call histories with the node
opaque (its counter is N<epoch>, the mempool offset OFFSET); the counters written into the contents are compared, in linear
normal form, with "node counter + pending + 1, consecutive".

 1 inject: the cache reset precedes the POST on every path (a failed injection leaves the cache cleared)
 2 histories: fill; fill(counter=c); fill,fill; fill,inject(fails),fill; fill,inject,fill; autofill
 3 autofill adds the mempool offset exactly once per content
"""
from __future__ import annotations

import ast
from typing import Any, List

from ..absint import App, FuncRef, Interp, Obj, Sym, vrepr
from ..cfg import CFG, calls_in, node_exprs
from ..groupmodel import CTX, G, GroupHooks, lin, lin_repr, mk_group
from ..model import AnalysisError, Repo, dotted, norm
from ..report import Check


def counters_of(group: Obj) -> List[str]:
    out = []
    for c in group.fields['contents']:
        v = c.get('counter')
        if isinstance(v, App) and v.op == 'str':
            v = v.args[0]
        out.append(lin_repr(v))
    return out


def run(repo: Repo, chk: Check) -> None:
    chk.explanation = (
        'The counter cache life cycle is decided on abstract client histories: the real bodies of fill, autofill, inject, '
        'get_counter, set_counter and reset are interpreted with the node opaque; the counters written are compared symbolically '
        'with the specification.  Histories are the enumerated ones; arbitrary interleavings with other accounts are not covered.'
    )
    fill, autofill, inject = repo.func(f'{G}.fill'), repo.func(f'{G}.autofill'), repo.func(f'{G}.inject')

    def call(it, fi, obj, *args, **kwargs):
        return it.call_function(FuncRef(fi, obj, True), list(args), dict(kwargs), None, force_inline=True)

    def history(name, driver, want, post_may_fail=False, only=lambda p: True):
        hooks = GroupHooks(repo, post_may_fail=post_may_fail)
        it = Interp(repo, hooks, max_depth=6)
        res = it.run_paths(driver)
        res = [p for p in res if only(p)]
        got = sorted({tuple(p.value) if p.outcome == 'return' else ('raise', p.value.cls) for p in res}, key=str)
        ok = bool(res) and all(p.outcome == 'return' and list(p.value) == want for p in res)
        chk.ob('R-PATH', f'{G}.fill', ok, f'history {name}: counters {want}', fill.loc, {'got': [list(g) for g in got], 'paths': len(res)},
               what=f'after the calls "{name}" the group to inject carries counters {[list(g) for g in got][:2]}, the account needs {want}')

    chk.set_clause('C25.2')
    history('fill (3 contents)', lambda it: counters_of(call(it, fill, mk_group(3))), ['N0 + 1', 'N0 + 2', 'N0 + 3'])
    history('fill(counter=c)', lambda it: counters_of(call(it, fill, mk_group(2), counter=Sym('c', 'int'))), ['c', 'c + 1'])

    def two_fills(it):
        g = mk_group(2)
        call(it, fill, g)
        return counters_of(call(it, fill, g))

    history('fill; fill again (nothing injected in between)', two_fills, ['N0 + 1', 'N0 + 2'])

    def fill_failed_inject_fill(it):
        g = mk_group(2)
        f1 = call(it, fill, g)
        try:
            call(it, inject, f1)
        except Exception as e:  # Raised from the interpreter: the POST failed
            from ..absint import Raised
            if not isinstance(e, Raised):
                raise
            it.event('inject-failed')
        return counters_of(call(it, fill, g))

    history('fill; inject fails; fill', fill_failed_inject_fill, ['N0 + 1', 'N0 + 2'], post_may_fail=True,
            only=lambda p: 'inject-failed' in p.events)
    history('fill; inject succeeds; fill', fill_failed_inject_fill, ['N1 + 1', 'N1 + 2'], post_may_fail=True,
            only=lambda p: 'inject-failed' not in p.events)

    chk.set_clause('C25.3')

    def auto(it):
        return counters_of(call(it, autofill, mk_group(2)))

    history('autofill (2 contents)', auto, ['N0 + OFFSET + 1', 'N0 + OFFSET + 2'])

    def auto_events(it):
        call(it, autofill, mk_group(2))
        return [e for e in it.events if e in ('read-mempool-offset', 'simulate')]

    res = Interp(repo, GroupHooks(repo), max_depth=6).run_paths(auto_events)
    ok = bool(res) and all(p.outcome == 'return' and p.value.count('read-mempool-offset') == 1 and p.value.count('simulate') == 1 for p in res)
    chk.ob('R-PATH', autofill.qualname, ok, 'mempool offset read once, after one simulation', autofill.loc,
           {'events': [p.value for p in res][:2]}, what='autofill reads the mempool offset more than once or not at all')

    # the mempool cannot be read (pending_operations answers with an error): no group may come back - one that did would carry counters that
    # ignore the account's pending operations
    res = Interp(repo, GroupHooks(repo, mempool_fails=True), max_depth=6).run_paths(auto)
    back = [list(p.value) for p in res if p.outcome == 'return']
    chk.ob('R-PATH', autofill.qualname, bool(res) and not back, 'the mempool offset cannot be read: autofill fails instead of assuming an offset', autofill.loc,
           {'paths': [p.outcome for p in res], 'counters_handed_back': back[:2]},
           what=f'when reading the mempool fails autofill still hands back a group, with counters {back[:1]}: the account\'s pending operations are not counted '
                'and the group reuses a counter that is already taken')

    # ---- 1 inject: reset precedes POST (CFG) -----------------------------------------------------------------------
    chk.set_clause('C25.1')
    g = CFG(inject.node)

    def is_reset(n):
        return any(isinstance(c.func, ast.Attribute) and c.func.attr == 'reset' for e in node_exprs(n) for c in calls_in(e))

    def is_post(n):
        return any(isinstance(c.func, ast.Attribute) and c.func.attr == 'post' for e in node_exprs(n) for c in calls_in(e))

    resets = set(g.nodes_where(is_reset))
    posts = g.nodes_where(is_post)
    chk.require(resets and posts, 'inject: reset or POST not found')
    for pnode in posts:
        path = g.paths_avoiding(g.entry, pnode, resets)
        chk.ob('R-PATH', inject.qualname, path is None, 'counter cache reset dominates the POST', f'{inject.module.relpath}:{pnode.line}',
               {'path_without_reset': g.describe_path(path) if path else None},
               what='the injection request can be sent without clearing the counter cache first: a failed injection leaves stale counters')
    # who may write the cache
    writers = set()
    for fi in repo.iter_functions('pytezos.'):
        for n in ast.walk(fi.node):
            tg = n.targets if isinstance(n, ast.Assign) else [n.target] if isinstance(n, (ast.AugAssign, ast.AnnAssign)) else []
            for t in tg:
                if isinstance(t, ast.Attribute) and t.attr == 'counter' and isinstance(t.value, ast.Name) and t.value.id == 'self' \
                        and fi.cls is not None and repo.is_subclass(fi.cls.qualname, CTX):
                    writers.add(fi.name)
    chk.ob('R-FLOW', f'{CTX}.counter', writers <= {'__init__', 'reset', 'set_counter', 'get_counter'}, 'writers of the counter cache', '',
           {'writers': sorted(writers)}, what=f'the counter cache is written by {sorted(writers)}')
    callers = set()
    for fi in repo.iter_functions('pytezos.'):
        for c in [n for n in ast.walk(fi.node) if isinstance(n, ast.Call)]:
            if isinstance(c.func, ast.Attribute) and c.func.attr == 'get_counter':
                callers.add(fi.qualname)
    chk.ob('R-FLOW', f'{CTX}.get_counter', callers <= {f'{G}.fill'}, 'only fill draws counters from the cache', '', {'callers': sorted(callers)},
           what=f'counters are drawn from the cache by {sorted(callers)}')


    # ---- 4 the mempool offset is the number of pending CONTENTS of the account (each one consumes a counter) -----------------------------------
    # ---- 5 the cached counter lives in the ExecutionContext: every group built for the user gets a context of its own ---------------------------
    chk.set_clause('C25.5')
    nsites = 0
    for fi2 in repo.iter_functions('pytezos.'):
        if fi2.module.name == 'pytezos.operation.group':
            continue
        for c in [n for n in ast.walk(fi2.node) if isinstance(n, ast.Call)]:
            d = dotted(c.func)
            if not d or repo.canonical(repo.resolve_name(fi2.module, d)) != G:
                continue
            nsites += 1
            ctx = next((k.value for k in c.keywords if k.arg == 'context'), c.args[0] if c.args else None)
            # followed through a local: `ctx = self._spawn_context(); OperationGroup(context=ctx)`
            if isinstance(ctx, ast.Name):
                asg = [n.value for n in ast.walk(fi2.node) if isinstance(n, ast.Assign) and any(isinstance(t, ast.Name) and t.id == ctx.id for t in n.targets)]
                ctx = asg[-1] if len(asg) == 1 else ctx
            fresh = isinstance(ctx, ast.Call) and isinstance(ctx.func, ast.Attribute) and ctx.func.attr == '_spawn_context'
            chk.ob('R-FLOW', fi2.qualname, fresh, 'the operation group is built on a context of its own (_spawn_context())', f'{fi2.module.relpath}:{c.lineno}',
                   {'context_argument': norm(ctx)[:80] if ctx is not None else None},
                   what=f'{fi2.qualname} builds an operation group on `{norm(ctx)[:60] if ctx is not None else None}`: the counter cache of that context is shared with every other group '
                        'built from the same object, so a group that is filled or simulated without being injected advances the counters of the next one')
    chk.minimum('operation groups built outside operation/group.py', nsites, 4)

    # ---- 6 the node state the counters are computed from is read afresh: no shortcut of the shell used by the counter logic goes through a
    #        member that remembers its first answer (cached_property / lru_cache: a block frozen at first use)
    chk.set_clause('C25.6')
    SQ = 'pytezos.rpc.shell.ShellQuery'
    CACHING = {'cached_property', 'functools.cached_property', 'lru_cache', 'functools.lru_cache', 'cache', 'functools.cache'}

    def first_self_attrs(node):
        out = set()
        for n in ast.walk(node):
            if isinstance(n, ast.Attribute) and isinstance(n.value, ast.Name) and n.value.id == 'self':
                out.add(n.attr)
        return out

    def frozen_via(member, seen=()):
        m = repo.find_method(SQ, member)
        if m is None or member in seen:
            return None
        decos = {dotted(d.func if isinstance(d, ast.Call) else d) for d in m.node.decorator_list}
        if decos & CACHING:
            return [member]
        for a in sorted(first_self_attrs(m.node)):
            r = frozen_via(a, seen + (member,))
            if r:
                return [member] + r
        return None

    used = set()
    for q in (f'{CTX}.get_counter', f'{CTX}.get_counter_offset', f'{G}.fill', f'{G}.autofill'):
        fq = repo.func(q)
        for n in ast.walk(fq.node):
            if isinstance(n, ast.Attribute) and isinstance(n.value, ast.Attribute) and n.value.attr == 'shell' and isinstance(n.value.value, ast.Name) and n.value.value.id == 'self':
                used.add(n.attr)
    chk.minimum('shell shortcuts read by the counter logic', len(used), 2)
    for a in sorted(used):
        chain = frozen_via(a)
        chk.ob('R-FLOW', f'{SQ}.{a}', chain is None, f'shell.{a} is read from the node each time (no remembered block on the way)', (repo.find_method(SQ, a).loc if repo.find_method(SQ, a) else None),
               {'through': chain},
               what=f'shell.{a} goes through {" -> ".join(chain or [])}, which remembers its first answer: after the first block the account counter / mempool are read from a stale '
                    'context and later operations reuse counters that are already taken')

    chk.set_clause('C25.4')
    _offset_clause(repo, chk)


class _MempoolHooks(GroupHooks):
    def __init__(self, repo, mempool):
        super().__init__(repo)
        self.mempool = mempool

    def inline(self, it, fi):
        return fi.qualname == f'{CTX}.get_counter_offset'

    def attr(self, it, obj, name, node):
        if isinstance(obj, Obj) and obj.cls == CTX and name in ('key', 'shell'):
            return Sym(name)
        return NotImplemented

    def call(self, it, callee, args, kwargs, node):
        if isinstance(callee, App) and callee.op == 'attr':
            recv, name = callee.args
            if name == 'public_key_hash':
                return 'tz1me'
            if name == 'pending_operations':
                import copy
                if self.mempool is None:  # the node answers with an error
                    self._node_error(callee, 'pending_operations failed')
                return copy.deepcopy(self.mempool)
            if name in ('debug', 'info', 'warning'):
                return None
        return super().call(it, callee, args, kwargs, node)

    def name(self, it, name, node):
        if name == 'logger':
            return Sym('logger')
        return NotImplemented


def _offset_clause(repo: Repo, chk: Check) -> None:
    fi = repo.func(f'{CTX}.get_counter_offset')
    mine, other = {'kind': 'transaction', 'source': 'tz1me'}, {'kind': 'transaction', 'source': 'tz1other'}
    cases = [
        ('empty mempool', {'applied': [], 'unprocessed': []}, 0),
        ('one applied group with one content of the account', {'applied': [{'contents': [dict(mine)]}], 'unprocessed': []}, 1),
        ('one applied batch with three contents of the account', {'applied': [{'contents': [dict(mine), dict(mine), dict(mine)]}], 'unprocessed': []}, 3),
        ('a batch mixing accounts', {'applied': [{'contents': [dict(mine), dict(other), dict(mine)]}], 'unprocessed': []}, 2),
        ('only other accounts', {'applied': [{'contents': [dict(other)]}, {'contents': [dict(other), dict(other)]}], 'unprocessed': []}, 0),
        ('an unprocessed entry given as [hash, operation]', {'applied': [], 'unprocessed': [['oo1', {'contents': [dict(mine), dict(mine)]}]]}, 2),
        ('applied and unprocessed together', {'applied': [{'contents': [dict(mine)]}, {'contents': [dict(mine), dict(other)]}],
                                                'unprocessed': [['oo1', {'contents': [dict(mine)]}]]}, 3),
        ('sections missing from the reply', {}, 0),
        ('contents without a source (consensus operations)', {'applied': [{'contents': [{'kind': 'endorsement'}]}]}, 0),
    ]
    res = Interp(repo, _MempoolHooks(repo, None), max_depth=2).run_method(fi, lambda: (Obj(CTX, {}), [], {}))
    back = [vrepr(p.value) for p in res if p.outcome == 'return']
    chk.ob('R-PATH', fi.qualname, bool(res) and not back, 'the mempool cannot be read: the failure is passed on, no offset is made up', fi.loc,
           {'paths': [p.outcome for p in res], 'offsets_returned': back},
           what=f'get_counter_offset answers {back[:1]} when the node cannot be asked: pending operations of the account are not counted and a counter is reused')
    for what, mempool, want in cases:
        res = Interp(repo, _MempoolHooks(repo, mempool), max_depth=2).run_method(fi, lambda: (Obj(CTX, {}), [], {}))
        got = [p.value if p.outcome == 'return' else f'{p.outcome}:{vrepr(p.value)[:60]}' for p in res]
        chk.ob('R-TEMPLATE', fi.qualname, got == [want], f'{what}: offset {want}', fi.loc, {'offset': [vrepr(g) for g in got]},
               what=f'get_counter_offset with {what} returns {got}, the account has {want} pending contents (each takes one counter): the next operation '
                    f'would reuse or skip a counter')
