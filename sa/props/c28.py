"""C28 Multi-node clients rotate through nodes regardless of failures.

The method is interpreted with the delegated node request forking into "returns" and "raises"; on EVERY path that sent a
request (normal or exceptional exit) the rotation index must have been advanced to (i + 1) % len(nodes), and the request must
have gone to nodes[i] for the pre-advance i.  A CFG must-pass-through rule (advance on every path through the delegated call,
including its exceptional successor) is checked as well.
"""
from __future__ import annotations

import ast
from typing import Any

from ..absint import App, ExcVal, Hooks, Interp, Obj, Raised, Sym, vrepr
from ..cfg import CFG, calls_in, node_exprs
from ..model import AnalysisError, Repo, dotted, norm
from ..report import Check

LEVEL = 'proof'
Q = 'pytezos.rpc.node.RpcMultiNode'


# what a node request can end with besides a response: the node's error, and the failures of the HTTP layer below it (requests raises these;
# ancestry from requests/exceptions.py: ConnectionError and Timeout derive from RequestException, which derives from IOError = OSError)
FAILURES = ['pytezos.rpc.node.RpcError', 'requests.exceptions.ConnectionError', 'requests.exceptions.ReadTimeout']
_REQ_BASES = ['requests.exceptions.RequestException', 'requests.RequestException', 'IOError', 'OSError', 'EnvironmentError', 'Exception', 'BaseException']
EXC_BASES = {
    'requests.exceptions.ConnectionError': ['requests.exceptions.ConnectionError', 'requests.ConnectionError'] + _REQ_BASES,
    'requests.exceptions.ReadTimeout': ['requests.exceptions.ReadTimeout', 'requests.ReadTimeout', 'requests.exceptions.Timeout', 'requests.Timeout'] + _REQ_BASES,
}


class RotHooks(Hooks):
    def call(self, it, callee, args, kwargs, node):
        if isinstance(callee, App) and callee.op == 'attr' and callee.args[1] == 'request':
            it.event('request-to', callee.args[0])
            k = it.choose(1 + len(FAILURES))
            if k == 0:
                return Sym('response')
            raise Raised(ExcVal(FAILURES[k - 1], ('node failure',)))
        return NotImplemented

    def iterate(self, it, obj, node):
        # a loop over a number of attempts that depends on the number of nodes: two rounds show whether a request is sent again
        if isinstance(obj, App) and obj.op in ('range', 'call:range', 'builtin:range'):
            it.event('loop-over-attempts')
            return [Sym('attempt0', 'int'), Sym('attempt1', 'int')]
        return NotImplemented

    def compare(self, it, op, a, b, node):
        # the entry assertion `_next_i < len(nodes)` is the class invariant
        if op == '<' and isinstance(a, Sym) and a.name == 'i':
            return True
        return NotImplemented


def run(repo: Repo, chk: Check) -> None:
    chk.explanation = (
        'RpcMultiNode.request is interpreted abstractly with the delegated request returning or raising; the final value of the '
        'rotation index and the node used are compared with the rule "i-th request goes to node i mod n" on every path, and the '
        'CFG with exceptional edges is checked for an advance on every path through the delegated call.'
    )
    fi = repo.func(f'{Q}.request')
    chk.set_clause('C28.1')

    def make():
        return Obj(Q, {'_next_i': Sym('i', 'int'), 'nodes': Sym('nodes', 'list')}), [Sym('method'), Sym('path')], {}

    def after(it, o):
        it.event('final-index', o.fields.get('_next_i'))

    it0 = Interp(repo, RotHooks(), max_depth=1)
    it0.external_exc_bases = dict(EXC_BASES)
    it0.loop_unroll = 3  # a re-sending loop is established by its second request; nothing is learnt from following it further
    res = it0.run_method(fi, make, after)
    want_idx = vrepr(App('op:Mod', App('op:Add', Sym('i'), 1), App('len', Sym('nodes'))))
    want_node = vrepr(App('getitem', Sym('nodes'), Sym('i')))
    sent = 0
    for p in res:
        reqs = [e for e in p.events if isinstance(e, tuple) and e[0] == 'request-to']
        fin = [e for e in p.events if isinstance(e, tuple) and e[0] == 'final-index']
        if not reqs:
            continue
        sent += 1
        kind = f'node raising {p.value.cls.rsplit(".", 1)[-1]}' if p.outcome == 'raise' else 'successful node' if p.outcome == 'return' else 'a loop that keeps sending'
        chk.ob('R-PATH', fi.qualname, len(reqs) == 1 and vrepr(reqs[0][1]) == want_node, f'{kind}: request goes to nodes[i]', fi.loc,
               {'target': [vrepr(r[1]) for r in reqs]}, what='the request is not sent to nodes[i] for the pre-advance index')
        chk.ob('R-PATH', fi.qualname, bool(fin) and vrepr(fin[-1][1]) == want_idx, f'{kind}: index advanced to (i+1) % n', fi.loc,
               {'final_index': vrepr(fin[-1][1]) if fin else None, 'outcome': p.outcome},
               what=f'after a request to a {kind} the rotation index is {vrepr(fin[-1][1]) if fin else None}, not (i + 1) % len(nodes): '
                    'a failing node is retried by every later request')
        if p.outcome not in ('return', 'raise'):
            continue
        if p.outcome == 'return':
            chk.ob('R-PATH', fi.qualname, vrepr(p.value) == '$response', 'returns the node response', fi.loc, {'value': vrepr(p.value)},
                   what='the node response is not returned')
        else:
            chk.ob('R-PATH', fi.qualname, p.value.cls in FAILURES, 'propagates the node error', fi.loc, {'exc': p.value.cls},
                   what='the node error is swallowed or replaced')
    chk.minimum('paths that send a request', sent, 1 + len(FAILURES))

    # CFG must-pass-through
    chk.set_clause('C28.2')
    g = CFG(fi.node)

    def assigns_index(a):
        tg = []
        if isinstance(a, ast.Assign):
            tg = a.targets
        elif isinstance(a, ast.AugAssign):
            tg = [a.target]
        return any(isinstance(t, ast.Attribute) and t.attr == '_next_i' for t in tg)

    # methods of the class that advance the index on every normal path (a helper a refactoring may have extracted): calling one is an advance
    advancing = set()

    def is_advance(n):
        if assigns_index(n.ast):
            return True
        return any(isinstance(c.func, ast.Attribute) and isinstance(c.func.value, ast.Name) and c.func.value.id == 'self' and c.func.attr in advancing
                   for e in node_exprs(n) for c in calls_in(e))

    # least fixed point: a helper that calls an advancing helper on every normal path advances as well
    changed = True
    while changed:
        changed = False
        for name, m in fi.cls.methods.items():
            if m is fi or name in advancing:
                continue
            mg = CFG(m.node)
            madv = set(mg.nodes_where(is_advance))
            if madv and mg.paths_avoiding(mg.entry, mg.exit, madv) is None:
                advancing.add(name)
                changed = True

    def is_delegate(n):
        return any(isinstance(c.func, ast.Attribute) and c.func.attr == 'request' for e in node_exprs(n) for c in calls_in(e))

    adv = set(g.nodes_where(is_advance))
    dele = g.nodes_where(is_delegate)
    chk.require(adv and dele, 'RpcMultiNode.request: advance or delegated call not found')
    same = [d for d in dele if d in adv]
    chk.require(not same, 'advance and delegated call in one statement: idiom not modelled')
    for d in dele:
        before = g.paths_avoiding(g.entry, d, adv) is None  # every path to the call advanced first
        for ex, name in ((g.exit, 'normal exit'), (g.xexit, 'exceptional exit')):
            p_after = g.paths_avoiding(d, ex, adv)
            ok = before or p_after is None
            chk.ob('R-PATH', fi.qualname, ok, f'advance on every path through the delegated call to the {name}',
                   f'{fi.module.relpath}:{d.line}', {'path_without_advance': g.describe_path(p_after) if p_after and not before else None},
                   what=f'a path through the node request reaches the {name} without advancing the rotation index')

    # ---- 2b every request of a client reaches the rotation: the verb helpers dispatch on the object (`self.request`, so that the pool's override is
    #         taken), and nothing in the RPC layer talks to a node's URI behind the back of `request`
    base_q = 'pytezos.rpc.node.RpcNode'
    nverbs = 0
    for vname in ('get', 'post', 'put', 'delete'):
        vm = repo.find_method(base_q, vname)
        if vm is None:
            continue
        nverbs += 1
        sends = [c for c in ast.walk(vm.node) if isinstance(c, ast.Call) and isinstance(c.func, ast.Attribute) and c.func.attr == 'request']
        dynamic = bool(sends) and all(isinstance(c.func.value, ast.Name) and c.func.value.id == 'self' for c in sends)
        chk.ob('R-FLOW', vm.qualname, dynamic, f'{vname.upper()} is sent through self.request (the override of a pool is taken)', vm.loc,
               {'calls': [norm(c.func) for c in sends]},
               what=f'RpcNode.{vname} sends through {[norm(c.func) for c in sends]}: on a multi-node client the request goes to the first URI and the rotation is not advanced')
    chk.minimum('verb helpers of RpcNode', nverbs, 4)
    direct = []
    allowed = {f.qualname for f in repo.with_fresh_callees(repo.func(f'{base_q}.request'))}  # request itself and the helpers later extracted from it
    for fi2 in repo.iter_functions('pytezos.rpc.'):
        if fi2.qualname in allowed:
            continue
        for c in ast.walk(fi2.node):
            if isinstance(c, ast.Call):
                d = dotted(c.func)
                if d and repo.resolve_name(fi2.module, d).startswith('requests.') and repo.resolve_name(fi2.module, d).rsplit('.', 1)[-1] in ('get', 'post', 'put', 'delete', 'request', 'head', 'patch', 'Session'):
                    direct.append(f'{fi2.module.relpath}:{c.lineno} {fi2.qualname}')
    chk.ob('R-FLOW', 'pytezos.rpc', not direct, 'the RPC layer makes HTTP requests only in RpcNode.request', None, {'direct_http_calls': direct},
           what=f'{direct[:2]} call the HTTP library directly: such a request of a multi-node client goes to a fixed URI and does not take part in the rotation')

    # ---- 3 the constructor establishes the invariant the rotation relies on: one node per configured URI, in order, index 0 ------------------
    chk.set_clause('C28.3')
    init = repo.func(f'{Q}.__init__')

    class InitHooks(Hooks):
        def inline(self, it, fi):
            return fi.qualname in (f'{Q}.__init__', 'pytezos.rpc.node.RpcNode.__init__')

        def call(self, it, callee, args, kwargs, node):
            from ..absint import ClassRef
            if isinstance(callee, ClassRef) and callee.qual == 'pytezos.rpc.node.RpcNode':
                it.event('node-for', args[0] if args else kwargs.get('uri'))
                return Obj('pytezos.rpc.node.RpcNode', {'uri': [args[0]] if args else None})
            return NotImplemented

    for what, uri, want in (('a single URI given as a string', 'http://node0', ['http://node0']),
                            ('a list with one URI', ['http://node0'], ['http://node0']),
                            ('a list of three URIs', ['http://n0', 'http://n1', 'http://n2'], ['http://n0', 'http://n1', 'http://n2']),
                            # a node listed twice gets two turns per round (weighting): the rotation is over the list AS GIVEN
                            ('a list naming one node twice', ['http://n0', 'http://n0', 'http://n1'], ['http://n0', 'http://n0', 'http://n1'])):
        def mk(uri=uri):
            import copy
            return Obj(Q, {}), [copy.deepcopy(uri)], {}

        final = {}

        def after(it, o, final=final):
            it.event('final-state', o.fields.get('_next_i'), len(o.fields['nodes']) if isinstance(o.fields.get('nodes'), list) else vrepr(o.fields.get('nodes')))

        res = Interp(repo, InitHooks(), max_depth=2).run_method(init, mk, after)
        ok = len(res) == 1 and res[0].outcome == 'return'
        nodes = [e[1] for p in res for e in p.events if isinstance(e, tuple) and e[0] == 'node-for']
        fin = [e for p in res for e in p.events if isinstance(e, tuple) and e[0] == 'final-state']
        ok = ok and nodes == want and bool(fin) and fin[-1][1] == 0 and fin[-1][2] == len(want)
        chk.ob('R-TEMPLATE', init.qualname, ok, f'{what}: one node proxy per URI, in order, rotation starts at 0', init.loc,
               {'proxies_for': [vrepr(n) for n in nodes], 'final': [vrepr(list(e[1:])) for e in fin]},
               what=f'RpcMultiNode({uri!r}) builds node proxies for {[vrepr(n) for n in nodes]} (expected {want}, index 0): requests go to the wrong addresses')


def controls(chk: Check) -> None:
    src = "def f(self):\n    r = self.n[self._next_i].request()\n    self._next_i = 1\n    return r\n"
    g = CFG(ast.parse(src).body[0])
    adv = {n for n in g.nodes if isinstance(n.ast, ast.Assign) and isinstance(n.ast.targets[0], ast.Attribute)}
    d = [n for n in g.nodes if n.kind == 'stmt' and 'request' in norm(n.ast) and n not in adv][0]
    if g.paths_avoiding(d, g.xexit, adv) is None:
        raise AnalysisError('positive control of the exceptional-edge rule failed')

