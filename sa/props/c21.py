"""C21 BLS12-381 operations respect group and field laws (encoding structure only).

 1 symbolic round trip to_point(from_point(P)) for G1 and G2: a finite point comes back as its normalised coordinates in the same
   order (x, y / x_re, x_im, y_re, y_im); the point at infinity comes back as the identity (third coordinate zero)
 2 Fr: the modulus is the BLS12-381 scalar field order, from_value reduces modulo it, bytes are little-endian in both directions (32 bytes)
 3 PAIRING_CHECK pairs (G2 point, G1 point) in the order py_ecc expects, starts from FQ12.one() and compares with FQ12.one()
Group and field laws themselves are arithmetic of py_ecc and are not decided.
"""
from __future__ import annotations

from typing import Any, List

from ..absint import App, Builtin, ClassRef, FuncRef, Hooks, Interp, ModRef, Obj, Sym, vkey, vrepr
from ..model import AnalysisError, Repo
from ..report import Check

B = 'pytezos.michelson.types.bls'
R_ORDER = 0x73EDA753299D7D483339D80809A1D80553BDA402FFFE5BFEFFFFFFFF00000001


def tb(v, n, order='big'):
    return App('tb', v, n, order)


def norm_bytes(v):
    """a concatenation of fixed-width fields, however it was spelled (a + b, b''.join(...)), is one `bytes` term"""
    if isinstance(v, App) and v.op == 'cat' and all(isinstance(p, App) and p.op in ('tb', 'bytes') for p in v.args):
        parts = []
        for p in v.args:
            parts.extend(p.args if p.op == 'bytes' else (p,))
        return App('bytes', *parts)
    return v


class BlsHooks(Hooks):
    def __init__(self, inf: bool):
        self.inf = inf

    def inline(self, it, fi):
        return fi.module.name == B

    def name(self, it, name, node):
        # the infinity flag, by provenance (py_ecc's constant, or a module constant that folds to 2^382), not by what the module calls it
        mi = it.repo.modules[B]
        if mi.imports.get(name) == 'py_ecc.bls.constants.POW_2_382' or (name in mi.assigns and it.repo.fold(mi.assigns[name], mi) == 2 ** 382):
            return Sym('POW_2_382', 'int')
        return NotImplemented

    def attr(self, it, obj, name, node):
        if name == 'n' and isinstance(obj, Sym):
            return Sym(obj.name + '.n', 'int')
        if name == 'coeffs' and isinstance(obj, Sym):
            return (Sym(obj.name + '.re', 'int'), Sym(obj.name + '.im', 'int'))
        return NotImplemented

    def call(self, it, callee, args, kwargs, node):
        if isinstance(callee, ModRef):
            n = callee.name
            if n.endswith('.is_inf'):
                return self.inf
            if n.endswith('.normalize'):
                return (Sym('x'), Sym('y'))
            if n.endswith('optimized_bls12_381_FQ') or n.endswith('.FQ'):
                return App('FQ', *args)
            if n.endswith('optimized_bls12_381_FQ2') or n.endswith('.FQ2'):
                return App('FQ2', *args)
        # <int>.to_bytes(48, 'big')
        if isinstance(callee, App) and callee.op == 'attr' and callee.args[1] == 'to_bytes':
            return tb(callee.args[0], args[0], args[1] if len(args) > 1 else kwargs.get('byteorder', 'big'))
        from ..absint import BoundMethod
        if isinstance(callee, BoundMethod) and callee.name == 'to_bytes' and isinstance(callee.recv, int):
            return tb(callee.recv, args[0], args[1] if len(args) > 1 else kwargs.get('byteorder', 'big'))
        if isinstance(callee, Builtin) and callee.name == 'int.from_bytes':
            src, order = args[0], args[1] if len(args) > 1 else kwargs.get('byteorder')
            if isinstance(src, App) and src.op == 'tb' and src.args[2] == order:
                return src.args[0]
            return App('from_bytes', src, order)
        if isinstance(callee, ClassRef) and callee.qual.startswith(B):
            return Obj(callee.qual, {'value': norm_bytes(args[0] if args else kwargs.get('value'))})
        if isinstance(callee, FuncRef) and callee.fi is not None and callee.fi.name == 'from_value' and callee.fi.cls is not None \
                and callee.fi.cls.name.startswith('BLS12_381_G'):
            it.event('from_value', args[0])
            return Obj(callee.self_val.qual if isinstance(callee.self_val, ClassRef) else callee.fi.cls.qualname, {'value': args[0]})
        return NotImplemented

    def compare(self, it, op, a, b, node):
        if op in ('==', '!='):
            names = {x.name for x in (a, b) if isinstance(x, Sym)}
            if 'POW_2_382' in names and len(names) == 2:
                return op == '!='  # coordinates of a normalised point are field elements < p < 2^382
            if 'POW_2_382' in names and any(isinstance(x, int) for x in (a, b)):
                return op == '!='
            if isinstance(a, Sym) and isinstance(b, int) or isinstance(b, Sym) and isinstance(a, int):
                return None if False else NotImplemented
        return NotImplemented

    def binop(self, it, op, a, b, node):
        if op == 'Add' and all(isinstance(x, App) and x.op in ('tb', 'bytes') for x in (a, b)):
            return App('bytes', *(a.args if a.op == 'bytes' else (a,)), *(b.args if b.op == 'bytes' else (b,)))
        return NotImplemented

    def subscript(self, it, obj, idx, node):
        obj = norm_bytes(obj)
        if isinstance(obj, App) and obj.op == 'bytes' and isinstance(idx, slice):
            parts = obj.args
            pos = 0
            lo = idx.start or 0
            hi = idx.stop if idx.stop is not None else sum(p.args[1] for p in parts)
            for p in parts:
                n = p.args[1]
                if pos == lo and pos + n == hi:
                    return p
                pos += n
            return App('window', obj, lo, hi)
        return NotImplemented


def run(repo: Repo, chk: Check) -> None:
    chk.explanation = (
        'from_point and to_point of the G1/G2 types are interpreted with symbolic coordinates; their composition is computed '
        'symbolically (byte concatenation / slicing by the 48-byte layout) for a finite point and for the point at infinity.  '
        'Fr constants and byte order, and the wiring of PAIRING_CHECK, are compared with the reference.  Group/field laws are py_ecc '
        'arithmetic and are not decided.'
    )
    chk.set_clause('C21.1')
    for g, ncoord in (('BLS12_381_G1Type', 2), ('BLS12_381_G2Type', 4)):
        q = f'{B}.{g}'
        fp, tp = repo.func(f'{q}.from_point'), repo.func(f'{q}.to_point')
        for inf in (False, True):
            it = Interp(repo, BlsHooks(inf), max_depth=3)

            def go(i, fp=fp, tp=tp, q=q):
                v = i.call_function(FuncRef(fp, ClassRef(q), True), [Sym('point')], {}, None, force_inline=True)
                i.event('encoded', v.fields.get('value') if isinstance(v, Obj) else v)
                return i.call_function(FuncRef(tp, v, True), [], {}, None, force_inline=True)

            res = it.run_paths(go)
            ok = len(res) == 1 and res[0].outcome == 'return'
            got = res[0].value if ok else None
            enc = [e for e in res[0].events if isinstance(e, tuple) and e[0] == 'encoded'] if ok else []
            encoded = vrepr(norm_bytes(enc[0][1])) if enc else None
            if not inf:
                if ncoord == 2:
                    want = "(FQ($x.n), FQ($y.n), FQ(1))"
                else:
                    want = "(FQ2([$x.re, $x.im]), FQ2([$y.re, $y.im]), FQ2([1, 0]))"
                ok = ok and vrepr(got) == want
                # layout: 48-byte big-endian fields, imaginary part first for G2
                layout = encoded
                want_layout = "bytes(tb($x.n, 48, 'big'), tb($y.n, 48, 'big'))" if ncoord == 2 else \
                    "bytes(tb($x.im, 48, 'big'), tb($x.re, 48, 'big'), tb($y.im, 48, 'big'), tb($y.re, 48, 'big'))"
                chk.ob('R-PAIR', f'{q}.from_point', layout == want_layout, 'finite point: 48-byte big-endian coordinates in Tezos order', fp.loc,
                       {'layout': layout, 'reference': want_layout}, what=f'{g} serialises a finite point as {layout}; Tezos (zcash format): {want_layout}')
                chk.ob('R-PAIR', f'{q}.to_point', ok, 'finite point: to_point(from_point(P)) gives back the normalised coordinates in order', tp.loc,
                       {'result': vrepr(got), 'expected': want}, what=f'{g}: reading back a serialised finite point gives {vrepr(got)}, expected {want}')
            else:
                is_identity = False
                if isinstance(got, ModRef) and got.name.rsplit('.', 1)[-1] in ('Z1', 'Z2'):
                    is_identity = True
                if isinstance(got, tuple) and got and vrepr(got[-1]) in ('FQ(0)', 'FQ2([0, 0])', "call:py_ecc.fields.optimized_bls12_381_FQ.zero()", "call:py_ecc.fields.optimized_bls12_381_FQ2.zero()"):
                    is_identity = True
                # the infinity flag is bit 6 of the FIRST byte of the encoding (zcash format): 2^382 in the first 48-byte field, zeros after it
                want_inf = 'bytes(' + ', '.join(["tb($POW_2_382, 48, 'big')"] + ["tb(0, 48, 'big')"] * (ncoord - 1)) + ')'
                chk.ob('R-PAIR', f'{q}.from_point', encoded == want_inf, 'point at infinity: flag 2^382 in the first 48-byte field, every other field zero', fp.loc,
                       {'encoding': encoded, 'reference': want_inf},
                       what=f'{g}.from_point writes the point at infinity as {encoded}; Tezos (zcash format) is 0x40 followed by zeros, i.e. {want_inf}: '
                            'the neutral element leaves the interpreter as bytes no node accepts, and the canonical encoding is not recognised on the way in')
                chk.ob('R-PAIR', f'{q}.to_point', ok and is_identity, 'point at infinity: to_point recognises the encoding from_point writes', tp.loc,
                       {'encoding': encoded, 'read_back_as': vrepr(got)},
                       what=f'{g}.from_point writes the point at infinity as {encoded} but to_point reads it back as the finite-looking point {vrepr(got)[:120]}: '
                            'ADD/NEG/MUL/PAIRING_CHECK with the neutral element are wrong')
    # length guards
    for g, n in (('BLS12_381_G1Type', 96), ('BLS12_381_G2Type', 192)):
        fv = repo.func(f'{B}.{g}.from_value')
        res = Interp(repo, _LenHooks(), max_depth=1).run_function(fv, [Sym('value', 'bytes')], self_val=ClassRef(f'{B}.{g}'))
        acc = [p for p in res if p.outcome == 'return']
        ok = bool(acc) and all(any(b and vrepr(c) in (f'==({n}, len($value))', f'==(len($value), {n})') for c, b in p.conds) for p in acc)
        chk.ob('R-GUARD', fv.qualname, ok, f'values are exactly {n} bytes', fv.loc, {'accepting': [p.cond_repr() for p in acc]}, what=f'{g} accepts byte strings of another length')

    chk.set_clause('C21.2')
    fr = repo.cls(f'{B}.BLS12_381_FrType')
    mod_at = repo.class_attr(fr.qualname, 'modulus')
    mod = repo.fold(mod_at[1], mod_at[0].module) if mod_at is not None else None
    chk.ob('R-TABLE', fr.qualname, mod == R_ORDER, 'modulus is the scalar field order r', fr.loc, {'modulus': hex(mod) if isinstance(mod, int) else None}, what='Fr modulus differs from the BLS12-381 scalar field order')
    fv = repo.find_method(fr.qualname, 'from_value')  # wherever in the hierarchy it lives
    if fv is None:
        raise AnalysisError('C21: BLS12_381_FrType has no from_value')
    res = Interp(repo, _LenHooks(), max_depth=1).run_function(fv, [Sym('value', 'int')], self_val=ClassRef(fr.qualname))

    def reduced(p) -> bool:
        """the stored value is value mod r, or the value itself on a path whose conditions put it inside 0 <= value < r"""
        if p.outcome != 'return' or not isinstance(p.value, Obj):
            return False
        stored = vrepr(p.value.fields.get('value'))
        if stored == f'op:Mod($value, {R_ORDER})':
            return True
        if stored != '$value':
            return False
        conds = [(vrepr(c), b) for c, b in p.conds]
        below = any((c in (f'<($value, {R_ORDER})', f'>({R_ORDER}, $value)', f'<=($value, {R_ORDER - 1})', f'>=({R_ORDER - 1}, $value)') and b)
                    or (c in (f'>=($value, {R_ORDER})', f'<=({R_ORDER}, $value)', f'>($value, {R_ORDER - 1})') and not b) for c, b in conds)
        above = any((c in ('>=($value, 0)', '<=(0, $value)', '>($value, -1)', '<(-1, $value)') and b) or (c in ('<($value, 0)', '>(0, $value)') and not b) for c, b in conds)
        return below and above

    ok = bool(res) and all(reduced(p) for p in res)
    chk.ob('R-TEMPLATE', fv.qualname, ok, 'from_value reduces modulo r', fv.loc,
           {'paths': [(p.cond_repr(), vrepr(p.value.fields.get('value')) if isinstance(p.value, Obj) else p.outcome) for p in res][:4]},
           what='Fr values are not reduced modulo the field order on every path: ' +
                '; '.join(f'[{p.cond_repr()}] stores {vrepr(p.value.fields.get("value")) if isinstance(p.value, Obj) else p.outcome}' for p in res if not reduced(p))[:300])
    b2i = fr.methods['bytes_to_int']
    res = Interp(repo, _LenHooks(), max_depth=1).run_function(b2i, [Sym('value', 'bytes')])
    acc = [p for p in res if p.outcome == 'return']
    ok1 = bool(acc) and all(vrepr(p.value) == "call:int.from_bytes($value, 'little')" for p in acc) and \
        all(any(b and vrepr(c) == '<=(len($value), 32)' for c, b in p.conds) for p in acc)
    tm = fr.methods['to_micheline_value']
    res = Interp(repo, _LenHooks(), max_depth=1).run_method(tm, lambda: (Obj(fr.qualname, {'value': Sym('v', 'int')}), [], {'mode': 'optimized'}))
    ok2 = len(res) == 1 and vrepr(res[0].value) == "{'bytes': mcall:hex(mcall:to_bytes($v, 32, 'little'))}"
    chk.ob('R-PAIR', fr.qualname, ok1 and ok2, 'little-endian, 32 bytes, in both directions', fr.loc, {'read': [vrepr(p.value) for p in acc], 'write': [vrepr(p.value) for p in res]},
           what='Fr bytes are read and written with different byte order or width')

    chk.set_clause('C21.3')
    pc = repo.func('pytezos.michelson.instructions.crypto.PairingCheckInstruction.execute')
    res = Interp(repo, _PairingHooks(), max_depth=2).run_function(pc, [Sym('stack'), [], Sym('context')],
                                                                 self_val=ClassRef('pytezos.michelson.instructions.crypto.PairingCheckInstruction'))
    calls = [e for p in res for e in p.events if isinstance(e, tuple) and e[0] == 'pairing']
    pushed = [e for p in res for e in p.events if isinstance(e, tuple) and e[0] == 'push']
    ok = len(res) == 1 and len(calls) == 1 and vrepr(calls[0][1]) == 'mcall:to_point($g2)' and vrepr(calls[0][2]) == 'mcall:to_point($g1)'
    okp = len(pushed) == 1 and 'FQ12.one' in vrepr(pushed[0][1]) and 'pairing' in vrepr(pushed[0][1])
    chk.ob('R-TABLE', pc.qualname, ok, 'pairing(G2 point, G1 point) for each (g1, g2) pair of the list', pc.loc, {'calls': [(vrepr(c[1]), vrepr(c[2])) for c in calls]},
           what='the pairing is called with its arguments in the wrong groups/order')
    chk.ob('R-TEMPLATE', pc.qualname, okp, 'result is (one == product of pairings starting from one)', pc.loc, {'pushed': [vrepr(p[1])[:200] for p in pushed]},
           what='PAIRING_CHECK does not compare the product of the pairings with one')
    # a list that names the same pair twice has two factors (the product is over the LIST, not over the distinct pairs)
    h2 = _PairingHooks()
    h2.repeat = 2
    res2 = Interp(repo, h2, max_depth=2).run_function(pc, [Sym('stack'), [], Sym('context')], self_val=ClassRef('pytezos.michelson.instructions.crypto.PairingCheckInstruction'))
    pushed2 = [e for p in res2 for e in p.events if isinstance(e, tuple) and e[0] == 'push']
    nfac = vrepr(pushed2[0][1]).count('pairing(') if len(pushed2) == 1 else -1
    chk.ob('R-TEMPLATE', pc.qualname, len(res2) == 1 and nfac == 2, 'a pair listed twice contributes two factors', pc.loc, {'factors': nfac, 'pushed': [vrepr(p[1])[:200] for p in pushed2]},
           what=f'for the list [(P, Q); (P, Q)] the product has {nfac} factor(s): repeated pairs are counted once, so e(P,Q)^2 * e(-2P,Q) = 1 is rejected and invalid relations are accepted')


class _LenHooks(Hooks):
    def call(self, it, callee, args, kwargs, node):
        if isinstance(callee, ClassRef):
            return Obj(callee.qual, {'value': args[0] if args else None})
        if isinstance(callee, Builtin) and callee.name == 'int.from_bytes':
            return App('call:int.from_bytes', *args)
        return NotImplemented


class _PairingHooks(Hooks):
    def inline(self, it, fi):
        return fi.name == 'execute'

    def call(self, it, callee, args, kwargs, node):
        if isinstance(callee, App) and callee.op == 'attr':
            recv, name = callee.args
            if name == 'pop1':
                return Sym('points')
            if name == 'push':
                it.event('push', args[0])
                return None
            if name in ('assert_type_equal', 'append'):
                return None
        if isinstance(callee, ModRef):
            if callee.name.endswith('.pairing'):
                it.event('pairing', args[0], args[1])
                return App('pairing', *args)
            if callee.name.endswith('FQ12.one'):
                return App('FQ12.one')
        if isinstance(callee, FuncRef) and callee.fi is not None:
            if callee.fi.name in ('format_stdout', 'create_type'):
                return 'x'
            if callee.fi.name == 'from_value':
                return App('BoolType', args[0])
        if isinstance(callee, ClassRef):
            return Sym('instr')
        return NotImplemented

    def iterate(self, it, obj, node):
        if isinstance(obj, Sym) and obj.name == 'points':
            return [Sym('pair')] * getattr(self, 'repeat', 1)
        if isinstance(obj, Sym) and obj.name == 'pair':
            return [Sym('g1'), Sym('g2')]
        return NotImplemented

    def binop(self, it, op, a, b, node):
        if op == 'Mult':
            return App('mul', a, b)
        return NotImplemented


def controls(chk: Check) -> None:
    if R_ORDER.bit_length() != 255:
        raise AnalysisError('reference Fr order corrupted')
