"""C24 Automatically chosen fees meet the node's default minimal fee (symbolic inequality on linear forms).

The fee written by fill() and by autofill() is obtained as a LINEAR FORM over opaque content sizes SIZE_i and gas amounts by
abstract interpretation (node, key and simulation opaque).  The node's default minimum for the signed group is
    100 + (32 + sum SIZE_i + growth + siglen) + ceil(sum gas_i / 10)
so `fee >= minimum` for ALL sizes and gas amounts holds iff
   (a) every SIZE_i has coefficient >= 1 in the total fee,
   (b) every content's gas appears with the 0.1 mutez/unit price (floor, compensated by the constant),
   (c) the constant part >= 100 + 32 + siglen + growth(2) + n  (n absorbs floor-vs-ceil of the gas terms).
These three are decided per scenario (fill / autofill, 1 or 2 contents) and per signature length (64: tz1-tz3, 96: tz4).
Also: the three price constants equal the node defaults.
"""
from __future__ import annotations

from typing import Any, Dict, List

from ..absint import App, FuncRef, Interp, Obj, Sym, vrepr
from ..groupmodel import CTX, G, GroupHooks, lin, lin_repr, mk_group
from ..model import AnalysisError, Repo
from ..report import Check

F = 'pytezos.operation.fees'
GROWTH = 2  # the fee field is forged as '0' (1 byte) when the size is measured; a fee below 2^21 mutez takes at most 3 bytes


def total_fee(group: Obj) -> Any:
    tot: Any = 0
    for c in group.fields['contents']:
        v = c.get('fee')
        if isinstance(v, App) and v.op == 'str':
            v = v.args[0]
        if isinstance(v, str):
            v = int(v)
        tot = v if tot == 0 else (tot if v == 0 else App('op:Add', tot, v))
    return tot


def run(repo: Repo, chk: Check) -> None:
    chk.explanation = (
        'The fee chosen by fill()/autofill() is reduced to a linear form over opaque content sizes and gas amounts; the inequality '
        'against the node minimum is decided coefficient-wise (sizes, gas terms, constant part) per scenario and signature '
        'length.  The concrete sizes and simulated gas are runtime quantities and stay symbolic; the assumption on the fee field '
        'growth is stated.'
    )
    chk.assumptions += ['the chosen fee is below 2^21 mutez (its own encoding grows by at most 2 bytes over the placeholder)',
                        'limits and counter are already filled when the size is measured (checked by the order of replace_map)']
    mi = repo.module(F)
    # ---- memory across calls first (shared rule, sa/statelint.py): a remembered answer is a violation on its own, and the interpretation below
    # does not model module-level caches
    chk.set_clause('C24.M')
    from ..statelint import check_memory
    check_memory(repo, chk, ['pytezos.operation.fees.', 'pytezos.operation.group.'],
                 'the gas / size priced is the one of an earlier operation')
    chk.set_clause('C24.1')
    consts = {n: repo.const(f'{F}.{n}') for n in ('MINIMAL_FEES', 'MINIMAL_MUTEZ_PER_BYTE', 'MINIMAL_MUTEZ_PER_GAS_UNIT')}
    chk.ob('R-TABLE', f'{F}.MINIMAL_FEES', consts['MINIMAL_FEES'] == 100, 'minimal fees 100 mutez', mi.relpath, consts, what='node default is 100 mutez')
    chk.ob('R-TABLE', f'{F}.MINIMAL_MUTEZ_PER_BYTE', consts['MINIMAL_MUTEZ_PER_BYTE'] == 1, '1 mutez per byte', mi.relpath, consts, what='node default is 1 mutez/byte')
    chk.ob('R-TABLE', f'{F}.MINIMAL_MUTEZ_PER_GAS_UNIT', consts['MINIMAL_MUTEZ_PER_GAS_UNIT'] == 0.1, '0.1 mutez per gas unit', mi.relpath, consts,
           what='node default is 100 nanotez per gas unit')

    # fallback protocol constants used by fill() to price the default gas limit (Quebec/Rio: 1 040 000 gas, 60 000 bytes per operation)
    dc = repo.const(f'{F}.DEFAULT_CONSTANTS')
    chk.ob('R-TABLE', f'{F}.DEFAULT_CONSTANTS', dc.get('hard_gas_limit_per_operation') == 1040000 and dc.get('hard_storage_limit_per_operation') == 60000,
           'fallback hard limits equal the protocol constants (1040000 gas, 60000 storage)', mi.relpath, {'found': dc},
           what=f'DEFAULT_CONSTANTS is {dc}: fill() prices contract calls and originations with this gas limit while the limit written comes from the node '
                f'(1040000): the fee is below the minimum')
    fill, autofill = repo.func(f'{G}.fill'), repo.func(f'{G}.autofill')

    def call(it, fi, obj, *args, **kwargs):
        return it.call_function(FuncRef(fi, obj, True), list(args), dict(kwargs), None, force_inline=True)

    limits_written: Dict[str, List[Any]] = {}

    def fee_and_limits(name, group):
        lim = []
        for c in group.fields['contents']:
            v = c.get('gas_limit')
            if isinstance(v, App) and v.op == 'str':
                v = v.args[0]
            lim.append(v)
        limits_written[name] = lim
        return total_fee(group)

    scenarios = {
        'fill, 1 content': lambda it: fee_and_limits('fill, 1 content', call(it, fill, mk_group(1))),
        'fill, 2 contents': lambda it: fee_and_limits('fill, 2 contents', call(it, fill, mk_group(2))),
        'autofill, 1 content': lambda it: fee_and_limits('autofill, 1 content', call(it, autofill, mk_group(1))),
        'autofill, 2 contents': lambda it: fee_and_limits('autofill, 2 contents', call(it, autofill, mk_group(2))),
        'autofill, 3 contents': lambda it: fee_and_limits('autofill, 3 contents', call(it, autofill, mk_group(3))),
    }
    chk.set_clause('C24.2')
    for name, driver in scenarios.items():
        n = int(name.split(',')[1].split()[0])
        it = Interp(repo, GroupHooks(repo, inline_fees=True), max_depth=8)
        res = it.run_paths(driver)
        where = fill if name.startswith('fill') else autofill
        if len(res) != 1 or res[0].outcome != 'return':
            raise AnalysisError(f'C24 scenario {name}: {len(res)} paths / {res[0].outcome if res else None}: idiom not modelled')
        form = lin(res[0].value)
        if form is None:
            raise AnalysisError(f'C24 scenario {name}: fee is not a linear form: {vrepr(res[0].value)[:200]}')
        const, coefs = form
        sizes = {k: v for k, v in coefs.items() if k.startswith('SIZE_')}
        gas_atoms = [k for k in coefs if k.startswith('int(op:Div(op:Mult(')]
        facts = {'fee': lin_repr(res[0].value)[:600], 'constant': const}
        # (a)
        missing = [i for i in range(n) if sizes.get(f'SIZE_{i}', 0) < 1]
        chk.ob('R-FLOW', where.qualname, not missing, f'{name}: every content\'s size is paid for', where.loc, dict(facts, size_coefficients=sizes),
               what=f'{name}: the bytes of content(s) {missing} do not enter the fee: with a batch the fee covers the first content only and is below '
                    'the node minimum of 1 mutez per byte of the whole group')
        # (b)
        gas_const = 0
        if name.startswith('fill'):
            # fill prices the DEFAULT gas limit of each content (a constant for an implicit destination); the limit written into
            # the content is min(hard limit share, default) <= default, so the default is an upper bound of what the node charges
            dgl = repo.func(f'{F}.default_gas_limit')
            g0 = Interp(repo, GroupHooks(repo, inline_fees=True), max_depth=2).run_function(dgl, [dict(mk_group(1).fields['contents'][0], source='tz1source')])
            if len(g0) != 1 or not isinstance(g0[0].value, int):
                raise AnalysisError('default_gas_limit of a plain transfer is not a constant: idiom not modelled')
            gas_const = -(-g0[0].value * n // 10)  # ceil(sum/10)
            facts['default_gas_limit'] = g0[0].value
        else:
            gas_missing = [i for i in range(n) if not any(
                f'$GAS_{i}' in a and a.startswith('int(op:Div(op:Mult(100,') and a.endswith(', 1000))') and coefs[a] >= 1 for a in gas_atoms)]
            chk.ob('R-FLOW', where.qualname, not gas_missing, f'{name}: every content\'s simulated gas is paid for at 100 nanotez/unit', where.loc,
                   dict(facts, gas_terms=gas_atoms), what=f'{name}: the gas of content(s) {gas_missing} does not enter the fee at 0.1 mutez per unit')
            # the node charges for the gas LIMIT written into the content (simulated gas + reserve), not for the simulated gas alone
            unpaid = []
            for i, lim in enumerate(limits_written.get(name, [])):
                want_atom = f'int(op:Div(op:Mult(100, {vrepr(lim)}), 1000))'
                if not any(a == want_atom and coefs[a] >= 1 for a in gas_atoms):
                    unpaid.append({'content': i, 'gas_limit_written': vrepr(lim), 'gas_priced': [a for a in gas_atoms if f'$GAS_{i}' in a]})
            chk.ob('R-FLOW', where.qualname, not unpaid and bool(limits_written.get(name)), f'{name}: the gas priced is the gas_limit written into the content', where.loc,
                   dict(facts, unpaid=unpaid), what=f'{name}: the fee prices {[u["gas_priced"] for u in unpaid][:1]} but the content carries gas_limit '
                                                    f'{[u["gas_limit_written"] for u in unpaid][:1]}: the reserve added to the limit is not paid for and the fee falls below the minimum')
        # (c)
        for siglen, kinds in ((64, 'tz1/tz2/tz3'), (96, 'tz4')):
            need = 100 + 32 + siglen + GROWTH + n + gas_const
            chk.ob('R-GUARD', where.qualname, const >= need, f'{name}: constant part covers branch + {siglen}-byte signature ({kinds})', where.loc,
                   dict(facts, needed=need),
                   what=f'{name}: the size-independent part of the fee is {const} mutez; branch (32) + a {siglen}-byte signature + fee-field growth + rounding need '
                        f'{need} on top of nothing else: a {kinds} account gets a fee below the node default minimum')

    # a simulation that FAILS (run_operation answers with an error): autofill either fails as well, or whatever group it hands back instead is
    # priced for all of its contents (falling back to fill() prices the first content only - see the known findings on fill)
    for n in (1, 2):
        name = f'autofill, {n} content{"s" if n > 1 else ""}, simulation fails'
        it = Interp(repo, GroupHooks(repo, inline_fees=True, simulation_fails=True), max_depth=8)
        res = it.run_paths(lambda i, n=n: total_fee(call(i, autofill, mk_group(n))))
        returned = [p for p in res if p.outcome == 'return']
        unpaid = []
        for p in returned:
            form = lin(p.value)
            sizes = {k: v for k, v in form[1].items() if k.startswith('SIZE_')} if form else {}
            if form is None or any(sizes.get(f'SIZE_{i}', 0) < 1 for i in range(n)):
                unpaid.append(lin_repr(p.value)[:300] if form else vrepr(p.value)[:300])
        chk.ob('R-FLOW', autofill.qualname, bool(res) and not unpaid, f'{name}: no group is handed back with a fee that leaves contents unpaid', autofill.loc,
               {'paths': [p.outcome for p in res], 'fees_of_returned_groups': unpaid},
               what=f'{name}: autofill swallows the failure and returns a group whose fee is {unpaid[:1]}: contents beyond the first are not paid for, the group is '
                    'below the node minimum')

    # the content whose size is priced is the content that is written: when the size of content i is measured, every field other than the
    # fee itself already has the value the returned group carries (limits, counter, source, a self-registration delegate ...)
    chk.set_clause('C24.3')
    nmeas = 0
    for name, fi_, mk in (('fill, transfer', fill, lambda: mk_group(1)), ('fill, 2 transfers', fill, lambda: mk_group(2)),
                          ('fill, delegation with empty delegate (self-registration)', fill, lambda: mk_group(1, kind='delegation', extra={'delegate': ''})),
                          ('autofill, transfer', autofill, lambda: mk_group(1)), ('autofill, 2 transfers', autofill, lambda: mk_group(2)),
                          ('autofill, delegation with empty delegate (self-registration)', autofill, lambda: mk_group(1, kind='delegation', extra={'delegate': ''}))):
        it = Interp(repo, GroupHooks(repo, inline_fees=True), max_depth=8)
        res = it.run_paths(lambda i, fi_=fi_, mk=mk: call(i, fi_, mk()))
        if len(res) != 1 or res[0].outcome != 'return':
            raise AnalysisError(f'C24.3 scenario {name}: {[p.outcome for p in res]}: idiom not modelled')
        final = {str(c.get('_tag')): c for c in res[0].value.fields['contents']}
        measured: Dict[str, Dict[str, Any]] = {}
        for e in res[0].events:
            if isinstance(e, tuple) and e[0] == 'measured':
                measured[e[1]] = e[2]  # the last measurement of a content is the one its final fee is computed from
        diffs = []
        for idx, snap in measured.items():
            fin = final.get(idx)
            if fin is None:
                continue
            for k in sorted(set(snap) | set(fin)):
                if k in ('fee', '_tag', 'metadata'):
                    continue
                a, b = snap.get(k, '<absent>'), fin.get(k, '<absent>')
                if vrepr(a) != vrepr(b):
                    diffs.append({'content': idx, 'field': k, 'when_measured': vrepr(a)[:60], 'written': vrepr(b)[:60]})
        nmeas += len(measured)
        priced_first_only = name.startswith('fill, 2')  # known finding (fill prices the first content only): content 1 is never measured
        chk.ob('R-PATH', fi_.qualname, bool(measured) and not diffs, f'{name}: every field but the fee has its final value when the size is measured', fi_.loc,
               {'measured_contents': sorted(measured), 'differences': diffs[:4]},
               what=f'{name}: the size priced is that of a content whose {[d["field"] for d in diffs][:3]} still differ(s) from what is written '
                    f'({diffs[:1]}): the operation injected is longer than the one paid for')
    chk.minimum('size measurements', nmeas, 6)
