"""C30 Protocol source diffs apply and revert exactly (bounded, line contents opaque).

The control flow of apply_patch depends only on the *shape* of the patch (which lines are headers, the sign character of every body
line, which lines lack a final newline) and on the integers written in the hunk headers - never on what a source line says.  So the
texts are abstracted to sequences of opaque line symbols (two texts share a symbol where they share a line) and the code is
interpreted on them:

 1 make_patch hands `a.splitlines(True)` / `b.splitlines(True)` and the context size to difflib.unified_diff, and every emitted line
   that lacks a final newline is followed by a marker line starting with a backslash (all shapes of clause 2 go through it)
 2 for every pair of abstract texts (up to N lines over an alphabet of K opaque lines, each with and without final newline, and the
   empty text) and every context size 0..3:  apply_patch(a, make_patch(a, b)) is the line sequence of b, and
   apply_patch(b, make_patch(a, b), revert=True) is the line sequence of a.  The hunks are those of the stdlib difflib run on
   placeholder tokens for the opaque lines (difflib is the oracle side, not repository code).
   plus a fixed family of 13-line texts (one line replaced / deleted / inserted at lines 10..13, two hunks, last line without newline) so that
   hunk headers with numbers of more than one digit and with an omitted count are read (contexts 0, 1, 3)
 3 apply_patch rejects a hunk header it cannot parse and a hunk that starts before the current position or beyond the source
 4 Protocol.diff / Protocol.patch wiring: the missing file is the empty text on both sides, the caller's context size reaches
   make_patch, an empty diff leaves the text as it is, a non-empty one goes through apply_patch(text, diff)
"""
from __future__ import annotations

import ast
import difflib
import itertools
import re as _re
from typing import Any, Dict, List, Tuple

from ..absint import App, BoundMethod, Builtin, FuncRef, Hooks, Interp, ModRef, Sym, cat, vkey, vrepr
from ..model import AnalysisError, Repo
from ..report import Check

D = 'pytezos.protocol.diff'
P = 'pytezos.protocol.protocol'


def segs(v: Any) -> List[Any]:
    if isinstance(v, str):
        return [v] if v else []
    if isinstance(v, Sym):
        return [v]
    if isinstance(v, App) and v.op == 'cat':
        return list(v.args)
    raise AnalysisError(f'C30: not a text value: {vrepr(v)}')


def is_text(v: Any) -> bool:
    if isinstance(v, Sym):
        return v.typ == 'str'
    return isinstance(v, App) and v.op == 'cat' and all(isinstance(s, str) or (isinstance(s, Sym) and s.typ == 'str') for s in v.args)


def text(*parts) -> Any:
    r = cat(*parts)
    return '' if isinstance(r, bytes) and not r else r


def splitlines_keep(v: Any) -> List[Any]:
    """str.splitlines(True) on an abstract text whose opaque segments contain no line boundary."""
    lines: List[Any] = []
    cur: List[Any] = []
    for s in segs(v):
        if isinstance(s, Sym):
            cur.append(s)
            continue
        if any(c in s for c in '\r\x0b\x0c\x1c\x1d\x1e\x85  '):
            raise AnalysisError('C30: unexpected line separator in a constant')
        for piece in s.splitlines(True):
            cur.append(piece)
            if piece.endswith('\n'):
                lines.append(text(*cur))
                cur = []
    if cur:
        lines.append(text(*cur))
    return lines


class CharOf:
    """Some character of an opaque line content (never a newline); only ever compared."""

    def __init__(self, sym):
        self.sym = sym

    def key(self):
        return ('charof', self.sym.name)


class DiffHooks(Hooks):
    def __init__(self):
        self.diff_calls: List[Dict[str, Any]] = []

    def inline(self, it, fi):
        return fi.module.name == D

    def call(self, it, callee, args, kwargs, node):
        if isinstance(callee, App) and callee.op == 'attr' and is_text(callee.args[0]):
            recv, name = callee.args
            if name == 'splitlines':
                if not (args and args[0] is True) and not kwargs.get('keepends') is True:
                    # without keepends the final-newline information is lost: model it faithfully
                    return [text(*[s for s in segs(ln) if s != '\n']) if segs(ln) and segs(ln)[-1] == '\n' else
                            (text(*segs(ln)[:-1], segs(ln)[-1][:-1]) if isinstance(segs(ln)[-1], str) and segs(ln)[-1].endswith('\n') else ln)
                            for ln in splitlines_keep(recv)]
                return splitlines_keep(recv)
            if name == 'startswith':
                first = segs(recv)[0]
                if isinstance(first, str):
                    pref = args[0] if isinstance(args[0], tuple) else (args[0],)
                    if all(isinstance(p, str) and len(p) <= len(first) for p in pref):
                        return first.startswith(tuple(pref))
                    if all(isinstance(p, str) and not first.startswith(p[:len(first)]) for p in pref):
                        return False
                raise AnalysisError('C30: startswith on opaque content')
            if name == 'endswith':
                last = segs(recv)[-1]
                if isinstance(last, str) and all(isinstance(p, str) and len(p) <= len(last) for p in (args[0] if isinstance(args[0], tuple) else (args[0],))):
                    return last.endswith(args[0])
                if isinstance(last, Sym) and args[0] in ('\n', ('\n',)):
                    return False
                raise AnalysisError('C30: endswith on opaque content')
            raise AnalysisError(f'C30: unmodelled string method {name} on an abstract text')
        if isinstance(callee, Builtin) and callee.name == 'len' and len(args) == 1 and is_text(args[0]):
            return App('textlen', args[0])
        if isinstance(callee, ModRef) and callee.name == 'difflib.unified_diff':
            return self.unified_diff(args, kwargs)
        # regular expressions over header lines: the stdlib engine is used on constants; on a line with opaque content the outcome
        # must not depend on the content (decided by substituting several contents)
        if isinstance(callee, ModRef) and callee.name == 're.compile' and all(isinstance(a, (str, int)) for a in args):
            return _re.compile(*args, **kwargs)
        if isinstance(callee, ModRef) and callee.name in ('re.match', 're.fullmatch', 're.search') and isinstance(args[0], str):
            return self.rx(getattr(_re.compile(args[0], *args[2:]), callee.name[3:]), args[1])
        if isinstance(callee, BoundMethod) and isinstance(callee.recv, _re.Pattern) and callee.name in ('match', 'fullmatch', 'search'):
            return self.rx(getattr(callee.recv, callee.name), args[0])
        if isinstance(callee, BoundMethod) and isinstance(callee.recv, _re.Match):
            return getattr(callee.recv, callee.name)(*args, **kwargs)
        return NotImplemented

    @staticmethod
    def rx(fn, subject):
        if isinstance(subject, str):
            return fn(subject)
        if is_text(subject):
            outs = []
            for filler in ('', 'q', '@@ -1 +1 @@', ' 1,2 '):
                outs.append(fn(''.join(s if isinstance(s, str) else filler for s in segs(subject))))
            if all(o is None for o in outs):
                return None
        raise AnalysisError('C30: a regular expression is applied to opaque line content')

    def unified_diff(self, args, kwargs):
        names = ['a', 'b', 'fromfile', 'tofile', 'fromfiledate', 'tofiledate', 'n', 'lineterm']
        kw = dict(zip(names, args))
        kw.update(kwargs)
        self.diff_calls.append(kw)
        table: Dict[Any, str] = {}
        back: Dict[str, Any] = {}

        def tok(ln):
            if not (isinstance(ln, str) or is_text(ln)):
                raise AnalysisError('C30: unified_diff is not given lists of lines')
            k = vkey(ln)
            if k not in table:
                ss = segs(ln)
                eol = bool(ss) and isinstance(ss[-1], str) and ss[-1].endswith('\n')
                table[k] = f'L{len(table)}' + ('\n' if eol else '')
                back[table[k]] = ln
            return table[k]

        if not isinstance(kw.get('a'), list) or not isinstance(kw.get('b'), list):
            raise AnalysisError('C30: unified_diff is not given lists of lines')
        n = kw.get('n', 3)
        if not isinstance(n, int):
            raise AnalysisError('C30: context size is not concrete at the unified_diff call')
        out = []
        for ln in difflib.unified_diff([tok(x) for x in kw['a']], [tok(x) for x in kw['b']], fromfile='F', tofile='F', n=n,
                                       lineterm=kw.get('lineterm', '\n')):
            if ln.startswith(('---', '+++', '@@')):
                out.append(ln)
            else:
                out.append(text(ln[0], back[ln[1:]]))
        return out

    def subscript(self, it, obj, idx, node):
        if not is_text(obj):
            return NotImplemented
        ss = segs(obj)
        if isinstance(idx, int):
            if idx == 0 or idx == -1:
                s = ss[idx]
                return s[idx] if isinstance(s, str) else CharOf(s)
            raise AnalysisError('C30: index into an abstract text other than 0 / -1')
        if isinstance(idx, slice) and idx.step is None:
            if idx.start in (None, 0) and idx.stop == -1:
                last = ss[-1]
                if isinstance(last, str):
                    return text(*ss[:-1], last[:-1])
                raise AnalysisError('C30: [:-1] cuts into opaque content')
            if idx.stop is None and isinstance(idx.start, int) and idx.start >= 0:
                first = ss[0]
                if isinstance(first, str) and len(first) >= idx.start:
                    return text(first[idx.start:], *ss[1:])
                raise AnalysisError('C30: [k:] cuts into opaque content')
        raise AnalysisError('C30: unmodelled slice of an abstract text')

    def compare(self, it, op, a, b, node):
        if isinstance(a, CharOf) or isinstance(b, CharOf):
            c, other = (a, b) if isinstance(a, CharOf) else (b, a)
            if other == '\n' and op in ('==', '!='):
                return op == '!='
            raise AnalysisError('C30: a character of an opaque line is inspected')
        for x, y, flip in ((a, b, False), (b, a, True)):
            if isinstance(x, App) and x.op == 'textlen' and isinstance(y, int):
                lo = sum(len(s) for s in segs(x.args[0]) if isinstance(s, str))  # opaque contents may be empty
                o = {'<': '>', '>': '<', '<=': '>=', '>=': '<='}.get(op, op) if flip else op
                if o == '>' and lo > y or o == '>=' and lo >= y or o == '!=' and lo > y:
                    return True
                if o == '==' and lo > y or o == '<' and lo >= y or o == '<=' and lo > y:
                    return False
                raise AnalysisError('C30: length of an opaque line decides a branch')
        if is_text(a) and is_text(b) and op in ('==', '!='):
            if vkey(a) == vkey(b):
                return op == '=='
            raise AnalysisError('C30: two abstract texts are compared')
        if (is_text(a) and isinstance(b, str) or is_text(b) and isinstance(a, str)) and op in ('==', '!='):
            t, s = (a, b) if is_text(a) else (b, a)
            if s == '':
                return op == '!='  # a text with an opaque segment can still be empty only if it is a single empty content: be explicit
            raise AnalysisError('C30: an abstract text is compared with a constant')
        return NotImplemented

    def truth(self, it, term):
        if is_text(term):
            if any(isinstance(s, str) and s for s in segs(term)):
                return True
            raise AnalysisError('C30: truthiness of an opaque line')
        return None


def mk_text(lines: Tuple[str, ...], final_newline: bool) -> Any:
    parts: List[Any] = []
    for i, name in enumerate(lines):
        parts.append(Sym(name, 'str'))
        if i < len(lines) - 1 or final_newline:
            parts.append('\n')
    return text(*parts) if parts else ''


def all_texts(alphabet: List[str], max_lines: int) -> List[Tuple[Tuple[str, ...], bool]]:
    out: List[Tuple[Tuple[str, ...], bool]] = [((), True)]
    for n in range(1, max_lines + 1):
        for ls in itertools.product(alphabet, repeat=n):
            out.append((ls, True))
            out.append((ls, False))
    return out


def show(t) -> str:
    ls, nl = t
    return '[' + ' '.join(ls) + (']' if nl or not ls else '](no final newline)')


def run(repo: Repo, chk: Check) -> None:
    thorough = chk.tier == 'thorough'
    K, N = (3, 4) if thorough else (2, 3)
    CTX = [0, 1, 2, 3]
    chk.explanation = (
        'apply_patch / make_patch are interpreted on abstract texts: sequences of opaque line symbols (no character of a line is ever '
        f'looked at).  All pairs of texts of up to {N} lines over {K} distinct opaque lines, with and without a final newline, and the empty '
        f'text, for context sizes {CTX}, forwards and in reverse; the hunk structure comes from the stdlib difflib run on placeholder tokens. '
        'Bounded in the number of lines; complete in the line contents (modulo the assumption that a line holds no other line separator).'
    )
    chk.assumptions += ['source lines contain no line separator other than the final \\n (\\r, form feed, U+2028 ... are outside the stated quantifier)',
                        'difflib.unified_diff emits a correct unified diff (oracle side)',
                        f'texts longer than {N} lines follow the same index arithmetic (bounded check)']
    mp = repo.func(f'{D}.make_patch')
    ap = repo.func(f'{D}.apply_patch')

    texts = all_texts(['x', 'y', 'z'][:K], N)
    chk.note('texts', len(texts))
    n_pairs = n_fail = 0
    fails: Dict[str, List[str]] = {}
    wiring_ok = True
    wiring_detail = ''
    marker_ok = True
    # texts long enough for hunk headers with numbers of two digits (a single changed line at 10.., a deletion, an insertion): the header
    # parser has to read `@@ -11 +11 @@`, `@@ -10,0 +11 @@`, `@@ -8,5 +8,5 @@` as the numbers they are
    base = tuple(f'l{i}' for i in range(1, 14))
    long_pairs = []
    for k in (9, 10, 11, 12):
        long_pairs.append(((base, True), (base[:k] + ('w',) + base[k + 1:], True)))          # line k+1 replaced
        long_pairs.append(((base, True), (base[:k] + base[k + 1:], True)))                   # line k+1 deleted
        long_pairs.append(((base, True), (base[:k] + ('w',) + base[k:], True)))              # a line inserted before line k+1
    long_pairs.append(((base, True), (('w',) + base[1:11] + ('v',) + base[12:], True)))     # two hunks, the second one at 12
    long_pairs.append(((base, False), (base[:12] + ('w',), False)))                          # last line, no final newline
    chk.note('long_text_pairs', len(long_pairs))
    for (ta, tb) in itertools.chain(itertools.product(texts, texts), long_pairs):
        a, b = mk_text(*ta), mk_text(*tb)
        for ctx in CTX:
            if len(ta[0]) > 9 and ctx == 2:
                continue
            if ctx > 1 and max(len(ta[0]), len(tb[0])) <= 1 and ctx != 3:
                continue  # no line can be context: sizes 2.. behave alike; keep 3 (the Protocol.diff default)
            hooks = DiffHooks()
            it = Interp(repo, hooks, max_depth=6)
            res = it.run_function(mp, [a, b, 'F'], {'context_size': ctx})
            if len(res) != 1 or res[0].outcome != 'return':
                raise AnalysisError(f'C30: make_patch does not reduce to one path on {show(ta)} -> {show(tb)}: {[r.outcome for r in res]}')
            patch = res[0].value
            if len(hooks.diff_calls) != 1:
                wiring_ok, wiring_detail = False, f'{len(hooks.diff_calls)} unified_diff calls'
            else:
                kw = hooks.diff_calls[0]
                if [vkey(x) for x in kw['a']] != [vkey(x) for x in splitlines_keep(a)] or [vkey(x) for x in kw['b']] != [vkey(x) for x in splitlines_keep(b)]:
                    wiring_ok, wiring_detail = False, 'unified_diff does not receive the lines of a and b with their line ends'
                if kw.get('n') != ctx:
                    wiring_ok, wiring_detail = False, f'context size {ctx} reaches unified_diff as {kw.get("n")!r}'
            plines = splitlines_keep(patch) if not isinstance(patch, str) else patch.splitlines(True)
            for i, ln in enumerate(plines):
                ss = segs(ln)
                if ss and not (isinstance(ss[-1], str) and ss[-1].endswith('\n')):
                    marker_ok = False
            for direction, src, want, kwargs in (('apply', a, b, {}), ('revert', b, a, {'revert': True})):
                n_pairs += 1
                it2 = Interp(repo, DiffHooks(), max_depth=6)
                it2.while_bound = 400
                r2 = it2.run_function(ap, [src, patch], dict(kwargs))
                ok = len(r2) == 1 and r2[0].outcome == 'return' and vkey(r2[0].value) == vkey(want)
                if not ok:
                    n_fail += 1
                    got = '; '.join(f'{r.outcome}:{vrepr(r.value)[:80]}' for r in r2)
                    fails.setdefault(direction, []).append(f'{show(ta)} -> {show(tb)} context {ctx}: got {got}, want {vrepr(want)[:80]}')
    chk.note('cases', n_pairs)
    chk.minimum('C30 cases', n_pairs, 3000)
    chk.set_clause('C30.1')
    chk.ob('R-FLOW', mp.qualname, wiring_ok, 'unified_diff receives a.splitlines(True), b.splitlines(True) and n=context_size', mp.loc,
           {'detail': wiring_detail} if not wiring_ok else None,
           what='make_patch does not diff the lines of the two texts with their line ends under the requested context size')
    chk.ob('R-TEMPLATE', mp.qualname, marker_ok, 'every line of the patch text ends with a newline (no-newline lines are followed by the marker)', mp.loc,
           what='a diff line without a final newline is written into the patch without the newline + marker line')
    chk.set_clause('C30.2')
    for direction in ('apply', 'revert'):
        fl = fails.get(direction, [])
        chk.ob('R-TEMPLATE', ap.qualname, not fl,
               f'{direction}: patching gives the other text for every pair of texts (<= {N} lines over {K} opaque lines, +/- final newline) and context sizes 0..3',
               ap.loc, {'failing': len(fl), 'first': fl[:6]} if fl else {'cases': n_pairs // 2},
               what=f'apply_patch ({direction}) does not reproduce the other text: ' + (fl[0] if fl else ''))

    # ---- clause 3: rejections
    chk.set_clause('C30.3')
    x, y = Sym('x', 'str'), Sym('y', 'str')
    src = text(x, '\n', y, '\n')
    cases = [
        ('garbage where a hunk header is expected', text('--- F\n+++ F\n', 'this is not a header\n', '+', x, '\n')),
        ('hunk beyond the end of the source', text('--- F\n+++ F\n@@ -7 +7 @@\n', '-', x, '\n', '+', y, '\n')),
        ('hunks out of order', text('--- F\n+++ F\n@@ -2 +2 @@\n', '-', y, '\n', '+', x, '\n', '@@ -1 +1 @@\n', '-', x, '\n', '+', y, '\n')),
    ]
    for label, patch in cases:
        it3 = Interp(repo, DiffHooks(), max_depth=6)
        r3 = it3.run_function(ap, [src, patch], {})
        ok = len(r3) == 1 and r3[0].outcome == 'raise' and r3[0].value.cls == 'ValueError'
        chk.ob('R-GUARD', ap.qualname, ok, f'rejected with ValueError: {label}', ap.loc,
               {'got': [f'{r.outcome}:{vrepr(r.value)[:80]}' for r in r3]},
               what=f'apply_patch does not reject a malformed patch ({label})')

    # ---- clause 4: Protocol.diff / Protocol.patch
    chk.set_clause('C30.4')
    wiring(repo, chk)
    # ---- clause 5: the file table of a protocol (what diff and patch read and write): proto_to_files(files_to_proto(files)) == files, the text
    #      going through ONE text codec in both directions
    chk.set_clause('C30.5')
    container(repo, chk)
    chk.exhaustive = False


class ProtoHooks(Hooks):
    """proto_to_files / files_to_proto / iteration over a Protocol are opaque tables."""

    def __init__(self, yours, theirs):
        self.yours, self.theirs = yours, theirs
        self.calls: List[Tuple[str, List[Any], Dict[str, Any]]] = []

    def inline(self, it, fi):
        return False

    def call(self, it, callee, args, kwargs, node):
        if isinstance(callee, FuncRef) and callee.fi is not None:
            n = callee.fi.name
            if n == 'proto_to_files':
                return list(self.theirs)
            if n == 'files_to_proto':
                return App('proto', list(args[0]))
            if n in ('make_patch', 'apply_patch'):
                names = [a.arg for a in callee.fi.node.args.args]
                dflt = dict(zip(names[::-1], [it.repo.fold(d, callee.fi.module) for d in callee.fi.node.args.defaults][::-1]))
                bound = {**dflt, **dict(zip(names, args)), **kwargs}
                self.calls.append((n, bound))
                return App(n, *[bound.get(k) for k in names])
        if isinstance(callee, Builtin) and callee.name == 'iter' and args and isinstance(args[0], App) is False and getattr(args[0], 'cls', '') .endswith('Protocol'):
            return list(self.yours)
        if isinstance(callee, Builtin) and callee.name == 'dict' and args and getattr(args[0], 'cls', '').endswith('Protocol'):
            return dict(self.yours)
        if isinstance(callee, Sym) or (isinstance(callee, App) and callee.op == 'apply'):
            return NotImplemented
        return NotImplemented

    def iterate(self, it, obj, node):
        if getattr(obj, 'cls', '').endswith('Protocol'):
            return list(self.yours)
        return NotImplemented


def _proto_files(v: Any):
    """the file list inside Protocol(files_to_proto(files))"""
    from ..absint import Obj

    if isinstance(v, App) and v.op == 'proto':
        return v.args[0]
    if isinstance(v, Obj):
        for f in v.fields.values():
            for x in (f if isinstance(f, (list, tuple)) else [f]):
                r = _proto_files(x) if isinstance(x, (App, Obj)) else None
                if r is not None:
                    return r
    return None


def wiring(repo: Repo, chk: Check) -> None:
    from ..absint import ClassRef, Obj

    pcls = f'{P}.Protocol'
    diff = repo.func(f'{pcls}.diff')
    patch = repo.func(f'{pcls}.patch')
    ya, yb = Sym('text_a', 'str'), Sym('text_b', 'str')
    # --- diff: two files on their side, one of them unknown on ours
    yours = [('a.ml', ya)]
    theirs = [('a.ml', yb), ('new.ml', Sym('text_new', 'str'))]
    other = Sym('other_proto')
    h = ProtoHooks(yours, theirs)
    it = Interp(repo, h, max_depth=3)
    ctx = Sym('ctx', 'int')
    res = it.run_function(diff, [Obj(pcls, {}), other], {'context_size': ctx})
    ok = len(res) == 1 and res[0].outcome == 'return'
    got = list(h.calls)
    want = [('make_patch', {'a': ya, 'b': yb, 'filename': 'a.ml', 'context_size': ctx}),
            ('make_patch', {'a': '', 'b': Sym('text_new', 'str'), 'filename': 'new.ml', 'context_size': ctx})]
    same = ok and len(got) == len(want) and all(g[0] == w[0] and {k: vkey(v) for k, v in g[1].items()} == {k: vkey(v) for k, v in w[1].items()} for g, w in zip(got, want))
    chk.ob('R-FLOW', diff.qualname, same, 'every file of the other protocol is diffed against ours (missing file = empty text) under the caller\'s context size', diff.loc,
           {'calls': [(n, {k: vrepr(v) for k, v in d.items()}) for n, d in got]},
           what='Protocol.diff does not call make_patch(a=our text or "", b=their text, context_size=the caller\'s)')
    if ok:
        files = _proto_files(res[0].value)
        good = isinstance(files, list) and [f[0] for f in files] == ['a.ml', 'new.ml'] and all(isinstance(f[1], App) and f[1].op == 'make_patch' for f in files)
        chk.ob('R-TEMPLATE', diff.qualname, good, 'the result holds (filename, patch) for every file, in order', diff.loc, {'result': vrepr(res[0].value)[:300]},
               what='Protocol.diff does not return the per-file patches')
    # default context size of Protocol.diff is what the statement calls "every context size": it must be a non-negative integer
    d = diff.node.args.defaults
    chk.ob('R-GUARD', diff.qualname, len(d) == 1 and isinstance(d[0], ast.Constant) and isinstance(d[0].value, int) and d[0].value >= 0,
           'default context size is a non-negative integer constant', diff.loc, what='Protocol.diff default context size is not a non-negative integer')
    # --- patch: one file with a diff, one with an empty diff, one new file
    yours = [('a.ml', ya), ('same.ml', Sym('text_same', 'str'))]
    dtext = Sym('diff_a', 'str')
    for empties, label in ((False, 'non-empty diffs are applied'), (True, 'empty diff keeps the text')):
        h = ProtoHooks(yours, [('a.ml', dtext), ('same.ml', ''), ('new.ml', Sym('diff_new', 'str'))])

        class H2(type(h)):
            def truth(self, it, term):
                if isinstance(term, Sym) and term.name.startswith('diff_'):
                    return not empties
                return None

        h.__class__ = H2
        it = Interp(repo, h, max_depth=3)
        res = it.run_function(patch, [Obj(pcls, {}), Sym('patch_proto')], {})
        ok = len(res) == 1 and res[0].outcome == 'return' and _proto_files(res[0].value) is not None
        files = _proto_files(res[0].value) if ok else []
        if not empties:
            want_files = [('a.ml', App('apply_patch', ya, dtext, False)), ('same.ml', Sym('text_same', 'str')), ('new.ml', App('apply_patch', '', Sym('diff_new', 'str'), False))]
        else:
            want_files = [('a.ml', ya), ('same.ml', Sym('text_same', 'str')), ('new.ml', '')]
        good = ok and [(f[0], vkey(f[1])) for f in files] == [(f[0], vkey(f[1])) for f in want_files]
        chk.ob('R-TEMPLATE', patch.qualname, good, f'{label}: (filename, apply_patch(our text or "", diff)) per file, forwards', patch.loc,
               {'result': vrepr(res[0].value)[:400] if res else None},
               what='Protocol.patch does not apply each non-empty file diff forwards to our text (missing file = empty text) / does not keep the text for an empty diff')


class _FilesHooks(Hooks):
    def inline(self, it, fi):
        return fi.name in ('files_to_proto', 'proto_to_files')

    @staticmethod
    def _codec(args, kwargs):
        c = args[0] if args else kwargs.get('encoding', 'utf-8')
        return str(c).lower().replace('_', '-').replace('utf8', 'utf-8') if isinstance(c, str) else c

    def call(self, it, callee, args, kwargs, node):
        if isinstance(callee, App) and callee.op == 'attr':
            recv, name = callee.args
            if name == 'encode' and isinstance(recv, Sym):
                return App('encoded', recv, self._codec(args, kwargs))
            if name == 'decode' and isinstance(recv, App) and recv.op == 'hexlified':
                return App('hextext', recv.args[0])
            if name == 'decode' and isinstance(recv, App) and recv.op == 'encoded':
                return recv.args[0] if recv.args[1] == self._codec(args, kwargs) else App('decoded-with-another-codec', recv.args[0], recv.args[1], self._codec(args, kwargs))
            if name == 'hex' and isinstance(recv, App) and recv.op == 'encoded':
                return App('hextext', recv)
        if isinstance(callee, ModRef) and callee.name in ('binascii.hexlify',) and args and isinstance(args[0], App):
            return App('hexlified', args[0])
        if isinstance(callee, ModRef) and callee.name in ('binascii.unhexlify',) and args and isinstance(args[0], App) and args[0].op == 'hextext':
            return args[0].args[0]
        if isinstance(callee, Builtin) and callee.name == 'bytes.fromhex' and args and isinstance(args[0], App) and args[0].op == 'hextext':
            return args[0].args[0]
        if isinstance(callee, ModRef) and callee.name in ('collections.OrderedDict',):
            return {}
        return NotImplemented


def container(repo: Repo, chk: Check) -> None:
    f2p, p2f = repo.func(f'{P}.files_to_proto'), repo.func(f'{P}.proto_to_files')
    # (module names that end in the letters of the extensions - `raw_level.ml`, `sc_rollup_wasm.mli` - are ordinary names of the protocol sources)
    files = [('alpha.ml', Sym('impl_a', 'str')), ('alpha.mli', Sym('intf_a', 'str')), ('beta.ml', Sym('impl_b', 'str')),
             ('raw_level.ml', Sym('impl_l', 'str')), ('sc_rollup_wasm.mli', Sym('intf_m', 'str')), ('sc_rollup_wasm.ml', Sym('impl_m', 'str'))]
    it = Interp(repo, _FilesHooks(), max_depth=3)

    def go(i):
        proto = i.call_function(FuncRef(f2p, None, False), [list(files)], {}, None, force_inline=True)
        return i.call_function(FuncRef(p2f, None, False), [proto], {}, None, force_inline=True)

    res = it.run_paths(go)
    ok = len(res) == 1 and res[0].outcome == 'return' and isinstance(res[0].value, list)
    got = sorted((f[0], vrepr(f[1])) for f in res[0].value) if ok else [(p.outcome, vrepr(p.value)[:80]) for p in res]
    want = sorted((n, vrepr(t)) for n, t in files)
    chk.ob('R-PAIR', p2f.qualname, ok and got == want, 'proto_to_files(files_to_proto(files)) gives the files back (same names, same text, one text codec)', p2f.loc,
           {'got': got, 'want': want},
           what=f'the file table of a protocol does not survive files_to_proto / proto_to_files: {got} instead of {want}: what Protocol.diff reads and '
                'Protocol.patch writes is not the text of the source files (non-ASCII characters are mangled when the two sides use different codecs)')


def controls(chk: Check) -> None:
    x, y = Sym('x', 'str'), Sym('y', 'str')
    t = text(x, '\n', y)
    ls = splitlines_keep(t)
    if [vkey(v) for v in ls] != [vkey(text(x, '\n')), vkey(y)]:
        raise AnalysisError('C30 control: abstract splitlines')
    h = DiffHooks()
    out = h.unified_diff([], {'a': [text(x, '\n')], 'b': [text(y, '\n')], 'n': 0})
    if [vkey(v) for v in out[3:]] != [vkey(text('-', x, '\n')), vkey(text('+', y, '\n'))]:
        raise AnalysisError('C30 control: placeholder diff')
