"""C13 Entrypoint resolution and parameter decoding are mutual inverses.

ParameterSection.create_type / list_entrypoints / from_parameters / to_parameters and the OrType traversals are interpreted on
abstract parameter TYPE TREES (unions with every annotation pattern: annotated and unannotated leaves, annotated and unannotated
inner nodes, a `default` branch, an annotated root, a non-union parameter), payloads opaque.
 1 the listed entrypoints are exactly the annotated union nodes plus the root entrypoint (named by the root annotation, else `root`
   if some branch is called `default`, else `default`)
 2 for every leaf position of the union: full value -> (entrypoint, argument) -> full value is the identity and never fails
 3 for every listed entrypoint: (entrypoint, argument) -> full value -> (entrypoint', argument') -> full value is stable and never fails
"""
from __future__ import annotations

from typing import Any, Dict, List, Optional, Tuple

from ..absint import App, ClassRef, FuncRef, Interp, Obj, Sym, vkey, vrepr
from ..model import AnalysisError, Repo
from ..report import Check
from ..typemodel import PARAM, PCls, TCls, TypeTreeHooks, t


def trees() -> Dict[str, TCls]:
    u, n, s, b = (lambda **k: t('unit', **k)), (lambda **k: t('nat', **k)), (lambda **k: t('string', **k)), (lambda **k: t('bytes', **k))
    return {
        'or (unit %a) (or (nat %b) (string %c))': t('or', u(f='a'), t('or', n(f='b'), s(f='c'))),
        'or (unit %default) (nat %b)': t('or', u(f='default'), n(f='b')),
        'or (or %inner (unit %x) (nat %y)) (string %z)': t('or', t('or', u(f='x'), n(f='y'), f='inner'), s(f='z')),
        'or (or %inner unit nat) string': t('or', t('or', u(), n(), f='inner'), s()),
        'or %main (unit %a) (nat %b)': t('or', u(f='a'), n(f='b'), f='main'),
        'unit': u(),
        'nat %only': n(f='only'),
        'or (unit %a) nat': t('or', u(f='a'), n()),
        'or (or (unit %a) (nat %b)) (or (string %c) (bytes %d))': t('or', t('or', u(f='a'), n(f='b')), t('or', s(f='c'), b(f='d'))),
        'or (or (unit %a) nat) (or %right (string %c) bytes)': t('or', t('or', u(f='a'), n()), t('or', s(f='c'), b(), f='right')),
        # `default` and `root` used as names of inner nodes / leaves
        'or (or %default (unit %a) (nat %b)) (string %c)': t('or', t('or', u(f='a'), n(f='b'), f='default'), s(f='c')),
        'or (or %default unit nat) string': t('or', t('or', u(), n(), f='default'), s()),
        'or (unit %root) (nat %b)': t('or', u(f='root'), n(f='b')),
        'or (or (unit %a) (nat %default)) (string %c)': t('or', t('or', u(f='a'), n(f='default')), s(f='c')),
        # both reserved names taken by branches: the branch called `root` owns that name (the whole parameter then has no name of its own)
        'or (unit %default) (nat %root)': t('or', u(f='default'), n(f='root')),
        # the empty annotation `%` is legal Michelson and means "no annotation" (pytezos parses it to the field name '')
        'or (unit %) (nat %b)': t('or', u(f=''), n(f='b')),
        'or (or % (unit %a) nat) (string %)': t('or', t('or', u(f='a'), n(), f=''), s(f='')),
    }


def all_trees(max_leaves: int = 4) -> Dict[str, TCls]:
    """Every binary union shape with 2..max_leaves leaves and every placement of field annotations below the root (thorough tier);
    one extra variant per shape names its first leaf `default`."""
    import itertools
    prims = ['unit', 'nat', 'string', 'bytes', 'int', 'mutez']

    def shapes(n: int):
        if n == 1:
            yield None
            return
        for k in range(1, n):
            for l in shapes(k):
                for r in shapes(n - k):
                    yield (l, r)

    out: Dict[str, TCls] = {}
    for n in range(2, max_leaves + 1):
        for sh in shapes(n):
            # count nodes below the root
            def count(x):
                return 1 if x is None else 1 + count(x[0]) + count(x[1])
            nodes = count(sh) - 1
            for marks in itertools.product([False, True], repeat=nodes):
                for dflt in (False, True, 'inner'):
                    inner_dflt = [False]
                    it = iter(marks)
                    leaf_i = [0]
                    inner_i = [0]
                    first_leaf = [True]

                    def build(x, root=False):
                        ann = False if root else next(it)
                        if x is None:
                            i = leaf_i[0]
                            leaf_i[0] += 1
                            name = 'abcdef'[i]
                            if dflt is True and first_leaf[0]:
                                name = 'default'
                            first_leaf[0] = False
                            return TCls(prims[i], [], name if ann else None)
                        l = build(x[0])
                        r = build(x[1])
                        inner_i[0] += 1
                        nm = f'in{inner_i[0]}'
                        if dflt == 'inner' and not inner_dflt[0]:
                            nm = 'default'
                            if ann:
                                inner_dflt[0] = True
                        return TCls('or', [l, r], nm if ann else None)

                    tree = build(sh, root=True)
                    if dflt is True and tree_first_leaf_name(tree) != 'default':
                        continue
                    if dflt == 'inner' and not inner_dflt[0]:
                        continue
                    out[repr(tree)] = tree
    return out


def tree_first_leaf_name(tc: TCls):
    while tc.prim == 'or':
        tc = tc.args[0]
    return tc.field_name


def ref_entrypoints(root: TCls) -> Tuple[Dict[str, str], str]:
    """name -> path of every annotated node strictly below the root of the union; and the root entrypoint name."""
    names: Dict[str, str] = {}

    def walk(node: TCls, path: str):
        for i, a in enumerate(node.args):
            p = path + str(i)
            if a.field_name:
                names.setdefault(a.field_name, p)
            if a.prim == 'or':
                walk(a, p)

    if root.prim == 'or':
        walk(root, '')
        rn = root.field_name or ('root' if 'default' in names else 'default')
    else:
        rn = root.field_name or 'default'
    return names, rn


def leaf_paths(node: TCls, path: str = '') -> List[Tuple[str, TCls]]:
    if node.prim != 'or':
        return [(path, node)]
    out = []
    for i, a in enumerate(node.args):
        out += leaf_paths(a, path + str(i))
    return out


def node_at(root: TCls, path: str) -> TCls:
    n = root
    for c in path:
        n = n.args[int(c)]
    return n


def wrap(expr: Any, path: str) -> Any:
    for c in reversed(path):
        expr = {'prim': 'Left' if c == '0' else 'Right', 'args': [expr]}
    return expr


def full_of(v: Any) -> Any:
    """Structure of a union value: nested ('L'|'R', inner) down to the leaf payload."""
    if isinstance(v, Obj) and '_p' in v.fields:
        return full_of(v.fields['item'])
    if isinstance(v, Obj) and v.fields.get('_t') is not None and v.fields['_t'].prim == 'or':
        items = v.fields['items']
        for i, side in enumerate('LR'):
            x = items[i]
            if isinstance(x, Obj) and x.cls.endswith('.undefined'):
                continue
            return (side, full_of(x))
        return ('?',)
    if isinstance(v, Obj):
        return ('leaf', v.fields['_t'].prim, vrepr(v.fields.get('value')))
    return ('raw', vrepr(v))


class EPHooks(TypeTreeHooks):
    def call(self, it, callee, args, kwargs, node):
        if isinstance(callee, FuncRef) and callee.fi is not None and isinstance(callee.self_val, TCls):
            recv = callee.self_val
            if callee.fi.name == 'from_micheline_value' and recv.prim not in ('or', 'pair', 'option'):
                a = args[0]
                # a leaf literal: keep the payload; rendering then parsing is the identity on it
                if isinstance(a, App) and a.op == 'micheline-of':
                    a = a.args[0]
                return self.leaf_value(recv, a)
        return super().call(it, callee, args, kwargs, node)


def run(repo: Repo, chk: Check) -> None:
    chk.explanation = (
        'The entrypoint layer is interpreted on abstract parameter type trees covering every annotation pattern; entrypoint sets are '
        'compared with the Tezos rule computed independently on the tree, and both round trips are composed symbolically for every '
        'leaf position and every listed entrypoint.  Payload conversion of leaves is opaque (C11).'
    )
    ct = repo.func(f'{PARAM}.create_type')
    le = repo.func(f'{PARAM}.list_entrypoints')
    fp = repo.func(f'{PARAM}.from_parameters')
    tp = repo.func(f'{PARAM}.to_parameters')
    ntrees = 0
    forest = dict(trees())
    if chk.tier == 'thorough':
        forest.update(all_trees(4))
    for name, root in forest.items():
        ntrees += 1

        def mk_interp():
            it = Interp(repo, EPHooks(repo), max_depth=30)
            it.max_recursion = 10
            return it

        def create(i):
            return i.call_function(FuncRef(ct, ClassRef(PARAM), True), [], {'args': [root]}, None, force_inline=True)

        # ---- 1 entrypoint set ---------------------------------------------------------------------------------------
        chk.set_clause('C13.1')
        res = mk_interp().run_paths(lambda i: i.call_function(FuncRef(le, create(i), True), [], {}, None, force_inline=True))
        names, rn = ref_entrypoints(root)
        want = sorted(set(names) | {rn})
        got = sorted(res[0].value.keys()) if len(res) == 1 and res[0].outcome == 'return' and isinstance(res[0].value, dict) else [(p.outcome, vrepr(p.value)[:80]) for p in res]
        chk.ob('R-TABLE', le.qualname, got == want, f'{name}: entrypoints {want}', le.loc, {'listed': got, 'reference': want},
               what=f'parameter {name}: listed entrypoints {got}, Tezos defines {want}')
        if len(res) == 1 and isinstance(res[0].value, dict):
            # the type of each entrypoint is the node it names
            for ep, ty in res[0].value.items():
                if ep not in want:
                    continue
                node = root if ep == rn and ep not in names else node_at(root, names[ep])
                okty = isinstance(ty, TCls) and ty.prim == node.prim and len(ty.args) == len(node.args)
                chk.ob('R-TABLE', le.qualname, okty, f'{name}: entrypoint {ep} has the type of its node', le.loc, {'type': repr(ty), 'node': repr(node)},
                       what=f'entrypoint {ep} is listed with type {ty!r}, the annotated node is {node!r}')

        # ---- 2 full value -> pair -> full value ---------------------------------------------------------------------------
        chk.set_clause('C13.2')
        for path, leaf in leaf_paths(root):
            vfull = wrap(Sym('P'), path)

            def trip(i, vfull=vfull):
                pc = create(i)
                if rn in names:
                    # the name the root would get belongs to a branch: the whole value has no (entrypoint, argument) form, it is parsed as it is
                    fmv = repo.find_method(PARAM, 'from_micheline_value')
                    v1 = i.call_function(FuncRef(fmv, pc, True), [vfull], {}, None, force_inline=True)
                else:
                    v1 = i.call_function(FuncRef(fp, pc, True), [{'entrypoint': pc.fields['root_name'], 'value': vfull}], {}, None, force_inline=True)
                pair = i.call_function(FuncRef(tp, v1, True), [], {}, None, force_inline=True)
                i.event('pair', pair)
                v2 = i.call_function(FuncRef(fp, pc, True), [dict(pair)], {}, None, force_inline=True)
                return full_of(v1), full_of(v2)

            res = mk_interp().run_paths(trip)
            ok = len(res) == 1 and res[0].outcome == 'return' and res[0].value[0] == res[0].value[1]
            pairs = [vrepr(e[1].get('entrypoint')) if isinstance(e[1], dict) else vrepr(e[1]) for p in res for e in p.events if isinstance(e, tuple) and e[0] == 'pair']
            # the entrypoint named is the deepest annotated node on the way to the leaf (the root entrypoint when there is none)
            want_ep, node_ = rn, root
            for c in path:
                node_ = node_.args[int(c)]
                if node_.field_name:
                    want_ep = node_.field_name
            chk.ob('R-PAIR', tp.qualname, pairs == [repr(want_ep)] or not ok, f'{name}: value at leaf {path or "(root)"} is addressed to entrypoint {want_ep}', tp.loc,
                   {'entrypoint_chosen': pairs, 'reference': want_ep},
                   what=f'parameter {name}: the full value {"/".join("LR"[int(c)] for c in path) or "(root)"} is converted to entrypoint {pairs} instead of `{want_ep}` '
                        '(the deepest annotated node on its path): the call is addressed to another entrypoint than the one the value belongs to')
            chk.ob('R-PAIR', tp.qualname, ok, f'{name}: value at leaf {path or "(root)"} round-trips through (entrypoint, argument)', tp.loc,
                   {'entrypoint_chosen': pairs, 'outcome': [(p.outcome, vrepr(p.value)[:120]) for p in res]},
                   what=f'parameter {name}: the full value {"/".join("LR"[int(c)] for c in path) or "(root)"} cannot be converted to (entrypoint, argument) and back: '
                        f'{[(p.outcome, vrepr(p.value)[:80]) for p in res][:1]}')

        # ---- 3 pair -> full value -> pair -> full value -------------------------------------------------------------------------
        chk.set_clause('C13.3')
        for ep in want:
            if ep not in got:
                continue
            node = root if ep == rn and ep not in names else node_at(root, names[ep])
            sub = leaf_paths(node)[0][0]
            arg = wrap(Sym('A'), sub)

            def trip2(i, ep=ep, arg=arg):
                pc = create(i)
                v1 = i.call_function(FuncRef(fp, pc, True), [{'entrypoint': ep, 'value': arg}], {}, None, force_inline=True)
                pair = i.call_function(FuncRef(tp, v1, True), [], {}, None, force_inline=True)
                v2 = i.call_function(FuncRef(fp, pc, True), [dict(pair)], {}, None, force_inline=True)
                return full_of(v1), full_of(v2)

            res = mk_interp().run_paths(trip2)
            ok = len(res) == 1 and res[0].outcome == 'return' and res[0].value[0] == res[0].value[1]
            chk.ob('R-PAIR', fp.qualname, ok, f'{name}: entrypoint {ep} round-trips', fp.loc, {'outcome': [(p.outcome, vrepr(p.value)[:120]) for p in res]},
                   what=f'parameter {name}: building the value for entrypoint {ep} and converting it back fails or changes it: {[(p.outcome, vrepr(p.value)[:80]) for p in res][:1]}')
        # absent parameters mean entrypoint `default` with Unit: from_parameters({}) is from_parameters({'entrypoint': 'default', 'value': Unit})
        def absent(i, params):
            v = i.call_function(FuncRef(fp, create(i), True), [params], {}, None, force_inline=True)
            return full_of(v)

        r_abs = mk_interp().run_paths(lambda i: absent(i, {}))
        r_def = mk_interp().run_paths(lambda i: absent(i, {'entrypoint': 'default', 'value': {'prim': 'Unit'}}))
        sig = lambda rs: sorted((p.outcome, vrepr(p.value)[:200] if p.outcome == 'return' else '') for p in rs)
        chk.ob('R-PAIR', fp.qualname, sig(r_abs) == sig(r_def), f'{name}: absent parameters are entrypoint default with Unit', fp.loc,
               {'absent': sig(r_abs)[:2], 'default_unit': sig(r_def)[:2]},
               what=f'parameter {name}: from_parameters of absent parameters ({{}}) gives {sig(r_abs)[:1]}, the explicit (default, Unit) gives {sig(r_def)[:1]}')
        # unknown entrypoint rejected
        res = mk_interp().run_paths(lambda i: i.call_function(FuncRef(fp, create(i), True), [{'entrypoint': 'no_such_entrypoint', 'value': Sym('A')}], {}, None, force_inline=True))
        chk.ob('R-PATH', fp.qualname, bool(res) and all(p.outcome == 'raise' for p in res), f'{name}: unknown entrypoint rejected', fp.loc,
               what='an unknown entrypoint name is accepted')
    chk.minimum('parameter type trees', ntrees, 14)
    decoders_keep_class(repo, chk)


DECODER_ROOTS = ('from_micheline_value', 'from_python_object', 'dummy')


def decoders_keep_class(repo: Repo, chk: Check) -> None:
    """C13.4: to_parameters names the entrypoint by the field annotation of the CLASS of the decoded value, so every decoder of every
    Michelson type must build its result from the class it was called on (`cls(...)`, or another classmethod reached through `cls` /
    `super()`), never from a static factory or a class named in the source, which yield the anonymous type."""
    import ast
    chk.set_clause('C13.4')
    base = 'pytezos.michelson.types.base.MichelsonType'
    work: List[Tuple[str, str]] = []
    for cq in [base] + repo.subclasses(base):
        if not cq.startswith('pytezos.michelson.types.'):
            continue
        for m in DECODER_ROOTS:
            work.append((cq, m))
    seen = set()
    nret = 0
    while work:
        cq, m = work.pop()
        fi = repo.find_method(cq, m)
        if fi is None or (fi.qualname, ) in seen:
            continue
        seen.add((fi.qualname, ))
        if 'classmethod' not in fi.decorators:
            continue
        owner = fi.cls.qualname if fi.cls else cq
        params = fi.params()
        cls_name = params[0] if params else 'cls'
        assigns: Dict[str, List[ast.expr]] = {}
        for n in ast.walk(fi.node):
            if isinstance(n, ast.Assign) and len(n.targets) == 1 and isinstance(n.targets[0], ast.Name):
                assigns.setdefault(n.targets[0].id, []).append(n.value)
            elif isinstance(n, ast.AnnAssign) and isinstance(n.target, ast.Name) and n.value is not None:
                assigns.setdefault(n.target.id, []).append(n.value)

        def verdict(e: ast.expr, depth: int = 0) -> Optional[str]:
            """None when the expression is built from the receiving class (or is of a form the rule does not judge)"""
            if depth > 6:
                return None
            if isinstance(e, ast.IfExp):
                return verdict(e.body, depth + 1) or verdict(e.orelse, depth + 1)
            if isinstance(e, ast.Name):
                if e.id == cls_name:
                    return None
                for v in assigns.get(e.id, []):
                    r = verdict(v, depth + 1)
                    if r:
                        return r
                return None
            if not isinstance(e, ast.Call):
                return None
            f = e.func
            if isinstance(f, ast.Name):
                if f.id == 'cast' and len(e.args) == 2:
                    return verdict(e.args[1], depth + 1)
                if f.id == cls_name:
                    return None
                if f.id in assigns:  # an alias of the class
                    for v in assigns[f.id]:
                        if not (isinstance(v, ast.Name) and v.id == cls_name):
                            return f'calls `{f.id}`, which is bound to `{ast.unparse(v)[:60]}` and not to the receiving class'
                    return None
                q = repo.resolve_name(fi.module, f.id)
                if q in repo.classes and repo.is_subclass(q, base):
                    return f'constructs the fixed class {f.id} instead of the receiving class'
                return None
            if isinstance(f, ast.Attribute):
                recv = f.value
                is_super = isinstance(recv, ast.Call) and isinstance(recv.func, ast.Name) and recv.func.id == 'super'
                if isinstance(recv, ast.Name) and recv.id == cls_name or is_super:
                    start = owner if not is_super else None
                    target = None
                    if is_super:
                        mro = repo.mro(owner)
                        for c in mro[1:]:
                            ci = repo.classes.get(c)
                            if ci and f.attr in ci.methods:
                                target = ci.methods[f.attr]
                                break
                    else:
                        target = repo.find_method(cq, f.attr)
                    if target is None:
                        return None
                    if 'staticmethod' in target.decorators:
                        return f'goes through the static factory {target.qualname}, which builds a fresh anonymous type'
                    if 'classmethod' in target.decorators:
                        work.append((cq if not is_super else (target.cls.qualname if target.cls else cq), f.attr))
                    return None
                if isinstance(recv, ast.Name):
                    q = repo.resolve_name(fi.module, recv.id)
                    if q in repo.classes and repo.is_subclass(q, base):
                        return f'builds the value through the fixed class {recv.id} ({recv.id}.{f.attr}) instead of the receiving class'
                return None
            return None

        for r in [n for n in ast.walk(fi.node) if isinstance(n, ast.Return) and n.value is not None]:
            nret += 1
            why = verdict(r.value)
            chk.ob('R-OWNER', fi.qualname, why is None, f'return at line {r.lineno} is built from the receiving class', f'{fi.module.relpath}:{r.lineno}',
                   {'returns': ast.unparse(r.value)[:120]},
                   what=f'{fi.qualname} (decoder of a Michelson type, reached from {m}) returns `{ast.unparse(r.value)[:80]}`: it {why}; the decoded value loses the '
                        'field annotation of the parameter branch it was decoded for, so to_parameters addresses it to another entrypoint')
    chk.minimum('decoder return statements', nret, 80)


def controls(chk: Check) -> None:
    names, rn = ref_entrypoints(trees()['or (unit %default) (nat %b)'])
    if rn != 'root' or sorted(names) != ['b', 'default']:
        raise AnalysisError('reference entrypoint rule control failed')
