"""C05 Micheline binary encoding round-trips and decodes strictly (structural clauses).

 1 R-TABLE   prim_tags == reference tags 0x00..0x9e, bijective; prim_int is its inverse
 2 R-TEMPLATE/R-PAIR  write trace of forge_micheline per node shape == reference; read trace of
              unforge_micheline per tag byte (all 256) == reference; writer/reader traces pair up;
              get_tag/read_tag mutually inverse on the finite domain
 3 reject paths: unknown tag, length prefixes (2 asserts in unforge_array), sequence overrun, trailing
              bytes, non-minimal integer
 4 forge_array/unforge_array use the same len_bytes at paired positions
 5 bit layout constants of forge_int / unforge_int / forge_nat
"""
from __future__ import annotations

import ast
import json
import os
from typing import Any, List

from .. import codec
from ..absint import App, FuncRef, Hooks, Interp, Sym, vrepr
from ..model import AnalysisError, Repo, norm
from ..report import Check

FORGE = 'pytezos.michelson.forge'
TAGS = 'pytezos.michelson.tags'
REF = os.path.join(os.path.dirname(os.path.dirname(__file__)), 'reference', 'prim_tags.json')


def term_contains(t: Any, pred) -> bool:
    if pred(t):
        return True
    if isinstance(t, App):
        return any(term_contains(a, pred) for a in t.args)
    if isinstance(t, (list, tuple)):
        return any(term_contains(a, pred) for a in t)
    return False


def expected_reads(tokens: List[Any]) -> List[Any]:
    """Reader events that consume what the writer tokens emit."""
    out: List[Any] = []
    for i, tk in enumerate(tokens):
        if tk[0] == 'const':
            if i == 0:
                out.append('read-tag')
            elif tk[1] == '00000000':
                out.append(('read-arr', 'default'))
            else:
                raise AnalysisError(f'unexpected constant {tk[1]} in writer template')
        elif tk[0] == 'primtag':
            out.append(('read-byte', 2))
        elif tk[0] == 'child':
            out.append('child')
        elif tk[0] == 'zint':
            out.append('read-zint')
        elif tk[0] == 'arr':
            out.append(('read-arr', tk[1]))
            kids = tk[2]
            if kids and all(k[0] == 'child' for k in kids):
                out.append('children*')
            elif not kids and i == 1 and tokens[0] == ('const', '02'):
                out.append('children*')
        else:
            raise AnalysisError(f'unexpected writer token {tk}')
    return out


def normalise_reads(ev: List[Any]) -> List[Any]:
    out: List[Any] = []
    i = 0
    while i < len(ev):
        e = ev[i]
        if e == 'children-begin':
            j = i
            while ev[j] != 'children-end':
                j += 1
            out.append('children*')
            i = j + 1
            continue
        out.append(e)
        i += 1
    return out


def bit_constants(repo: Repo, fi):
    """Integer constants used as bit masks (operands of & and |) and shift distances in a function and in the helpers a later
    refactoring extracted from it; a module-level name bound to an integer counts as that integer."""
    masks, shifts = set(), set()
    # ... and in the functions of the same module it hands part of the work to (forge_int may leave the 7-bit groups to forge_nat)
    family = list(repo.with_fresh_callees(fi))
    seen = {f.qualname for f in family}
    todo = list(family)
    while todo:
        g = todo.pop()
        for c in ast.walk(g.node):
            if isinstance(c, ast.Call) and isinstance(c.func, ast.Name):
                kind, obj = repo.lookup(repo.resolve_name(g.module, c.func.id))
                if kind == 'func' and obj.module is fi.module and obj.qualname not in seen:
                    seen.add(obj.qualname)
                    family.append(obj)
                    todo.append(obj)
    for f in family:
        def const(n, f=f):
            if isinstance(n, ast.Constant):
                return n.value if isinstance(n.value, int) and not isinstance(n.value, bool) else None
            if isinstance(n, (ast.Name, ast.Attribute)):
                try:
                    v = repo.fold(n, f.module)
                except Exception:
                    return None
                return v if isinstance(v, int) and not isinstance(v, bool) else None
            return None

        for n in ast.walk(f.node):
            op = None
            operands: List[ast.AST] = []
            if isinstance(n, ast.BinOp):
                op, operands = n.op, [n.left, n.right]
            elif isinstance(n, ast.AugAssign):
                op, operands = n.op, [n.value]
            if op is None:
                continue
            if isinstance(op, (ast.BitAnd, ast.BitOr)):
                for o in operands:
                    if isinstance(o, ast.IfExp):
                        for b in (o.body, o.orelse):
                            if const(b) is not None:
                                masks.add(const(b))
                    if const(o) is not None:
                        masks.add(const(o))
            elif isinstance(op, (ast.LShift, ast.RShift)):
                c = const(operands[-1])
                if c is not None:
                    shifts.add(c)
    masks.discard(0)  # `x | 0`: no bit at all
    return masks, shifts


def run(repo: Repo, chk: Check) -> None:
    chk.explanation = (
        'Structural necessary conditions of the Micheline codec: the primitive tag table equals the protocol table (every row); '
        'the byte-level *schema* written by forge_micheline for every node shape and the schema read by unforge_micheline for '
        'every one of the 256 tag bytes are extracted by abstract interpretation of the function bodies (children, names and '
        'literals opaque) and compared with the Micheline binary grammar and with each other; each rejection the property names '
        'must exist as an explicit failing path conditioned on the relevant bytes.  Decides schemas, tables and reject paths; '
        'does not decide unforge(forge(e)) == e over values.'
    )
    chk.assumptions.append('integer payload arithmetic inside forge_int/unforge_int/forge_nat is only checked for its mask/shift layout')
    mi = repo.module(FORGE)

    # ---- 1 table ------------------------------------------------------------------------------------------------
    chk.set_clause('C05.1')
    prim_tags = repo.const(f'{TAGS}.prim_tags')
    with open(REF) as f:
        ref = json.load(f)
    alias = ref['aliases']
    nonproto = set(ref['non_protocol'])
    chk.minimum('prim_tags rows', len(prim_tags), 159)
    seen_tags = {}
    tmi = repo.module(TAGS)
    for name, tag in prim_tags.items():
        cname = f'{TAGS}.prim_tags[{name}]'
        if not (isinstance(tag, bytes) and len(tag) == 1):
            chk.ob('R-TABLE', cname, False, 'tag-shape', tmi.relpath, {'tag': repr(tag)}, what='tag is not a single byte')
            continue
        rname = alias.get(name, name)
        if rname in ref['tags']:
            chk.ob('R-TABLE', cname, ref['tags'][rname] == tag[0], 'tag-value', tmi.relpath,
                   {'tag': tag[0], 'reference': ref['tags'][rname]},
                   what=f'primitive {name} carries tag {tag[0]:#04x}, protocol says {ref["tags"][rname]:#04x}')
            if tag[0] in seen_tags:
                chk.ob('R-TABLE', cname, False, 'tag-duplicate', tmi.relpath, {'also': seen_tags[tag[0]]},
                       what=f'tag {tag[0]:#04x} used by two protocol primitives')
            seen_tags[tag[0]] = name
        elif name in nonproto:
            chk.ob('R-TABLE', cname, tag[0] > 0x9E and tag[0] not in ref['tags'].values(), 'non-protocol-tag', tmi.relpath,
                   {'tag': tag[0]}, what='REPL/TZT word uses a protocol tag value')
        else:
            chk.ob('R-TABLE', cname, tag[0] not in ref['tags'].values(), 'extra-prim', tmi.relpath, {'tag': tag[0]},
                   what=f'unknown primitive {name} claims protocol tag {tag[0]:#04x}')
    inv_alias = {v: k for k, v in alias.items()}
    for rname, rtag in ref['tags'].items():
        present = rname in prim_tags or inv_alias.get(rname) in prim_tags
        chk.ob('R-TABLE', f'{TAGS}.prim_tags', present, f'row-present {rname}', tmi.relpath, what=f'protocol primitive {rname} missing')
    prim_int = repo.const(f'{FORGE}.prim_int')
    bad = [n for n, t in prim_tags.items() if alias.get(n, n) in ref['tags'] and isinstance(t, bytes) and prim_int.get(t[0]) != n]
    chk.ob('R-PAIR', f'{FORGE}.prim_int', not bad, 'inverse-of-prim_tags', mi.relpath, {'rows': len(prim_int)},
           what=f'prim_int does not invert prim_tags for {bad[:5]}')
    # ... and nothing else: a code that is not the code of some primitive of the table must not decode to a name (the reader accepts it then)
    codes = {t[0] for t in prim_tags.values() if isinstance(t, bytes) and len(t) == 1}
    stray = sorted(k for k in prim_int if k not in codes)
    chk.ob('R-PAIR', f'{FORGE}.prim_int', not stray, 'the decoding table has no code that the primitive table does not assign', mi.relpath, {'stray_codes': [hex(k) if isinstance(k, int) else repr(k) for k in stray[:8]]},
           what=f'prim_int maps the codes {[hex(k) if isinstance(k, int) else repr(k) for k in stray[:5]]} to names although no primitive has them: unforge_micheline accepts byte strings '
                'with undefined primitive tags instead of rejecting them')

    # ---- 2 templates -------------------------------------------------------------------------------------------
    chk.set_clause('C05.2')
    enc = codec.encoder_templates(repo)
    fm = repo.func(f'{FORGE}.forge_micheline')
    um = repo.func(f'{FORGE}.unforge_micheline')
    dec = codec.decoder_traces(repo)
    want_reads = {}
    for shape, paths in enc.items():
        reft = codec.reference_template(shape)
        ok = bool(paths) and all(p == ('emit', reft) for p in paths)
        chk.ob('R-TEMPLATE', f'{FORGE}.forge_micheline', ok, f'shape {shape}', fm.loc, {'emitted': paths, 'reference': reft},
               what=f'node shape {shape} is not written as the Micheline binary grammar prescribes')
        for p in paths:
            if p[0] == 'emit' and p[1] and p[1][0][0] == 'const':
                tag = int(p[1][0][1][:2], 16)
                if len(p[1][0][1]) == 2:
                    want_reads.setdefault(tag, []).append((shape, expected_reads(p[1])))
    # malformed nodes are rejected
    for name, shape in (('empty-dict', {}), ('non-node', 5)):
        it = Interp(repo, codec.EncHooks(), max_depth=2)
        res = it.run_function(fm, [shape])
        chk.ob('R-PATH', f'{FORGE}.forge_micheline', all(p.outcome == 'raise' for p in res), f'rejects {name}', fm.loc,
               what='a value that is not a Micheline node is encoded instead of rejected')
    ref_reads = {
        0: ['read-tag', 'read-zint'], 1: ['read-tag', ('read-arr', 'default')],
        2: ['read-tag', ('read-arr', 'default'), 'children*'],
        3: ['read-tag', ('read-byte', 2)], 4: ['read-tag', ('read-byte', 2), ('read-arr', 'default')],
        5: ['read-tag', ('read-byte', 2), 'child'], 6: ['read-tag', ('read-byte', 2), 'child', ('read-arr', 'default')],
        7: ['read-tag', ('read-byte', 2), 'child', 'child'],
        8: ['read-tag', ('read-byte', 2), 'child', 'child', ('read-arr', 'default')],
        9: ['read-tag', ('read-byte', 2), ('read-arr', 'default'), 'children*', ('read-arr', 'default')],
        10: ['read-tag', ('read-arr', 'default')],
    }
    ref_result_keys = {0: {'int'}, 1: {'string'}, 10: {'bytes'}}
    for t in range(256):
        paths = dec[t]
        rets = [p for p in paths if p[0] == 'return']
        cname = f'{FORGE}.unforge_micheline'
        if t in ref_reads:
            reads = {json.dumps(normalise_reads(p[2])) for p in rets}
            ok = bool(rets) and reads == {json.dumps(ref_reads[t])}
            chk.ob('R-TEMPLATE', cname, ok, f'tag {t} read-trace', um.loc, {'reads': sorted(reads), 'reference': ref_reads[t]},
                   what=f'node tag {t} is not read as the Micheline binary grammar prescribes')
            # result shape
            for p in rets:
                v = p[1]
                if t in ref_result_keys:
                    okv = isinstance(v, dict) and set(v) == ref_result_keys[t]
                elif t == 2:
                    okv = isinstance(v, list)
                else:
                    n = (t - 3) // 2
                    okv = isinstance(v, dict) and v.get('prim') == 'prim_int[byte]' and (('args' in v) == (n > 0)) \
                        and set(v) <= {'prim', 'args', 'annots'} and (n == 0 or n == 3 or len(v['args']) == n)
                chk.ob('R-TEMPLATE', cname, okv, f'tag {t} result-shape', um.loc, {'result': v},
                       what=f'decoded node for tag {t} has the wrong JSON shape')
            # pairing with the writer
            for shape, want in want_reads.get(t, []):
                got = [normalise_reads(p[2]) for p in rets]
                chk.ob('R-PAIR', cname, bool(got) and all(g == want for g in got), f'tag {t} pairs-with-writer {shape}', um.loc,
                       {'writer_needs': want, 'reader_does': got[:2]},
                       what=f'the reader of tag {t} does not consume what the writer emits for {shape}')
            chk.ob('R-PAIR', cname, t in want_reads or t == 0, f'tag {t} has-writer', um.loc,
                   what=f'no node shape is ever written with tag {t}') if t not in want_reads and t != 0 else None
        else:
            ok = bool(paths) and not rets and all(isinstance(p[1], str) for p in paths)
            chk.ob('R-PATH', cname, ok, f'tag {t} rejected', um.loc, {'outcomes': sorted({str(p[0]) for p in paths})},
                   what=f'unknown node tag {t} is not rejected')
    # get_tag / read_tag on the finite domain
    gt, rt = repo.func(f'{FORGE}.get_tag'), repo.func(f'{FORGE}.read_tag')
    it = Interp(repo, Hooks(), max_depth=1)
    for n in range(0, 6):
        for a in (0, 1, 3):
            res = it.run_function(gt, [n, a])
            want = bytes([min(3 + 2 * n + (1 if a else 0), 9)])
            chk.ob('R-TEMPLATE', f'{FORGE}.get_tag', len(res) == 1 and res[0].outcome == 'return' and res[0].value == want,
                   f'args={n} annots={a}', gt.loc, {'got': vrepr(res[0].value), 'want': want.hex()},
                   what='node tag formula differs from 3 + 2*args + annots capped at 9')
            if n < 3:
                r2 = it.run_function(rt, [want[0]])
                chk.ob('R-PAIR', f'{FORGE}.read_tag', len(r2) == 1 and r2[0].value == (n, bool(a)), f'tag={want[0]}', rt.loc,
                       {'got': vrepr(r2[0].value)}, what='read_tag does not invert get_tag')
    r9 = it.run_function(rt, [9])
    chk.ob('R-PAIR', f'{FORGE}.read_tag', r9[0].value == (3, False), 'tag=9', rt.loc, {'got': vrepr(r9[0].value)},
           what='generic tag 9 is not mapped to the dynamic-arguments branch')

    # ---- 3 reject paths ----------------------------------------------------------------------------------------
    chk.set_clause('C05.3')
    is_len_data = lambda t: isinstance(t, App) and t.op == 'len' and isinstance(t.args[0], Sym) and t.args[0].name == 'data'  # noqa
    # trailing bytes: every accepting path of the top level is conditioned on ptr == len(data)
    for t in ref_reads:
        rets = [p for p in dec[t] if p[0] == 'return']
        ok = bool(rets) and all(
            any(b and isinstance(c, App) and c.op == '==' and term_contains(c, is_len_data) for c, b in p[3].conds) for p in rets
        ) and any(p[0] == 'raise' and any((not b) and term_contains(c, is_len_data) for c, b in p[3].conds) for p in dec[t])
        chk.ob('R-PATH', f'{FORGE}.unforge_micheline', ok, f'tag {t} trailing-bytes-rejected', um.loc,
               what='a decoded node is returned without the end-of-input test (trailing bytes accepted)')
    # sequence overrun: in tags 2 and 9 a raise path exists conditioned on ptr != end after the children loop
    for t in (2, 9):
        ok = any(
            p[0] == 'raise' and 'children-end' in p[2] and p[3].conds and (not p[3].conds[-1][1]) and p[3].conds[-1][0].op == '=='
            and not term_contains(p[3].conds[-1][0], is_len_data)
            for p in dec[t]
        )
        chk.ob('R-PATH', f'{FORGE}.unforge_micheline', ok, f'tag {t} sequence-overrun-rejected', um.loc,
               what='children of a sequence may run past the declared length without a failure')
    # length prefixes: unforge_array
    ua = repo.func(f'{FORGE}.unforge_array')
    it = Interp(repo, Hooks(), max_depth=1)
    res = it.run_function(ua, [Sym('data', 'bytes')])
    rets = [p for p in res if p.outcome == 'return']
    raises = [p for p in res if p.outcome == 'raise']
    header_guard = any(
        (not b) and term_contains(c, is_len_data) and not term_contains(c, lambda t: isinstance(t, App) and 'from_bytes' in t.op)
        for p in raises for c, b in p.conds[-1:]
    )
    body_guard = any(
        (not b) and term_contains(c, is_len_data) and term_contains(c, lambda t: isinstance(t, App) and 'from_bytes' in t.op)
        for p in raises for c, b in p.conds[-1:]
    )
    chk.ob('R-PATH', f'{FORGE}.unforge_array', header_guard, 'truncated-length-prefix-rejected', ua.loc,
           {'paths': [(p.outcome, p.cond_repr()) for p in res]}, what='a buffer shorter than the length prefix is not rejected')
    chk.ob('R-PATH', f'{FORGE}.unforge_array', body_guard, 'truncated-body-rejected', ua.loc,
           {'paths': [(p.outcome, p.cond_repr()) for p in res]}, what='a declared length beyond the buffer is not rejected')
    okret = len(rets) >= 1 and all(
        isinstance(p.value, tuple) and len(p.value) == 2 and isinstance(p.value[0], App) and p.value[0].op == 'window' or
        (isinstance(p.value, tuple) and isinstance(p.value[0], App) and p.value[0].op == 'slice') for p in rets
    )
    chk.ob('R-TEMPLATE', f'{FORGE}.unforge_array', okret, 'returns (body, consumed)', ua.loc, {'ret': [vrepr(p.value) for p in rets]},
           what='unforge_array does not return the body slice and the consumed length')
    # forge_array template
    fa = repo.func(f'{FORGE}.forge_array')
    res = Interp(repo, Hooks(), max_depth=1).run_function(fa, [Sym('data', 'bytes')])
    want = App('cat', App('mcall:to_bytes', App('len', Sym('data')), 4, 'big'), Sym('data'))
    chk.ob('R-TEMPLATE', f'{FORGE}.forge_array', len(res) == 1 and vrepr(res[0].value) == vrepr(want), 'len4-big-endian + data', fa.loc,
           {'got': vrepr(res[0].value)}, what='arrays are not written as 4-byte big-endian length followed by the body')
    # non-minimal integers
    ui = repo.func(f'{FORGE}.unforge_int')
    it = Interp(repo, _IntHooks(), max_depth=1, while_bound=3)
    res = it.run_function(ui, [Sym('data', 'bytes')])

    def zero_test_index(c):
        """index i of a path condition  data[i] == 0  (the whole byte, not a masked part), else None"""
        if not (isinstance(c, App) and c.op == '==' and 0 in c.args):
            return None
        if term_contains(c, lambda t: isinstance(t, App) and t.op == 'op:BitAnd'):
            return None
        for a in c.args:
            if isinstance(a, App) and a.op == 'getitem' and isinstance(a.args[0], Sym) and a.args[0].name == 'data' and isinstance(a.args[1], int):
                return a.args[1]
        return None

    rejected_at = sorted({zero_test_index(c) for p in res if p.outcome == 'raise' for c, b in p.conds if b and zero_test_index(c) is not None})
    lengths = sorted({p.value[1] for p in res if p.outcome == 'return' and isinstance(p.value, tuple) and isinstance(p.value[1], int)})
    # every multi-byte encoding explored (2, 3, ... bytes) must have a rejecting path on a zero last byte; the single byte 00 is the number 0
    need = [n - 1 for n in lengths if n >= 2]
    chk.ob('R-PATH', f'{FORGE}.unforge_int', bool(need) and all(i in rejected_at for i in need) and 0 not in rejected_at, 'non-minimal-integer-rejected', ui.loc,
           {'paths': len(res), 'encoded_lengths_explored': lengths, 'rejected_when_zero_at_index': rejected_at},
           what=f'unforge_int: encodings of {[n for n in lengths if n >= 2 and n - 1 not in rejected_at] or lengths} bytes whose last 7-bit group is zero are not rejected '
                f'(rejecting paths exist for a zero byte at index {rejected_at}): non-minimal encodings such as 00 80 00 decode (as 0)')

    # truncated integers: an integer ends at the first byte WITHOUT the continuation bit; a path that returns (value, n) must have seen that
    # bit clear in byte n-1 (if the scan can stop for any other reason - the end of the buffer - a truncated integer is decoded from what is there)
    def cont_bit(c):
        """(index, term is `bit set`) for a path condition testing the continuation bit 0x80 of data[index]"""
        if not (isinstance(c, App) and c.op in ('!=', '==') and len(c.args) == 2 and 0 in c.args):
            return None
        other = c.args[0] if c.args[1] == 0 else c.args[1]
        if isinstance(other, App) and other.op == 'op:BitAnd' and 128 in other.args:
            g = other.args[0] if other.args[1] == 128 else other.args[1]
            if isinstance(g, App) and g.op == 'getitem' and isinstance(g.args[0], Sym) and g.args[0].name == 'data' and isinstance(g.args[1], int):
                return g.args[1], c.op == '!='
        return None

    unterminated = []
    for p in res:
        if p.outcome == 'return' and not p.truncated and isinstance(p.value, tuple) and isinstance(p.value[1], int):
            n = p.value[1]
            seen_clear = False
            for c, b in p.conds:
                cb = cont_bit(c)
                if cb is not None and cb[0] == n - 1 and (cb[1] != b):  # (`bit set` is False) or (`bit clear` is True)
                    seen_clear = True
            if not seen_clear:
                unterminated.append({'length': n, 'under': p.cond_repr()[:160]})
    chk.ob('R-PATH', f'{FORGE}.unforge_int', bool(lengths) and not unterminated, 'an integer is only returned once a byte without continuation bit was read', ui.loc,
           {'returning_paths_without_terminator': unterminated[:3]},
           what=f'unforge_int returns a value although the last byte it read still has the continuation bit ({unterminated[:1]}): a truncated integer '
                '(00 80, 00 ad ff ...) is decoded from the bytes that happen to be there instead of being rejected')

    # ---- 4 len_bytes pairing -----------------------------------------------------------------------------------
    chk.set_clause('C05.4')
    for fi in (fm, um):
        for c in [n for n in ast.walk(fi.node) if isinstance(n, ast.Call)]:
            nm = norm(c.func)
            if nm in ('forge_array', 'unforge_array'):
                over = [k for k in c.keywords if k.arg == 'len_bytes'] or c.args[1:]
                chk.ob('R-PAIR', fi.qualname, not over, f'{nm} default len_bytes', f'{fi.module.relpath}:{c.lineno}',
                       {'call': norm(c)[:80]}, what='Micheline arrays use a 4-byte length on both sides')
    for q in ('forge_array', 'unforge_array'):
        f = repo.func(f'{FORGE}.{q}')
        d = f.node.args.defaults
        chk.ob('R-PAIR', f.qualname, len(d) == 1 and isinstance(d[0], ast.Constant) and d[0].value == 4, 'default len_bytes == 4', f.loc,
               what='default length-prefix width is not 4')

    # ---- 5 bit layout ------------------------------------------------------------------------------------------
    chk.set_clause('C05.5')
    layouts = {
        'forge_int': ({0x3F, 0x7F, 0x80}, {6, 7}, {0xC0, 0x40}),
        'unforge_int': ({0x3F, 0x7F, 0x80, 0x40}, {6, 7}, set()),
        'forge_nat': ({0x7F, 0x80}, {7}, set()),
    }
    for name, (need_masks, need_shifts, sign_alt) in layouts.items():
        f = repo.func(f'{FORGE}.{name}')
        masks, shifts = bit_constants(repo, f)
        if not masks and not shifts:
            raise AnalysisError(f'{name}: no mask/shift constants found — bit layout idiom not modelled')
        extra = masks - need_masks - sign_alt
        ok = need_masks <= masks and shifts == need_shifts and not extra and (not sign_alt or masks & sign_alt)
        chk.ob('R-PAIR', f.qualname, ok, 'zarith bit layout', f.loc, {'masks': sorted(masks), 'shifts': sorted(shifts)},
               what=f'{name} uses masks {sorted(map(hex, masks))} / shifts {sorted(shifts)}; Zarith layout needs '
                    f'{sorted(map(hex, need_masks))} / {sorted(need_shifts)}')
    # the sign flag (bit 6) belongs to the FIRST byte of the encoding: in the writer it is OR-ed in before the loop that emits the 7-bit groups, never
    # into the byte the loop wrote last
    fint = repo.func(f'{FORGE}.forge_int')
    loops = [n for n in ast.walk(fint.node) if isinstance(n, (ast.While, ast.For))]
    late = []
    if loops:
        first_loop = min(l.lineno for l in loops)
        for st in ast.walk(fint.node):
            if isinstance(st, (ast.AugAssign, ast.Assign, ast.Expr)) and st.lineno > first_loop and not any(st.lineno >= l.lineno and st.lineno <= getattr(l, 'end_lineno', l.lineno) for l in loops):
                for n in ast.walk(st):
                    ops = []
                    if isinstance(n, ast.BinOp) and isinstance(n.op, ast.BitOr):
                        ops = [n.left, n.right]
                    elif isinstance(n, ast.AugAssign) and isinstance(n.op, ast.BitOr):
                        ops = [n.value]
                    for o in ops:
                        for c in ast.walk(o):
                            if isinstance(c, ast.Constant) and isinstance(c.value, int) and not isinstance(c.value, bool) and c.value & 0x40 and c.value < 0x100:
                                late.append(f'{fint.module.relpath}:{st.lineno} `{norm(st)[:60]}`')
    chk.ob('R-PAIR', fint.qualname, not late, 'the sign flag is set on the first byte (before the groups are emitted)', fint.loc, {'sign_flag_set_after_the_loop': late},
           what=f'forge_int ORs the sign bit in after the loop at {late[:1]}: for a magnitude of more than 6 bits the flag lands in the LAST byte, the number is read back positive '
                'and with a different magnitude')
    # group-boundary guards of the integer writers: a comparison of the remaining magnitude with a constant decides "one more group or not";
    # as a half-line over the integers its boundary must be a group boundary: 0 (sign test), 1 (non-zero), 2^6 (first group) or 2^7.
    # `> 0x80`, `>= 0x7f`, `> 64` ... put one value on the wrong side: that value is written one group short / with a dangling continuation bit.
    for name in ('forge_int', 'forge_nat'):
        f = repo.func(f'{FORGE}.{name}')
        for g in repo.with_fresh_callees(f):
            for n in ast.walk(g.node):
                if not (isinstance(n, ast.Compare) and len(n.ops) == 1):
                    continue
                l, r = n.left, n.comparators[0]

                def const(x, g=g):
                    try:
                        v = repo.fold(x, g.module)
                    except Exception:
                        return None
                    return v if isinstance(v, int) and not isinstance(v, bool) else None

                cl, cr = const(l), const(r)
                if (cl is None) == (cr is None):
                    continue
                other, c, op = (r, cl, type(n.ops[0]).__name__) if cl is not None else (l, cr, type(n.ops[0]).__name__)
                if cl is not None:
                    op = {'Lt': 'Gt', 'LtE': 'GtE', 'Gt': 'Lt', 'GtE': 'LtE'}.get(op, op)
                if any(isinstance(x, (ast.Subscript, ast.Call)) for x in ast.walk(other)):
                    continue  # bytes of the buffer / lengths, not the magnitude
                if op in ('Eq', 'NotEq'):
                    boundary = c + 1 if c == 0 else None   # x != 0 / x == 0: non-zero test; equality with another constant is not a half-line
                else:
                    boundary = {'Gt': c + 1, 'GtE': c, 'Lt': c, 'LtE': c + 1}.get(op)
                chk.ob('R-GUARD', g.qualname, boundary in (0, 1, 64, 128), f'magnitude guard `{norm(n)[:50]}` splits at a group boundary', f'{g.module.relpath}:{n.lineno}',
                       {'boundary': boundary, 'allowed': [0, 1, 64, 128]},
                       what=f'{name}: the guard `{norm(n)[:60]}` separates the integers at {boundary}, which is not 0, 1, 2^6 or 2^7: the value {boundary - 1 if boundary else "?"} or '
                            f'{boundary} is encoded with the wrong number of 7-bit groups')
    chk.note('decoder_tags_enumerated', 256)
    chk.note('encoder_shapes', len(enc))


class _IntHooks(Hooks):
    def truth(self, it, term):
        return None


def controls(chk: Check) -> None:
    if expected_reads([('const', '07'), ('primtag',), ('child', 'c1'), ('child', 'c2')]) != ['read-tag', ('read-byte', 2), 'child', 'child']:
        raise AnalysisError('positive control of the writer/reader pairing failed')
