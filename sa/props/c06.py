"""C06 Local operation forging matches the Tezos operation binary format (schema clauses).

 1 R-TEMPLATE  every forge_<kind>, run through the forge_operation dispatcher on an abstract content record, is reduced to its
               ordered field list and compared with the reference schema (optional fields: both variants)
 2 R-TABLE     operation_tags, reserved_entrypoints vs reference; dispatcher keys
 3 entrypoint encoding: reserved -> 1 byte tag, named -> ff + 1-byte-length name; parameters omitted iff default+Unit
 4 21-byte form for source/delegate, 22-byte form for destination/ticketer (part of the schemas)
 5 forge_operation_group = branch bytes + concatenated contents in order
"""
from __future__ import annotations

import json
import os
from typing import Any, Dict, List

from ..absint import vkey, Builtin, App, FuncRef, Hooks, Interp, Sym, vrepr
from ..model import AnalysisError, Repo
from ..report import Check

OPF = 'pytezos.operation.forge'
MF = 'pytezos.michelson.forge'
REF = os.path.join(os.path.dirname(os.path.dirname(__file__)), 'reference', 'operations.json')


class OpHooks(Hooks):
    def __init__(self, ep_reserved: bool = False, ep_default: bool = False, value_unit: bool = False):
        self.ep_reserved = ep_reserved
        self.ep_default = ep_default
        self.value_unit = value_unit

    def inline(self, it, fi):
        if fi.module.name == OPF:
            return True
        return fi.qualname in (f'{MF}.forge_bool', f'{MF}.forge_int16', f'{MF}.forge_int32', f'{MF}.forge_script', f'{MF}.forge_array')

    def isinstance(self, it, obj, classes):
        # the fields of an operation content are JSON values: strings (only the results of encoders are bytes)
        names = {c.name for c in classes if isinstance(c, Builtin)}
        if isinstance(obj, Sym):
            return 'str' in names
        if isinstance(obj, App) and obj.op in ('mcall:encode', 'call:bytes.fromhex', 'cat') or (isinstance(obj, App) and obj.op.startswith('call:')):
            return bool(names & {'bytes', 'bytearray'})
        if isinstance(obj, bytes):
            return bool(names & {'bytes'})
        return NotImplemented

    def truth(self, it, term):
        if isinstance(term, Sym):
            return True
        return None

    def call(self, it, callee, args, kwargs, node):
        if isinstance(callee, FuncRef) and callee.fi is not None and callee.fi.qualname == f'{OPF}.forge_operation' \
                and args and isinstance(args[0], Sym):
            return App('op', args[0])
        if isinstance(callee, Builtin) and callee.name in ('sorted', 'reversed') and args and isinstance(args[0], list) and args[0] \
                and all(isinstance(x, Sym) and x.name.startswith('c') and x.name[1:].isdigit() for x in args[0]):
            # the contents of a group are forged in the order given; any re-ordering (by counter, kind, ...) is some other order: the reversed
            # list stands for it (it differs from the identity on every list of two or more)
            it.event('contents-reordered', callee.name)
            return list(reversed(args[0]))
        return NotImplemented

    def compare(self, it, op, a, b, node):
        if op in ('==', '!='):
            s, c = (a, b) if isinstance(a, Sym) else (b, a)
            if isinstance(s, Sym) and s.name == 'parameters.entrypoint' and c == 'default':
                return self.ep_default if op == '==' else not self.ep_default
            if isinstance(s, Sym) and s.name == 'parameters.value' and c == {'prim': 'Unit'}:
                return self.value_unit if op == '==' else not self.value_unit
        if op in ('in', 'not in') and isinstance(a, Sym) and a.name == 'parameters.entrypoint' and isinstance(b, dict):
            r = self.ep_reserved or self.ep_default
            return r if op == 'in' else not r
        return NotImplemented


def fname(v: Any) -> str:
    """Field path of a content access term."""
    if isinstance(v, Sym):
        return v.name
    raise AnalysisError(f'field expression not modelled: {vrepr(v)}')


def tokens(v: Any, reserved_keys) -> List[Any]:
    if isinstance(v, bytes):
        return [['const', v.hex()]] if v else []
    if isinstance(v, App):
        q = v.op
        kws = {a.args[0]: a.args[1] for a in v.args if isinstance(a, App) and a.op == 'kw'}
        pos = [a for a in v.args if not (isinstance(a, App) and a.op == 'kw')]
        if q == 'cat':
            out: List[Any] = []
            args = list(v.args)
            i = 0
            while i < len(args):
                a = args[i]
                # forge_array inlined: len(P).to_bytes(n, 'big') followed by P itself is the dynamic field `dyn(P)`; a length taken of anything
                # else than the bytes that follow (e.g. of the text before it is encoded) is not a length prefix of that field
                if isinstance(a, App) and a.op == 'mcall:to_bytes' and isinstance(a.args[0], App) and a.args[0].op == 'len' and len(a.args) >= 3 and a.args[2] == 'big':
                    measured, nb = a.args[0].args[0], a.args[1]
                    rest = args[i + 1:]
                    # the payload may itself be a concatenation: take the longest run of following parts whose concatenation is the measured term
                    from ..absint import cat as _cat
                    took = None
                    for j in range(len(rest), 0, -1):
                        if vkey(_cat(*rest[:j])) == vkey(measured):
                            took = j
                            break
                    if took is None and isinstance(measured, bytes) and not measured and not rest:
                        took = 0
                    if took is None:
                        out.append(['length-of-something-else', vrepr(measured)[:60]])
                        i += 1
                        continue
                    out.append(['dyn' if nb == 4 else f'dyn{nb}', tokens(_cat(*rest[:took]) if took else b'', reserved_keys)])
                    i += 1 + took
                    continue
                out += tokens(a, reserved_keys)
                i += 1
            return out
        if q == f'call:{MF}.forge_address':
            tz = kws.get('tz_only', pos[1] if len(pos) > 1 else False)
            return [['pkh21' if tz is True else 'addr22', fname(pos[0])]]
        if q == f'call:{MF}.forge_nat' and isinstance(pos[0], App) and pos[0].op == 'int':
            return [['N', fname(pos[0].args[0])]]
        if q == f'call:{MF}.forge_public_key':
            return [['pk', fname(pos[0])]]
        if q == f'call:{MF}.forge_base58':
            return [['b58', fname(pos[0])]]
        if q == f'call:{MF}.forge_micheline':
            return [['micheline', fname(pos[0])]]
        if q == f'call:{MF}.forge_array':
            lb = kws.get('len_bytes', pos[1] if len(pos) > 1 else 4)
            return [['dyn' if lb == 4 else f'dyn{lb}', tokens(pos[0], reserved_keys)]]
        if q == 'call:bytes.fromhex':
            return [['hex', fname(pos[0])]]
        if q == 'mcall:encode' and len(v.args) == 1:
            return [['utf8', fname(v.args[0])]]
        if q == 'mcall:to_bytes' and isinstance(v.args[0], App) and v.args[0].op == 'int' and v.args[2] == 'big':
            return [[f'int{v.args[1] * 8}', fname(v.args[0].args[0])]]
        if q == 'mcall:to_bytes' and isinstance(v.args[0], Sym) and v.args[2] == 'big':
            return [[f'int{v.args[1] * 8}', fname(v.args[0])]]
        if q == 'getitem' and isinstance(v.args[0], dict) and set(v.args[0].keys()) == set(reserved_keys):
            return [['reserved-entrypoint-tag', fname(v.args[1])]]
        if q == 'op':
            return [['content', fname(v.args[0])]]
    if isinstance(v, App) and v.op.startswith('call:') and len(v.args) >= 1 and isinstance(v.args[0], Sym):
        return [['via:' + v.op[5:].rsplit('.', 1)[-1], v.args[0].name]]  # an encoder the schema table does not know: compared (and reported) by name
    if isinstance(v, Sym):
        return [['raw', v.name]]  # a content field handed on without any encoder (never what the protocol schema says)
    raise AnalysisError(f'forger emits a term the schema normaliser does not model: {vrepr(v)}')


def content_for(kind: str, fields: Dict[str, Any]) -> Dict[str, Any]:
    c: Dict[str, Any] = {'kind': kind}
    c.update(fields)
    return c


def expand(schema, header, variant: Dict[str, bool], tag: int, ep_tokens) -> List[Any]:
    out: List[Any] = [['const', f'{tag:02x}']]
    if schema['manager']:
        out += [list(x) for x in header]
    for item in schema['body']:
        if item[0] == 'option':
            if variant.get(item[1], False):
                out.append(['const', 'ff'])
                for sub in item[2]:
                    if sub[0] == 'entrypoint':
                        out += ep_tokens
                    else:
                        out.append(sub)
            else:
                out.append(['const', '00'])
        else:
            out.append(item)
    return merge_consts(out)


def merge_consts(toks: List[Any]) -> List[Any]:
    out: List[Any] = []
    for t in toks:
        t = [t[0], merge_consts(t[1])] if t[0].startswith('dyn') else list(t)
        if out and t[0] == 'const' and out[-1][0] == 'const':
            out[-1] = ['const', out[-1][1] + t[1]]
        else:
            out.append(t)
    return out


def fields_of(schema, header) -> Dict[str, Any]:
    f: Dict[str, Any] = {}

    def walk(items):
        for it in items:
            if it[0] == 'option':
                walk(it[2])
            elif it[0].startswith('dyn'):
                walk(it[1])
            elif len(it) > 1:
                f[it[1]] = True

    if schema['manager']:
        walk(header)
    walk(schema['body'])
    return f


def run(repo: Repo, chk: Check) -> None:
    chk.explanation = (
        'Each per-kind forger is interpreted abstractly (field values opaque) through the forge_operation dispatcher and reduced '
        'to the ordered list of (encoder, field) it emits, for both variants of every optional field; the list is compared with '
        'the reference operation.contents schema.  Tag tables are compared row by row.  Decides the schema of the forgers, not '
        'the bytes of the field encoders (C05/C10 cover those).'
    )
    with open(REF) as f:
        ref = json.load(f)
    header = ref['manager_header']
    mi = repo.module(OPF)
    tags = repo.const('pytezos.rpc.kind.operation_tags')
    reserved = repo.const(f'{OPF}.reserved_entrypoints')
    fo = repo.func(f'{OPF}.forge_operation')

    # ---- 2 tables ----------------------------------------------------------------------------------------------
    chk.set_clause('C06.2')
    kmi = repo.module('pytezos.rpc.kind')
    for k, t in tags.items():
        if k in ref['operation_tags']:
            chk.ob('R-TABLE', f'pytezos.rpc.kind.operation_tags[{k}]', t == ref['operation_tags'][k], 'tag-value', kmi.relpath,
                   {'tag': t, 'reference': ref['operation_tags'][k]}, what=f'operation kind {k} has tag {t}, protocol says {ref["operation_tags"][k]}')
        else:
            chk.info('R-TABLE', f'pytezos.rpc.kind.operation_tags[{k}]', 'kind without reference row', kmi.relpath)
    byv: Dict[int, str] = {}
    for k, t in tags.items():
        if t in byv:
            chk.ob('R-TABLE', f'pytezos.rpc.kind.operation_tags[{k}]', False, 'tag-duplicate', kmi.relpath, {'also': byv[t]},
                   what=f'tag {t} shared by {k} and {byv[t]}: decoding is ambiguous')
        byv[t] = k
    for k in ref['required_kinds']:
        chk.ob('R-TABLE', 'pytezos.rpc.kind.operation_tags', k in tags, f'row-present {k}', kmi.relpath, what=f'kind {k} has no tag')
    for k, t in ref['reserved_entrypoints'].items():
        ok = k in reserved and reserved[k] == bytes([t])
        chk.ob('R-TABLE', f'{OPF}.reserved_entrypoints', ok, f'row {k}', mi.relpath,
               {'have': reserved.get(k).hex() if isinstance(reserved.get(k), bytes) else None, 'reference': t},
               what=f'entrypoint {k} must be encoded as the single byte {t:02x}; it is '
                    + ('forged as a named entrypoint (ff + length + name), which is not the canonical encoding' if k not in reserved else 'mapped to another tag'))
    for k, v in reserved.items():
        if k not in ref['reserved_entrypoints']:
            chk.ob('R-TABLE', f'{OPF}.reserved_entrypoints', False, f'extra-row {k}', mi.relpath, what=f'{k} is not a reserved entrypoint')
    chk.minimum('operation tag rows', len(tags), 17)

    # ---- 1/3/4 schemas -----------------------------------------------------------------------------------------
    chk.set_clause('C06.1')
    nforgers = 0
    for kind, schema in ref['schemas'].items():
        nforgers += 1
        opts = [it[1] for it in schema['body'] if it[0] == 'option']
        variants: List[Dict[str, bool]] = [{}]
        for o in opts:
            variants = [dict(v, **{o: b}) for v in variants for b in (False, True)]
        for variant in variants:
            ep_cases = [('named', False, False)]
            if variant.get('parameters'):
                ep_cases = [('named', False, False), ('reserved', True, False), ('default-nonunit', False, True)]
            for ep_name, ep_res, ep_def in ep_cases:
                flds: Dict[str, Any] = {}
                for name in fields_of(schema, header):
                    if '.' in name or '[' in name:
                        continue
                    flds[name] = Sym(name)
                if kind == 'origination':
                    flds['script'] = {'code': Sym('script.code'), 'storage': Sym('script.storage')}
                if kind == 'smart_rollup_add_messages':
                    flds['message'] = [Sym('message[0]'), Sym('message[1]')]
                for o in opts:
                    if variant.get(o):
                        if o == 'parameters':
                            flds['parameters'] = {'entrypoint': Sym('parameters.entrypoint'), 'value': Sym('parameters.value')}
                        else:
                            flds[o] = Sym(o)
                    else:
                        flds.pop(o, None)
                content = content_for(kind, flds)
                hooks = OpHooks(ep_reserved=ep_res, ep_default=ep_def, value_unit=False)
                res = Interp(repo, hooks, max_depth=4).run_function(fo, [content])
                if ep_name == 'named':
                    ep_tok = [['const', 'ff'], ['dyn1', [['utf8', 'parameters.entrypoint']]]]
                else:
                    ep_tok = [['reserved-entrypoint-tag', 'parameters.entrypoint']]
                want = expand(schema, header, variant, ref['operation_tags'][kind], ep_tok)
                got = []
                for p in res:
                    got.append(merge_consts(tokens(p.value, reserved.keys())) if p.outcome == 'return' else ['raise', p.value.cls])
                label = f'kind={kind} ' + ' '.join(f'{o}={"yes" if variant.get(o) else "no"}' for o in opts) + (f' entrypoint={ep_name}' if variant.get('parameters') else '')
                chk.ob('R-TEMPLATE', f'{OPF}.forge_operation', len(got) == 1 and got[0] == want, label.strip(), mi.relpath,
                       {'emitted': got, 'reference': want},
                       what=f'{kind} is not forged with the field order/encoders of the protocol schema')
    chk.minimum('forgers with a reference schema', nforgers, 10)
    # unknown kind is refused
    res = Interp(repo, OpHooks(), max_depth=2).run_function(fo, [{'kind': 'no_such_kind'}])
    chk.ob('R-PATH', f'{OPF}.forge_operation', all(p.outcome == 'raise' for p in res), 'unknown kind refused', fo.loc,
           what='an unknown operation kind is forged')

    # ---- 3 parameters omitted iff default + Unit ----------------------------------------------------------------
    chk.set_clause('C06.3')
    hp = repo.func(f'{OPF}.has_parameters')
    table = []
    for present in (False, True):
        for ep_kind in ('default', 'reserved (root, do, set_delegate, stake, ...)', 'named'):
            for unit in (False, True):
                if not present and (ep_kind != 'named' or unit):
                    continue
                c: Dict[str, Any] = {'kind': 'transaction'}
                if present:
                    c['parameters'] = {'entrypoint': Sym('parameters.entrypoint'), 'value': Sym('parameters.value')}
                ep_def = ep_kind == 'default'
                hooks = OpHooks(ep_reserved=ep_kind != 'named', ep_default=ep_def, value_unit=unit)
                res = Interp(repo, hooks, max_depth=1).run_function(hp, [c])
                want = present and not (ep_def and unit)
                ok = len(res) == 1 and res[0].outcome == 'return' and res[0].value is want
                table.append((present, ep_kind, unit, [vrepr(p.value) for p in res]))
                chk.ob('R-DISPATCH', hp.qualname, ok, f'present={present} entrypoint={ep_kind} unit={unit}', hp.loc,
                       {'got': [vrepr(p.value) for p in res], 'want': want},
                       what=f'parameters must be omitted exactly for entrypoint default with value Unit; with parameters present={present}, entrypoint {ep_kind}, '
                            f'value {"Unit" if unit else "not Unit"} has_parameters gives {[vrepr(p.value) for p in res]}')
    # ---- 5 group ------------------------------------------------------------------------------------------------
    chk.set_clause('C06.5')
    fg = repo.func(f'{OPF}.forge_operation_group')
    res = Interp(repo, OpHooks(), max_depth=1).run_function(fg, [{'branch': Sym('branch'), 'contents': [Sym('c0'), Sym('c1')]}])
    got = [tokens(p.value, reserved.keys()) if p.outcome == 'return' else ['raise'] for p in res]
    want = [['b58', 'branch'], ['content', 'c0'], ['content', 'c1']]
    chk.ob('R-TEMPLATE', fg.qualname, got == [want], 'branch + contents in order', fg.loc, {'emitted': got, 'reference': want},
           what='an operation group is not forged as branch followed by its contents in order')
    # ---- 6 the content handed to the forger can be read more than once --------------------------------------------------------------------
    # A group is forged several times (forge(), then sign()/hash()/binary_payload() forge it again, and derived groups share the content
    # dictionaries), so every value a content builder stores must give the same reading each time: no one-shot iterator (map, filter, zip,
    # iter, reversed, a generator expression) may be stored in a content dictionary.
    chk.set_clause('C06.6')
    import ast as _ast
    ONE_SHOT = {'map', 'filter', 'zip', 'iter', 'reversed', 'enumerate'}
    cm = repo.cls('pytezos.operation.content.ContentMixin')
    nvals = 0
    for fi in cm.methods.values():
        assigns = {}
        for n in _ast.walk(fi.node):
            if isinstance(n, _ast.Assign) and len(n.targets) == 1 and isinstance(n.targets[0], _ast.Name):
                assigns.setdefault(n.targets[0].id, []).append(n.value)

        def lazy(e, depth=0):
            if isinstance(e, _ast.GeneratorExp):
                return 'a generator expression'
            if isinstance(e, _ast.Call) and isinstance(e.func, _ast.Name) and e.func.id in ONE_SHOT:
                return f'the one-shot iterator {e.func.id}(...)'
            if isinstance(e, _ast.IfExp):
                return lazy(e.body, depth) or lazy(e.orelse, depth)
            if isinstance(e, _ast.Name) and depth < 3:
                for v in assigns.get(e.id, []):
                    r = lazy(v, depth + 1)
                    if r:
                        return r
            return None

        for d in [n for n in _ast.walk(fi.node) if isinstance(n, _ast.Dict)]:
            for k, v in zip(d.keys, d.values):
                if k is None:
                    continue
                nvals += 1
                why = lazy(v)
                key = k.value if isinstance(k, _ast.Constant) else _ast.unparse(k)
                if why:
                    chk.ob('R-OWNER', fi.qualname, False, f'field {key!r} holds a value that can be read again', f'{fi.module.relpath}:{v.lineno}',
                           {'value': _ast.unparse(v)[:100]},
                           what=f'{fi.qualname} stores {why} under {key!r} in the operation content: the first forge consumes it, every later forge of the '
                                'same content (sign, hash, binary_payload, a derived group) encodes an empty field, so the signed bytes differ from the forged ones')
    chk.ob('R-OWNER', cm.qualname, True, f'{nvals} content fields hold re-readable values (no one-shot iterator)', cm.loc)
    chk.minimum('content dictionary fields', nvals, 90)
