"""C22 A failing REPL cell leaves the session as if it never ran.

 1 Interpreter.execute interpreted with the parse / match / execute steps succeeding or raising: both snapshots are taken before
   the first step that can mutate; on every handled failure self.stack and self.context are restored from the snapshots and the
   error is recorded; on success nothing is restored.  The exception classes the mutating step can raise are those of the
   ErrorTrace wrapper (checked on the metaclass), which the handler catches.
 2 snapshot isolation: values on the stack that hold a reference to the context (big_map, sapling_state) must be copied under
   the same memo as the context: one deepcopy for both snapshots, and no __deepcopy__ override that ignores its memo and keeps
   the live context.
"""
from __future__ import annotations

import ast
from typing import Any, List

from ..absint import App, ClassRef, ExcVal, FuncRef, Hooks, Interp, ModRef, Obj, Raised, Sym, vrepr
from ..model import AnalysisError, Repo, dotted, norm
from ..cfg import CFG, calls_in, node_exprs
from ..report import Check

R = 'pytezos.michelson.repl.Interpreter'
MRE = 'pytezos.michelson.micheline.MichelsonRuntimeError'
MPE = 'pytezos.michelson.parse.MichelsonParserError'


class ReplHooks(Hooks):
    def __init__(self, fail_at: str, exc: str):
        self.fail_at = fail_at  # 'parse' | 'match' | 'execute' | None
        self.exc = exc

    def inline(self, it, fi):
        return fi.qualname == f'{R}.execute'

    def call(self, it, callee, args, kwargs, node):
        if isinstance(callee, ModRef) and callee.name == 'copy.deepcopy':
            it.event('snapshot', args[0])
            return App('snapshot', args[0])
        if isinstance(callee, FuncRef) and callee.fi is not None:
            n = callee.fi.name
            if n == 'michelson_to_micheline':
                it.event('step', 'parse')
                if self.fail_at == 'parse':
                    raise Raised(ExcVal(self.exc, ('parse error',)))
                return Sym('micheline')
            if n == 'match':
                it.event('step', 'match')
                if self.fail_at == 'match':
                    raise Raised(ExcVal(self.exc, ('match error',)))
                return Sym('code_section')
        if isinstance(callee, App) and callee.op == 'attr' and callee.args[1] == 'execute':
            it.event('step', 'execute', args)
            if self.fail_at == 'execute':
                raise Raised(ExcVal(self.exc, ('runtime error',)))
            return Sym('instructions')
        if isinstance(callee, ClassRef) and callee.qual.endswith('MichelineSequence'):
            return App('seq', *args)
        return NotImplemented


def run(repo: Repo, chk: Check) -> None:
    chk.explanation = (
        'Interpreter.execute is interpreted with each step failing or succeeding; restoration from the snapshots is checked on '
        'every handled path.  Snapshot isolation is an ownership rule over the classes whose values keep a reference to the '
        'context: it is decided from the deepcopy call structure and the __deepcopy__ overrides.  Equality of later observations '
        'is a consequence, not decided by value.'
    )
    ex = repo.func(f'{R}.execute')
    chk.set_clause('C22.1')

    def make(debug=False):
        ctx = Obj('pytezos.context.impl.ExecutionContext', {'debug': debug})
        return Obj(R, {'stack': Sym('STACK'), 'context': ctx, 'parser': Sym('parser')}), [Sym('code', 'str')], {}

    for fail_at in (None, 'parse', 'match', 'execute'):
        for exc in ((MRE, MPE) if fail_at else (None,)):
            if fail_at == 'parse' and exc == MRE or fail_at in ('match', 'execute') and exc == MPE:
                continue
            final = {}

            def after(it, o, final=final):
                final['stack'] = o.fields.get('stack')
                final['context'] = o.fields.get('context')
                it.event('final', vrepr(o.fields.get('stack')), type(o.fields.get('context')).__name__ + ':' + vrepr(o.fields.get('context'))[:60])

            res = Interp(repo, ReplHooks(fail_at, exc or ''), max_depth=1).run_method(ex, make, after)
            label = f'failure at {fail_at}' if fail_at else 'success'
            ok = len(res) == 1 and res[0].outcome == 'return'
            facts: Any = {'outcomes': [(p.outcome, vrepr(p.value)[:80]) for p in res]}
            if ok:
                p = res[0]
                ev = p.events
                snaps = [i for i, e in enumerate(ev) if isinstance(e, tuple) and e[0] == 'snapshot']
                steps = [i for i, e in enumerate(ev) if isinstance(e, tuple) and e[0] == 'step']
                fin = [e for e in ev if isinstance(e, tuple) and e[0] == 'final'][0]
                before = len(snaps) == 2 and (not steps or max(snaps) < min(steps))
                snap_args = [vrepr(ev[i][1])[:30] for i in snaps]
                facts.update(snapshots=snap_args, final=fin[1:])
                if fail_at:
                    restored = fin[1] == 'snapshot($STACK)' and fin[2].startswith('App:snapshot(')
                    err = isinstance(p.value, Obj) and isinstance(p.value.fields.get('error'), ExcVal)
                    ok = before and restored and err
                else:
                    ok = before and fin[1] == '$STACK' and fin[2].startswith('Obj:') and p.value.fields.get('error') is None
                exe = [e for e in ev if isinstance(e, tuple) and e[0] == 'step' and e[1] == 'execute']
                if exe:
                    a = exe[0][2]
                    ok = ok and vrepr(a[0]) == '$STACK' and isinstance(a[2], Obj)
            chk.ob('R-PATH', ex.qualname, ok, f'{label}: snapshots first, {"state restored and error recorded" if fail_at else "state kept"}', ex.loc, facts,
                   what=f'{label}: stack/context are not {"restored from the snapshots" if fail_at else "left as executed"}')
    # debug mode re-raises (configuration, excluded from the property) — but must not half-restore
    res = Interp(repo, ReplHooks('execute', MRE), max_depth=1).run_method(ex, lambda: make(debug=True))
    chk.ob('R-PATH', ex.qualname, len(res) == 1 and res[0].outcome == 'raise', 'debug mode re-raises the error', ex.loc,
           what='debug mode does not re-raise')
    # an exception class outside the handler would leave the mutated state: the mutating step only raises MichelsonRuntimeError
    et = repo.cls('pytezos.michelson.micheline.ErrorTrace')
    newm = et.methods.get('__new__')
    chk.require(newm is not None, 'ErrorTrace.__new__ not found')
    src = norm(newm.node)
    wraps_cm = 'classmethod' in src and 'staticmethod' in src and 'catch(' in src
    catch = repo.func('pytezos.michelson.micheline.catch')
    handlers = [h for n in ast.walk(catch.node) if isinstance(n, ast.Try) for h in n.handlers]
    raises = [n for h in handlers for n in ast.walk(h) if isinstance(n, ast.Raise) and n.exc is not None]
    conv = len(handlers) == 1 and dotted(handlers[0].type) == 'Exception' and len(raises) == 1 and \
        isinstance(raises[0].exc, ast.Call) and dotted(raises[0].exc.func) == 'MichelsonRuntimeError'
    chk.ob('R-EXC', 'pytezos.michelson.micheline.ErrorTrace', wraps_cm and conv, 'every public method of a Micheline class raises only MichelsonRuntimeError', et.loc,
           {'wraps_class_and_static_methods': wraps_cm, 'catch_converts_Exception': conv},
           what='the wrapper no longer converts every exception of an instruction into MichelsonRuntimeError: other classes escape the REPL handler after mutation')
    mt = repo.metaclass_of('pytezos.michelson.micheline.MichelineSequence')
    chk.ob('R-EXC', 'pytezos.michelson.micheline.MichelineSequence', mt == 'pytezos.michelson.micheline.ErrorTrace', 'code sequences are ErrorTrace classes',
           repo.cls('pytezos.michelson.micheline.MichelineSequence').loc, {'metaclass': mt}, what='MichelineSequence.execute is not wrapped')
    # handler classes
    tries = [n for n in ast.walk(ex.node) if isinstance(n, ast.Try)]
    chk.require(len(tries) == 1 and len(tries[0].handlers) == 1, 'execute: try/except shape changed')
    ht = tries[0].handlers[0].type
    names = sorted(dotted(e) for e in (ht.elts if isinstance(ht, ast.Tuple) else [ht]))
    chk.ob('R-EXC', ex.qualname, names == ['MichelsonParserError', 'MichelsonRuntimeError'], 'handler catches parser and runtime errors', ex.loc, {'catches': names},
           what='the REPL handler no longer catches both error classes')

    # ---- 2 snapshot isolation -------------------------------------------------------------------------------------------
    chk.set_clause('C22.2')
    dcalls = [c for c in ast.walk(ex.node) if isinstance(c, ast.Call) and dotted(c.func) in ('deepcopy', 'copy.deepcopy')]
    one_memo = len(dcalls) == 1 and isinstance(dcalls[0].args[0], (ast.Tuple, ast.List)) and \
        {norm(e) for e in dcalls[0].args[0].elts} >= {'self.stack', 'self.context'}
    if not one_memo and len(dcalls) >= 2:
        memos = {norm(c.args[1]) if len(c.args) > 1 else None for c in dcalls}
        one_memo = len(memos) == 1 and None not in memos  # an explicit shared memo dict is the other accepted idiom
    chk.ob('R-FLOW', ex.qualname, one_memo, 'stack and context are snapshotted under one memo', ex.loc, {'deepcopy_calls': [norm(c) for c in dcalls]},
           what='stack and context are deep-copied by separate calls: a big_map on the restored stack refers to a context object that is not the restored one '
                '(its temporary ids / registered big_maps / counters are those of the discarded run)')
    holders = []
    for q in repo.subclasses('pytezos.michelson.types.base.MichelsonType'):
        ci = repo.classes[q]
        for fi in ci.methods.values():
            for n in ast.walk(fi.node):
                if isinstance(n, (ast.Assign, ast.AnnAssign)):
                    for t in (n.targets if isinstance(n, ast.Assign) else [n.target]):
                        if isinstance(t, ast.Attribute) and t.attr == 'context' and isinstance(t.value, ast.Name) and t.value.id == 'self':
                            holders.append(q)
    holders = sorted(set(holders))
    chk.minimum('value classes holding a context reference', len(holders), 2)
    for q in holders:
        ci = repo.classes[q]
        dc = ci.methods.get('__deepcopy__')
        if dc is None:
            chk.ob('R-FLOW', q, True, '__deepcopy__ follows the memo (default)', ci.loc)
            continue
        memo = dc.params()[1] if len(dc.params()) > 1 else None
        uses_memo = any(isinstance(n, ast.Name) and n.id == memo for n in ast.walk(dc.node) if not isinstance(n, ast.arg))
        chk.ob('R-FLOW', q, uses_memo, '__deepcopy__ forwards its memo (the context reference follows the snapshot)', dc.loc,
               {'memo_parameter': memo, 'body': norm(dc.node)[:200]},
               what=f'{ci.name}.__deepcopy__ ignores the memo and keeps the live context by reference: a snapshot of the stack shares the context with the failing run')


    # ---- 3 snapshot completeness: a value class that copies itself by hand must carry every field its constructor sets --------------------
    chk.set_clause('C22.3')
    ncopy = 0
    for q in repo.subclasses('pytezos.michelson.types.base.MichelsonType'):
        ci = repo.classes[q]
        dc = ci.methods.get('__deepcopy__')
        if dc is None:
            continue
        # the function that builds the copy: __deepcopy__ itself or the single method it delegates to
        target = dc
        calls = [c for c in ast.walk(dc.node) if isinstance(c, ast.Call) and isinstance(c.func, ast.Attribute) and isinstance(c.func.value, ast.Name) and c.func.value.id == 'self']
        if len(calls) == 1 and calls[0].func.attr in ci.methods:
            target = ci.methods[calls[0].func.attr]
        init = repo.find_method(q, '__init__')
        if init is None:
            continue
        assigned = {t.attr for n in ast.walk(init.node) if isinstance(n, (ast.Assign, ast.AnnAssign))
                    for t in (n.targets if isinstance(n, ast.Assign) else [n.target])
                    if isinstance(t, ast.Attribute) and isinstance(t.value, ast.Name) and t.value.id == 'self'}
        if repo.is_subclass(q, 'pytezos.michelson.types.map.MapType'):
            assigned.add('items')  # set by the parent constructor
        fields = sorted(assigned)
        # fields read from self inside the copying function (as constructor arguments or assigned onto the result)
        carried = sorted({n.attr for n in ast.walk(target.node) if isinstance(n, ast.Attribute) and isinstance(n.ctx, ast.Load)
                          and isinstance(n.value, ast.Name) and n.value.id == 'self' and n.attr in fields})
        missing = [f for f in fields if f not in carried]
        ncopy += 1
        chk.ob('R-FLOW', target.qualname, not missing, f'the hand-written copy carries every field of the value ({", ".join(fields)})', target.loc,
               {'fields_set_by_constructor': fields, 'fields_copied': carried},
               what=f'{target.qualname} builds the copy without {missing}: the stack snapshot taken before a REPL cell (and DUP) loses that part of the value, '
                    f'so a failing cell changes what a later COMMIT / BIG_MAP_DIFF reports')
    chk.minimum('value classes with a hand-written copy', ncopy, 1)

    # ---- 4 the context snapshot is a deep one: the context class (and its repo bases) is copied by the generic deepcopy ---------------------
    # A hand-written __deepcopy__/__reduce__/__getstate__ on the context decides what the snapshot shares with the live context: unless
    # it deep-copies each attribute, registries mutated in place (big_maps, counters held in containers) survive the rollback.
    chk.set_clause('C22.4')
    CTXQ = 'pytezos.context.impl.ExecutionContext'
    hier = [q for q in repo.mro(CTXQ) if q in repo.classes]
    chk.require(CTXQ in repo.classes, 'ExecutionContext not found')
    for q in hier:
        ci = repo.classes[q]
        for special in ('__deepcopy__', '__reduce__', '__reduce_ex__', '__getstate__', '__setstate__'):  # what copy.deepcopy consults (__copy__ is not)
            m = ci.methods.get(special)
            if m is None:
                continue
            # acceptable only if everything it puts into the copy goes through deepcopy
            calls = [dotted(c.func) or '' for c in ast.walk(m.node) if isinstance(c, ast.Call)]
            deep_only = any(c.endswith('deepcopy') for c in calls) and not any(c.endswith(('.update', 'copy.copy', '.copy')) or c in ('dict', 'copy') for c in calls)
            chk.ob('R-FLOW', m.qualname, deep_only, f'{special} of the context deep-copies what it carries over', m.loc, {'calls': calls[:8]},
                   what=f'{m.qualname} builds the snapshot of the execution context by hand and shares mutable state with the live context (calls: {calls[:5]}): '
                        'what a failing cell registers (big_map pointers, ...) survives the rollback')
    chk.ob('R-FLOW', CTXQ, True, 'context snapshot: copy protocol of the context class hierarchy examined', repo.classes[CTXQ].loc, {'classes': hier})

    # ---- 5 COMMIT validates before it mutates: the stack's big_maps keep the context they were created in (known finding above), so every check
    #        COMMIT can fail on has to come BEFORE the first call that draws identifiers from that context (aggregate_lazy_diff)
    chk.set_clause('C22.5')
    CI = 'pytezos.michelson.instructions.jupyter.CommitInstruction'
    ce0 = repo.find_method(CI, 'execute')
    chk.require(ce0 is not None, 'CommitInstruction.execute not found')
    # ... and the END step of a RUN cell (MichelsonProgram.end) draws identifiers the same way
    pe = repo.find_method('pytezos.michelson.program.MichelsonProgram', 'end')
    chk.require(pe is not None, 'MichelsonProgram.end not found')
    for ce in (ce0, pe):
      g = CFG(ce.node)
      muts = g.nodes_where(lambda n: any(isinstance(c.func, ast.Attribute) and c.func.attr == 'aggregate_lazy_diff' for e in node_exprs(n) for c in calls_in(e)))
      chk.require(bool(muts), f'{ce.qualname}: aggregate_lazy_diff call not found')

      def is_check(n):
          a = n.ast
          if isinstance(a, (ast.Raise, ast.Assert)):
              return True
          return any(isinstance(c.func, ast.Attribute) and c.func.attr in ('assert_type_equal', 'assert_type_in') for e in node_exprs(n) for c in calls_in(e))

      checks = g.nodes_where(is_check)
      late = []
      for m_ in muts:
          for c_ in checks:
              if c_ is not m_ and g.paths_avoiding(m_, c_, set()) is not None:
                  late.append((c_.line, norm(c_.ast)[:70]))
      chk.ob('R-PATH', ce.qualname, not late, f'no validation of {ce.cls.name}.{ce.name} is reachable after aggregate_lazy_diff has drawn identifiers', ce.loc,
             {'checks': len(checks), 'after_the_mutation': sorted(set(late))[:3]},
             what=f'{ce.cls.name}.{ce.name} can still fail at {sorted(set(late))[:2]} after aggregate_lazy_diff advanced the identifier counters of the context the big_maps point to: '
                  'the failed cell is rolled back but its identifiers are spent (later COMMITs report other ids)')
