"""C07 Signing and verification are correct for every key kind (structural clauses).

 1 R-DISPATCH curve exhaustiveness: from_secret_exponent, from_mnemonic, sign, verify, public_key_hash handle exactly
   {ed, sp, p2, BL}; from_encoded_key accepts exactly those prefixes
 2 R-PAIR the digest applied to the message in sign and in verify is the same per curve: Blake2b-256 for ed/sp/p2, identity for BL
 3 (prefix, length) obligations: the signature produced on every path of Key.sign (4 curves x generic/specific) with the prefix
   chosen is a row of the base58 table
 4 R-EXC verify only ever raises ValueError (explicit raises + curated third-party exceptions); CHECK_SIGNATURE pushes False on
   ValueError and True otherwise
"""
from __future__ import annotations

import ast

from typing import Any, Dict, List

from ..absint import App, ClassRef, FuncRef, Hooks, Interp, Obj, Sym, vrepr
from ..keymodel import CURVES, EXT, KEY, KeyHooks, key_obj, term_len
from ..model import AnalysisError, Repo, norm
from ..report import Check
from .c09 import table


def digest_descriptor(it_repo: Repo, events: List[Any], curve: bytes, msg_name: str) -> str:
    """How the (normalised) message reaches the signature primitive.  msg_name is the rendering of the message term looked for."""
    for e in events:
        if not (isinstance(e, tuple) and e[0] == 'ext'):
            continue
        name, args, kwargs = e[1], e[2], e[3]
        vals = list(args) + list(kwargs.values())
        if name == 'pysodium.crypto_generichash' and any(vrepr(a) == msg_name for a in vals):
            if len(vals) == 1:
                return 'blake2b-256'
            return f'generichash{[vrepr(v) for v in vals[1:]]}'
    for e in events:
        if not (isinstance(e, tuple) and e[0] == 'ext'):
            continue
        name, args, kwargs = e[1], e[2], e[3]
        vals = list(args) + list(kwargs.values())
        if not any(vrepr(a) == msg_name for a in vals):
            continue
        h = kwargs.get('hasher', kwargs.get('hashfunc'))
        if h is None:
            if 'G2MessageAugmentation' in name:
                return 'identity'
            return f'no-hasher:{name}'
        if isinstance(h, FuncRef) and h.fi is not None and h.fi.qualname in EXT['digest']:
            return EXT['digest'][h.fi.qualname].split(' ')[0]
        if isinstance(h, FuncRef):
            # a lambda or a named repository function: what it computes decides, not how it is spelled
            it = Interp(it_repo, KeyHooks(it_repo), max_depth=3)
            r = it.run_paths(lambda i: i.call_function(h, [Sym('x', 'bytes')], {}, None, force_inline=True))
            v = r[0].value
            if isinstance(v, App) and v.op == 'mcall:digest' and isinstance(v.args[0], App) and v.args[0].op == 'blake2b' \
                    and vrepr(v.args[0].args[0]) == '$x' and v.args[0].args[-1] == 32:
                return 'blake2b-256'
            return (h.fi.qualname if h.fi is not None else 'lambda') + ':' + vrepr(v)
    return 'message-not-used'


def run(repo: Repo, chk: Check) -> None:
    chk.explanation = (
        'Key.sign / Key.verify and the constructors are interpreted per curve with third-party crypto calls opaque (curated result '
        'lengths and exceptions).  Decides curve exhaustiveness, agreement of the message digest between sign and verify, that every '
        'signature produced has a base58 row for the prefix chosen, and the exception discipline of verify / CHECK_SIGNATURE.  '
        'Cryptographic validity is library behaviour and not decided.'
    )
    rows = table(repo)
    rowset = {(r[0], r[3]) for r in rows}
    sign, verify = repo.func(f'{KEY}.sign'), repo.func(f'{KEY}.verify')

    # ---- 1 exhaustiveness --------------------------------------------------------------------------------------------
    chk.set_clause('C07.1')
    for curve in CURVES + [b'zz']:
        for fname in ('sign', 'verify', 'public_key_hash'):
            fi = repo.func(f'{KEY}.{fname}')
            hooks = KeyHooks(repo)
            it = Interp(repo, hooks, max_depth=2)

            def make(curve=curve, fname=fname):
                o = key_obj(curve if curve in CURVES else b'ed')
                o.fields['curve'] = curve
                if fname == 'sign':
                    return o, [Sym('message', 'bytes')], {}
                if fname == 'verify':
                    return o, [Sym('signature', 'bytes'), Sym('message', 'bytes')], {}
                return o, [], {}

            res = it.run_method(fi, make)
            unsupported = [p for p in res if p.outcome == 'raise' and p.value.cls in ('ValueError', 'KeyError')
                           and any('unsupported' in str(a) or True for a in p.value.args)]
            handled = any(p.outcome == 'return' for p in res)
            if curve in CURVES:
                chk.ob('R-DISPATCH', fi.qualname, handled, f'curve {curve.decode()} handled', fi.loc,
                       {'outcomes': sorted({(p.outcome, p.value.cls if p.outcome == 'raise' else 'ok') for p in res})},
                       what=f'{fname} has no branch for curve {curve.decode()}')
            else:
                chk.ob('R-DISPATCH', fi.qualname, not handled and bool(res), 'unknown curve rejected', fi.loc,
                       what=f'{fname} accepts an unknown curve')
        for fname, argmaker in (('from_secret_exponent', lambda c: ([Sym('secret_exponent', 'bytes', length=32)], {'curve': c})),
                                ('from_mnemonic', lambda c: ([Sym('mnemonic', 'str')], {'curve': c, 'validate': False}))):
            fi = repo.func(f'{KEY}.{fname}')
            a, kw = argmaker(curve)
            it = Interp(repo, KeyHooks(repo, opaque_methods={'from_secret_exponent'} if fname == 'from_mnemonic' else ()), max_depth=2)
            res = it.run_function(fi, a, kw, self_val=ClassRef(KEY))
            handled = any(p.outcome == 'return' for p in res)
            if curve in CURVES:
                chk.ob('R-DISPATCH', fi.qualname, handled, f'curve {curve.decode()} handled', fi.loc, what=f'{fname} has no branch for {curve.decode()}')
            else:
                chk.ob('R-DISPATCH', fi.qualname, not handled and bool(res), 'unknown curve rejected', fi.loc, what=f'{fname} accepts an unknown curve')

    # ---- 2 digest agreement ------------------------------------------------------------------------------------------
    # ---- 1b the public key of a secret key is what the curve's library derives from that secret (a signature can only verify under it) -------
    chk.set_clause('C07.1')
    fse = repo.func(f'{KEY}.from_secret_exponent')

    def ext_names(t, out):
        if isinstance(t, App):
            if t.op == 'ext':
                out.append(t.args[0])
            for a in t.args:
                ext_names(a, out)
        return out

    def mentions_secret(t) -> bool:
        if isinstance(t, Sym):
            return t.name == 'secret_exponent'
        return isinstance(t, App) and any(mentions_secret(a) for a in t.args)

    nder = 0
    for curve, nbytes, form in ((b'ed', 32, 'ed/seed'), (b'ed', 64, 'ed/sk64'), (b'sp', 32, 'sp'), (b'p2', 32, 'p2'), (b'BL', 32, 'BL')):
        h = KeyHooks(repo)
        h.known_lengths = True  # len() of a symbol of declared length is that length: the Ed25519 branch is chosen on it
        res = Interp(repo, h, max_depth=2).run_function(fse, [Sym('secret_exponent', 'bytes', length=nbytes)], {'curve': curve}, self_val=ClassRef(KEY))
        rets = [p for p in res if p.outcome == 'return' and isinstance(p.value, Obj)]
        want = EXT['public_key_derivation'][form]
        pps = [p.value.fields.get('public_point') for p in rets]
        ok = bool(pps) and all(ext_names(pp, [])[:len(want)] == want and mentions_secret(pp) for pp in pps)
        nder += 1
        chk.ob('R-FLOW', fse.qualname, ok, f'{form} ({nbytes}-byte secret): public point = {" of ".join(want)}(secret)', fse.loc,
               {'public_point': [vrepr(pp)[:200] for pp in pps]},
               what=f'{form}: the public key of a {nbytes}-byte secret is computed as {[vrepr(pp)[:120] for pp in pps]}, not by {" of ".join(want)} applied to the '
                    'secret: signatures made with the secret do not verify under that public key')
    chk.minimum('public key derivations', nder, 5)

    chk.set_clause('C07.2')
    ref_digest = {b'ed': 'blake2b-256', b'sp': 'blake2b-256', b'p2': 'blake2b-256', b'BL': 'identity'}
    for curve in CURVES:
        # the message reaching the primitive must be the normalised one (scrub_input: str / hex / bytes), never the caller's raw argument
        hs = KeyHooks(repo)
        hs.scrub_marks = True
        rs = Interp(repo, hs, max_depth=2).run_method(sign, lambda c=curve: (key_obj(c), [Sym('message', 'bytes')], {}))
        ds = {digest_descriptor(repo, p.events, curve, 'scrub($message)') for p in rs if p.outcome == 'return'}
        hv = KeyHooks(repo)
        hv.scrub_marks = True
        rv = Interp(repo, hv, max_depth=2).run_method(
            verify, lambda c=curve: (key_obj(c), [Sym('signature', 'bytes'), Sym('message', 'bytes')], {}))
        dv = {digest_descriptor(repo, p.events, curve, 'scrub($message)') for p in rv if p.outcome == 'return'}
        raw = sorted({e[1] for p in list(rs) + list(rv) for e in p.events if isinstance(e, tuple) and e[0] == 'ext'
                      and any(vrepr(a) == '$message' for a in list(e[2]) + list(e[3].values()))})
        chk.ob('R-FLOW', f'{KEY}.sign', not raw, f'{curve.decode()}: no primitive receives the un-normalised message argument', sign.loc, {'calls': raw},
               what=f'{curve.decode()}: {raw} receive the caller\'s raw `message` instead of the scrub_input result: a str / hex message is signed or verified as different bytes')
        chk.ob('R-PAIR', f'{KEY}.sign', ds == {ref_digest[curve]}, f'{curve.decode()}: message digest for signing', sign.loc,
               {'found': sorted(ds), 'reference': ref_digest[curve]}, what=f'{curve.decode()} signs {sorted(ds)} of the message, Tezos signs {ref_digest[curve]}')
        chk.ob('R-PAIR', f'{KEY}.verify', dv == ds and bool(dv), f'{curve.decode()}: verify uses the digest sign uses', verify.loc,
               {'sign': sorted(ds), 'verify': sorted(dv)}, what=f'{curve.decode()}: sign hashes with {sorted(ds)} but verify with {sorted(dv)}')

    # the normaliser reads a text message as the bytes it spells in hexadecimal, in EITHER letter case (bytes.fromhex accepts both): a character
    # whitelist in front of the parser must contain every hexadecimal digit
    sc = repo.func('pytezos.crypto.encoding.scrub_input')
    import string as _string
    narrow = []
    for f2 in repo.with_fresh_callees(sc):
        lowered = any(isinstance(c, ast.Call) and isinstance(c.func, ast.Attribute) and c.func.attr in ('lower', 'upper', 'casefold') for c in ast.walk(f2.node))
        for n in ast.walk(f2.node):
            if isinstance(n, ast.Compare) and len(n.ops) == 1 and isinstance(n.ops[0], (ast.In, ast.NotIn)):
                try:
                    alphabet = repo.fold(n.comparators[0], f2.module)
                except Exception:
                    continue
                if isinstance(alphabet, (str, bytes, frozenset, set, list, tuple)) and len(alphabet) >= 10:
                    chars = {chr(c) if isinstance(c, int) else c for c in alphabet}
                    if set('0123456789') <= chars and not (set(_string.hexdigits) <= chars) and not lowered:
                        narrow.append(f'{f2.module.relpath}:{n.lineno} `{norm(n)[:60]}`')
    chk.ob('R-GUARD', sc.qualname, not narrow, 'no character whitelist narrower than the hexadecimal digits of both cases guards the hex reading', sc.loc, {'narrow_tests': narrow},
           what=f'scrub_input tests the characters of a text message with {narrow[:1]}: hexadecimal text written with the missing digits (upper-case A-F) is signed / verified as its '
                'ASCII characters instead of the bytes it spells')

    # ---- 3 (prefix, length) ---------------------------------------------------------------------------------------------
    chk.set_clause('C07.3')
    for curve in CURVES:
        for generic in (False, True):
            rs = Interp(repo, KeyHooks(repo), max_depth=2).run_method(
                sign, lambda c=curve, g=generic: (key_obj(c), [Sym('message', 'bytes')], {'generic': g}))
            encs = [e for p in rs for e in p.events if isinstance(e, tuple) and e[0] == 'encode']
            want_len = EXT['signature_length_by_curve'][curve.decode()]
            ok = bool(encs) and all(e[1] == want_len and (e[2], e[1]) in rowset for e in encs) and all(p.outcome == 'return' for p in rs)
            lens = sorted({str(e[1]) for e in encs})
            if ok and generic:
                ok = all(e[2] in (b'sig', curve + b'sig') for e in encs)
            if ok and not generic:
                ok = all(e[2] == curve + b'sig' for e in encs)
            chk.ob('R-TABLE', f'{KEY}.sign', ok, f'curve={curve.decode()} generic={generic}: signature has a base58 row', sign.loc,
                   {'encodes': [(e[1], e[2].decode() if isinstance(e[2], bytes) else vrepr(e[2])) for e in encs]},
                   what=f'signing with a {curve.decode()} key (generic={generic}) encodes a {encs[0][1] if encs else "?"}-byte signature with prefix '
                        f'{encs[0][2] if encs else "?"}, which has no base58 row: sign() raises for every such key')

    # ---- 4 exception discipline ---------------------------------------------------------------------------------------
    chk.set_clause('C07.4')
    for curve in CURVES:
        rv = Interp(repo, KeyHooks(repo, raise_external=True), max_depth=2, max_paths=4000).run_method(
            verify, lambda c=curve: (key_obj(c), [Sym('signature', 'bytes'), Sym('message', 'bytes')], {}))
        raised = sorted({p.value.cls for p in rv if p.outcome == 'raise'})
        bad = [c for c in raised if c != 'ValueError']
        chk.ob('R-EXC', f'{KEY}.verify', not bad and any(p.outcome == 'return' and p.value is True for p in rv),
               f'{curve.decode()}: only ValueError escapes', verify.loc, {'raised': raised, 'paths': len(rv)},
               what=f'verify on a {curve.decode()} key can raise {bad} (not a ValueError): CHECK_SIGNATURE fails instead of returning False, '
                    'e.g. a P256 signature whose r is 0 or above the curve order')
    cs = repo.func('pytezos.michelson.instructions.crypto.CheckSignatureInstruction.execute')
    res = Interp(repo, _CheckSigHooks(), max_depth=1).run_function(cs, [Sym('stack'), [], Sym('context')],
                                                                   self_val=ClassRef('pytezos.michelson.instructions.crypto.CheckSignatureInstruction'))
    verdicts = {}
    for p in res:
        pushed = [e for e in p.events if isinstance(e, tuple) and e[0] == 'push']
        outcome = [e for e in p.events if isinstance(e, tuple) and e[0] == 'verify']
        if outcome and pushed:
            verdicts[outcome[0][1]] = vrepr(pushed[0][1])
    ok = verdicts.get('ok', '').endswith('True)') or 'True' in verdicts.get('ok', '')
    ok = ok and 'False' in verdicts.get('ValueError', '') and all(p.outcome == 'return' for p in res if any(
        isinstance(e, tuple) and e[0] == 'verify' and e[1] in ('ok', 'ValueError') for e in p.events))
    chk.ob('R-EXC', cs.qualname, ok, 'False on ValueError, True otherwise', cs.loc, {'verdicts': verdicts},
           what='CHECK_SIGNATURE does not map a verification failure to False and success to True')

    # ---- memory across calls (shared rule, sa/statelint.py) ----------------------------------------------------------------------------------
    chk.set_clause('C07.M')
    from ..statelint import check_memory
    check_memory(repo, chk, ['pytezos.crypto.key.'],
                 'a digest or key object shared between calls is updated in place by the signature libraries: later signatures and verifications are made over another digest')


class _CheckSigHooks(Hooks):
    def inline(self, it, fi):
        return fi.name == 'execute'

    def call(self, it, callee, args, kwargs, node):
        from ..absint import ExcVal, Raised
        if isinstance(callee, App) and callee.op == 'attr':
            recv, name = callee.args
            if name == 'pop3':
                return (Sym('pk'), Sym('sig'), Sym('msg'))
            if name == 'push':
                it.event('push', args[0])
                return None
            if name == 'verify':
                if it.choose(2) == 0:
                    it.event('verify', 'ok')
                    return True
                it.event('verify', 'ValueError')
                raise Raised(ExcVal('ValueError', ('Signature is invalid.',)))
            if name in ('assert_type_equal', 'append'):
                return None
        if isinstance(callee, FuncRef) and callee.fi is not None and callee.fi.name in ('from_encoded_key', 'format_stdout'):
            return Sym('key') if callee.fi.name == 'from_encoded_key' else 'stdout'
        if isinstance(callee, ClassRef) and callee.qual.endswith('BoolType'):
            return App('BoolType', *args)
        if isinstance(callee, ClassRef) and callee.qual.endswith('CheckSignatureInstruction'):
            return Sym('instr')
        return NotImplemented


def controls(chk: Check) -> None:
    if term_len(App('cat', App('mcall:to_bytes', Sym('r'), 32, 'big'), App('mcall:to_bytes', Sym('s'), 32, 'big'))) != 64:
        raise AnalysisError('term length control failed')
