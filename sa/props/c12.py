"""C12 Python-object conversion of contract data round-trips.

 1 get_type_layout: on every flat-argument list shape (named, unnamed, duplicate names, annotated names that collide with generated
   names in either order, type-name fallback) the field names are pairwise distinct, key_to_path is the inverse of path_to_key and
   idx_to_path enumerates the paths in order; the layout is a function of the type alone (no reads outside its arguments).
 2 PairType / OrType / OptionType: from_python_object(to_python_object(v)) rebuilds v for every value position of a set of abstract
   type trees, in the normal and in the comparable (map key / set element) rendering.  Leaf payloads are opaque.
 3 ContractData.decode(ContractData.encode(o)) == o composed symbolically through the three Micheline modes; encode and decode name the
   same type and pass lazy_diff=None.
 4 ContractEntrypoint.encode / decode: for every listed entrypoint the encoded (entrypoint, value) decodes to an object that re-encodes
   to the same parameters.
"""
from __future__ import annotations

import ast
from typing import Any, Dict, List, Tuple

from ..absint import App, ClassRef, FuncRef, Interp, Obj, Sym, vkey, vrepr
from ..model import AnalysisError, Repo
from ..report import Check
from ..typemodel import COMPOSITE, PARAM, TCls, TypeTreeHooks, t
from .c13 import leaf_paths as or_leaf_paths, ref_entrypoints, trees as param_trees, wrap

ADT = 'pytezos.michelson.types.adt'


def N(**k): return t('nat', **k)
def S(**k): return t('string', **k)
def B(**k): return t('bytes', **k)
def U(**k): return t('unit', **k)


def layouts() -> Dict[str, List[Tuple[str, TCls]]]:
    return {
        'unnamed': [('0', N()), ('1', S())],
        'named': [('0', N(f='a')), ('1', S(f='b'))],
        'mixed': [('0', N(f='a')), ('1', S())],
        'duplicate names': [('0', N(f='a')), ('1', S(f='a'))],
        'triple duplicate': [('0', N(f='a')), ('10', N(f='a')), ('11', N(f='a'))],
        'type names': [('0', N(n='a')), ('1', S(n='b'))],
        'field over type name': [('0', N(f='x', n='a')), ('1', S(n='x'))],
        'annotated name equals a later generated name': [('0', N(f='nat_1')), ('1', N())],
        'annotated name equals an earlier generated name': [('0', N()), ('1', N(f='nat_0'))],
        'duplicate whose generated name is taken': [('0', N(f='a')), ('10', N(f='nat_2')), ('11', N(f='a'))],
    }


def value_trees() -> Dict[str, TCls]:
    return {
        'pair nat string': t('pair', N(), S()),
        'pair (nat %a) (string %b)': t('pair', N(f='a'), S(f='b')),
        'pair (nat %a) string': t('pair', N(f='a'), S()),
        'pair (nat %a) (string %a)': t('pair', N(f='a'), S(f='a')),
        'pair nat string bytes': t('pair', N(), S(), B()),
        'pair (nat %a) (string %b) (bytes %c) (nat %d)': t('pair', N(f='a'), S(f='b'), B(f='c'), N(f='d')),
        'pair (pair nat string) bytes': t('pair', t('pair', N(), S()), B()),
        'pair (pair %x nat string) (bytes %y)': t('pair', t('pair', N(), S(), f='x'), B(f='y')),
        'pair (pair :x (nat %a) (string %b)) (bytes %y)': t('pair', t('pair', N(f='a'), S(f='b'), n='x'), B(f='y')),
        'pair (nat %nat_1) nat': t('pair', N(f='nat_1'), N()),
        'pair nat (nat %nat_0)': t('pair', N(), N(f='nat_0')),
        'or (nat %a) (string %b)': t('or', N(f='a'), S(f='b')),
        'or nat string': t('or', N(), S()),
        'or (nat %a) (or (string %b) bytes)': t('or', N(f='a'), t('or', S(f='b'), B())),
        'or (or %inner (nat %x) (string %y)) (bytes %z)': t('or', t('or', N(f='x'), S(f='y'), f='inner'), B(f='z')),
        'or (unit %on) (unit %off)': t('or', U(f='on'), U(f='off')),
        'or (unit %a) (or (unit %b) (unit %c))': t('or', U(f='a'), t('or', U(f='b'), U(f='c'))),
        'or (nat %nat_1) nat': t('or', N(f='nat_1'), N()),
        'pair (or %action (nat %inc) (unit %reset)) (string %memo)': t('pair', t('or', N(f='inc'), U(f='reset'), f='action'), S(f='memo')),
        'or (pair %p (nat %a) (string %b)) (nat %q)': t('or', t('pair', N(f='a'), S(f='b'), f='p'), N(f='q')),
        'option (pair (nat %a) (string %b))': t('option', t('pair', N(f='a'), S(f='b'))),
        'pair (option %o nat) (string %s)': t('pair', t('option', N(), f='o'), S(f='s')),
    }


def gen_trees(max_leaves: int = 3) -> Dict[str, TCls]:
    """Thorough tier: every pair/or tree with up to max_leaves leaves, every leaf named from {-, a, b, nat_1} (duplicates and collisions with
    generated names included) and every inner node plain or annotated."""
    import itertools
    out: Dict[str, TCls] = {}

    def shapes(n: int):
        if n == 1:
            yield None
            return
        for k in range(1, n):
            for l in shapes(k):
                for r in shapes(n - k):
                    yield (l, r)

    def count_inner(x):
        return 0 if x is None else 1 + count_inner(x[0]) + count_inner(x[1])

    for n in range(2, max_leaves + 1):
        for sh in shapes(n):
            ni = count_inner(sh)
            for kinds in itertools.product(['pair', 'or'], repeat=ni):
                for names in itertools.product([None, 'a', 'b', 'nat_1'], repeat=n):
                    for inner in itertools.product([None, 'x'], repeat=ni - 1):
                        ki, li, ii = iter(kinds), iter(names), iter(inner)

                        def build(x, root=False):
                            if x is None:
                                return TCls('nat', [], next(li))
                            kind = next(ki)
                            ann = None if root else next(ii)
                            l = build(x[0])
                            r = build(x[1])
                            return TCls(kind, [l, r], ann)

                        tree = build(sh, root=True)
                        out[repr(tree)] = tree
    return out


def exprs(tc: TCls, tag: str = 'v') -> List[Tuple[str, Any]]:
    """(description, Micheline value expression) for every value position of the type; leaves are opaque symbols."""
    if tc.prim == 'pair':
        out = []
        ls, rs = exprs(tc.args[0], tag + '0'), exprs(tc.args[1], tag + '1')
        # vary one side at a time (the traversals treat the sides independently)
        for d, e in ls:
            out.append((d + rs[0][0], {'prim': 'Pair', 'args': [e, rs[0][1]]}))
        for d, e in rs[1:]:
            out.append((ls[0][0] + d, {'prim': 'Pair', 'args': [ls[0][1], e]}))
        return out
    if tc.prim == 'or':
        return [('L' + d, {'prim': 'Left', 'args': [e]}) for d, e in exprs(tc.args[0], tag + '0')] + \
               [('R' + d, {'prim': 'Right', 'args': [e]}) for d, e in exprs(tc.args[1], tag + '1')]
    if tc.prim == 'option':
        return [('S' + d, {'prim': 'Some', 'args': [e]}) for d, e in exprs(tc.args[0], tag + '0')] + [('N', {'prim': 'None'})]
    return [('.', Sym(tag))]


def shape(v: Any) -> Any:
    """Structure of a value down to its leaf payloads (unit leaves carry no information)."""
    if isinstance(v, Obj) and '_p' in v.fields:
        return shape(v.fields['item'])
    if isinstance(v, Obj) and '_t' in v.fields:
        tc = v.fields['_t']
        if tc.prim in ('pair', 'or'):
            return (tc.prim,) + tuple(shape(x) for x in v.fields['items'])
        if tc.prim == 'option':
            return ('option', shape(v.fields['item']))
        if tc.prim == 'unit':
            return ('unit',)
        return ('leaf', tc.prim, vrepr(v.fields.get('value')))
    if isinstance(v, Obj) and v.cls.endswith('.undefined'):
        return ('undefined',)
    if v is None:
        return None
    return ('raw', vrepr(v))


def hashable(o: Any) -> bool:
    if isinstance(o, (dict, list, set)):
        return False
    if isinstance(o, tuple):
        return all(hashable(x) for x in o)
    return True


def outcome(res) -> list:
    return [(p.outcome, vrepr(p.value)[:160]) for p in res][:3]


def run(repo: Repo, chk: Check) -> None:
    chk.explanation = (
        'The Python-object layer (get_type_layout, wrap_pair/wrap_or, PairType/OrType/OptionType conversions, ContractData and '
        'ContractEntrypoint helpers) is interpreted on abstract type trees with opaque leaf payloads; names are checked for uniqueness and '
        'the conversions are composed symbolically and compared structurally.  Leaf conversions are C11\'s subject; collections and '
        'big_map literals are treated as leaves.'
    )

    def mk():
        it = Interp(repo, TypeTreeHooks(repo), max_depth=40)
        it.max_recursion = 12
        return it

    # ---- 1 field names ----------------------------------------------------------------------------------------------------
    chk.set_clause('C12.1')
    gl = repo.func(f'{ADT}.get_type_layout')
    nl = 0
    for name, flat in layouts().items():
        for infer in (False, True):
            nl += 1
            res = mk().run_paths(lambda i: i.call_function(FuncRef(gl, module=gl.module), [list(flat)], {'infer_names': infer}, None, force_inline=True))
            ok = len(res) == 1 and res[0].outcome == 'return'
            detail = f'{name} (infer_names={infer}): field names distinct, key_to_path inverse, idx_to_path ordered'
            facts: Dict[str, Any] = {}
            if ok:
                p2k, k2p, i2p = res[0].value
                facts = {'path_to_key': vrepr(p2k), 'key_to_path': vrepr(k2p)}
                paths = [p for p, _ in flat]
                ok = isinstance(i2p, dict) and [i2p.get(i) for i in range(len(paths))] == paths
                if p2k is not None:
                    ok = ok and isinstance(p2k, dict) and list(p2k) == paths and len(set(p2k.values())) == len(paths) \
                        and isinstance(k2p, dict) and {v: k for k, v in p2k.items()} == k2p
                    # annotated names are kept (first occurrence)
                    seen = set()
                    for p, a in flat:
                        nm = a.field_name or a.type_name
                        if nm and nm not in seen:
                            seen.add(nm)
                            ok = ok and p2k.get(p) == nm
                else:
                    ok = ok and k2p is None and not infer and not any(a.field_name or a.type_name for _, a in flat)
            else:
                facts = {'outcome': outcome(res)}
            chk.ob('R-TABLE', gl.qualname, ok, detail, gl.loc, facts,
                   what=f'get_type_layout on {name}: field names are not unique / not invertible: {facts}')
    chk.minimum('layout shapes', nl, 20)
    # the layout depends on the type alone: no global or attribute state is read or written
    body_nodes = [n for st in gl.node.body for n in ast.walk(st)]
    ann = {id(x) for n in body_nodes if isinstance(n, ast.AnnAssign) for x in ast.walk(n.annotation)}
    reads = {n.id for n in body_nodes if isinstance(n, ast.Name) and isinstance(n.ctx, ast.Load) and id(n) not in ann}
    local = {a.arg for a in gl.node.args.args} | {n.id for n in body_nodes if isinstance(n, ast.Name) and isinstance(n.ctx, ast.Store)}
    free = sorted(reads - local - {'set', 'enumerate', 'dict', 'len', 'isinstance', 'str', 'range', 'list', 'tuple', 'sorted'})
    chk.ob('R-FLOW', gl.qualname, not free and not any(isinstance(n, (ast.Global, ast.Nonlocal)) for n in ast.walk(gl.node)),
           'layout is a function of the flat argument list (stable names)', gl.loc, {'free_names': free},
           what=f'get_type_layout reads names outside its arguments: {free}')

    # ---- 2 value round trips ------------------------------------------------------------------------------------------------
    chk.set_clause('C12.2')
    nv = 0
    forest = dict(value_trees())
    if chk.tier == 'thorough':
        forest.update(gen_trees(3))
    for name, root in forest.items():
        for d, e in exprs(root):
            for comparable in (False, True):
                nv += 1

                def trip(i, e=e, comparable=comparable):
                    fm = i.getattr(root, 'from_micheline_value', None)
                    v1 = i.call(fm, [e], {}, None)
                    o = i.call(i.getattr(v1, 'to_python_object', None), [], {'comparable': True} if comparable else {}, None)
                    i.event('pyobj', o)
                    v2 = i.call(i.getattr(root, 'from_python_object', None), [o], {}, None)
                    return shape(v1), shape(v2), hashable(o)

                res = mk().run_paths(trip)
                ok = len(res) == 1 and res[0].outcome == 'return' and res[0].value[0] == res[0].value[1]
                if comparable:
                    hk = len(res) == 1 and res[0].outcome == 'return' and res[0].value[2]
                    chk.ob('R-CONSTRUCT', f'{root.prim} conversions', hk, f'{name}: comparable rendering of value {d} is hashable (usable as a dict key)', None,
                           {'outcome': outcome(res)}, what=f'type {name}: the comparable python object at {d} contains a dict or list and cannot be a map key: {outcome(res)}')
                objs = [vrepr(ev[1])[:160] for p in res for ev in p.events if isinstance(ev, tuple) and ev[0] == 'pyobj']
                chk.ob('R-PAIR', f'{root.prim} conversions', ok,
                       f'{name}: value {d} {"as comparable key" if comparable else ""} -> python object -> value', None,
                       {'python_object': objs, 'outcome': outcome(res) if not ok else 'equal'},
                       what=f'type {name}, value position {d}{" (comparable rendering)" if comparable else ""}: python object {objs[:1]} does not convert back to the value: {outcome(res)}')
    chk.minimum("value positions x renderings", nv, 70)

    # ---- 3 ContractData.encode / decode -----------------------------------------------------------------------------------------
    chk.set_clause('C12.3')
    CD = 'pytezos.contract.data.ContractData'
    enc, dec = repo.func(f'{CD}.encode'), repo.func(f'{CD}.decode')
    nd = 0
    for name, root in value_trees().items():
        for d, e in exprs(root):
            for mode, explicit in (('readable', True), ('optimized', True), ('legacy_optimized', True), ('optimized', False)):
                nd += 1

                def trip(i, e=e, mode=mode, explicit=explicit):
                    v0 = i.call(i.getattr(root, 'from_micheline_value', None), [e], {}, None)
                    o = i.call(i.getattr(v0, 'to_python_object', None), [], {}, None)
                    i.event('start', 0)
                    # an explicit mode wins over the context's; without one the context's mode is used
                    ctx_mode = ('readable' if mode != 'readable' else 'optimized') if explicit else mode
                    me = Obj(CD, {'data': v0, 'context': Obj('pytezos.context.impl.ExecutionContext', {'mode': ctx_mode})})
                    m = i.call_function(FuncRef(enc, me, True), [o], {'mode': mode} if explicit else {}, None, force_inline=True)
                    o2 = i.call_function(FuncRef(dec, me, True), [m], {}, None, force_inline=True)
                    return vrepr(o), vrepr(o2)

                res = mk().run_paths(trip)
                ok = len(res) == 1 and res[0].outcome == 'return' and res[0].value[0] == res[0].value[1]
                chk.ob('R-PAIR', dec.qualname, ok, f'{name}: decode(encode(o, {mode if explicit else "context mode " + mode})) == o at {d}', dec.loc, {'outcome': outcome(res)},
                       what=f'ContractData of type {name}: decode(encode(o, mode={mode})) differs from o or fails at value position {d}: {outcome(res)}')
                # every leaf is rendered in the requested mode with lazy_diff=None (big_map literals stay literals, pointers stay pointers)
                renders = []
                for p in res:
                    evs = [ev for ev in p.events if isinstance(ev, tuple)]
                    k = max((j for j, ev in enumerate(evs) if ev[0] == 'start'), default=-1)
                    renders += [ev for ev in evs[k + 1:] if ev[0] == 'leaf-render']
                bad = [ev for ev in renders if ev[3] is not None or (ev[1] == 'to_micheline_value' and ev[4] != mode)]
                chk.ob('R-FLOW', enc.qualname, (bool(renders) or d == 'N') and not bad, f'{name}: leaves rendered with lazy_diff=None and {"" if explicit else "context "}mode {mode} at {d}', enc.loc,
                       {'renders': [vrepr(list(ev[1:])) for ev in renders][:6]},
                       what=f'ContractData.encode/decode of {name}: a leaf is rendered with lazy_diff/mode {[vrepr(list(ev[1:])) for ev in bad][:2]} instead of lazy_diff=None, mode={mode}')
    chk.minimum("ContractData compositions", nd, 100)

    # ---- 4 ContractEntrypoint.encode / decode -------------------------------------------------------------------------------------
    chk.set_clause('C12.4')
    CE = 'pytezos.contract.entrypoint.ContractEntrypoint'
    eenc, edec = repo.func(f'{CE}.encode'), repo.func(f'{CE}.decode')
    ct = repo.func(f'{PARAM}.create_type')
    ne = 0
    for name, root in param_trees().items():
        names, rn = ref_entrypoints(root)
        eps = dict(names)
        eps.setdefault(rn, '')
        for ep, path in eps.items():
            node = root
            for c in path:
                node = node.args[int(c)]
            for d, e in exprs(node):
                ne += 1

                def trip(i, ep=ep, e=e, node=node):
                    pc = i.call_function(FuncRef(ct, ClassRef(PARAM), True), [], {'args': [root]}, None, force_inline=True)
                    i.hooks.param = pc
                    x0 = i.call(i.getattr(node, 'from_micheline_value', None), [e], {}, None)
                    x = i.call(i.getattr(x0, 'to_python_object', None), [], {}, None)
                    ctx = Obj('pytezos.context.impl.ExecutionContext', {'mode': 'readable', 'parameter_expr': Sym('parameter_expr')})
                    me = Obj(CE, {'entrypoint': ep, 'context': ctx})
                    p1 = i.call_function(FuncRef(eenc, me, True), [x], {}, None, force_inline=True)
                    o = i.call_function(FuncRef(edec, me, True), [p1['value'], p1['entrypoint']], {}, None, force_inline=True)
                    i.event('decoded', o)
                    # the decoded object, given to the root entrypoint, yields the same parameters
                    me2 = Obj(CE, {'entrypoint': rn, 'context': ctx})
                    arg = o if root.prim == 'or' else o[rn]
                    if rn in names:
                        # the name the root would get belongs to a branch: the whole parameter has no entrypoint of its own, and the decoded
                        # object {entrypoint: value} is given back to the entrypoint it names
                        if not (isinstance(o, dict) and len(o) == 1):
                            raise AnalysisError(f'{name}: decoded object is not a one-entry mapping: {vrepr(o)[:80]}')
                        (k2, arg), = o.items()
                        me2 = Obj(CE, {'entrypoint': k2, 'context': ctx})
                    p2 = i.call_function(FuncRef(eenc, me2, True), [arg], {}, None, force_inline=True)
                    return vrepr(p1), vrepr(p2)

                res = mk().run_paths(trip)
                ok = len(res) == 1 and res[0].outcome == 'return' and res[0].value[0] == res[0].value[1]
                chk.ob('R-PAIR', edec.qualname, ok, f'{name}: entrypoint {ep}, value {d}: encode -> decode -> encode is stable', edec.loc,
                       {'outcome': outcome(res)},
                       what=f'parameter {name}: ContractEntrypoint({ep}).encode then decode loses or changes the value at {d}: {outcome(res)}')
    chk.minimum('entrypoint compositions', ne, 30)

    # ---- 5 big_map identifiers: a big_map that lives on chain is the integer identifier in the Python object and in the Micheline value, for
    #        EVERY identifier (0 is one); the literal form is only chosen when there is no identifier.  ContractData.decode/encode pass lazy_diff=None.
    chk.set_clause('C12.5')
    BM = 'pytezos.michelson.types.big_map.BigMapType'
    from ..absint import Hooks

    class IdHooks(Hooks):
        def inline(self, it, fi):
            return fi.cls is not None and fi.cls.qualname == BM and fi.name in ('to_python_object', 'to_micheline_value', 'from_python_object')

        def truth(self, it, term):
            # an identifier is an int >= 0: never None, but its truthiness is unknown (0 is falsy)
            if isinstance(term, App) and term.op == 'is' and len(term.args) == 2 and term.args[1] is None and isinstance(term.args[0], Sym) and term.args[0].name == 'ptr':
                return False
            return None

        def isinstance(self, it, obj, classes):
            from ..absint import Builtin
            if isinstance(obj, Sym) and obj.name == 'ptr':
                return any(isinstance(c, Builtin) and c.name == 'int' for c in classes)
            return NotImplemented

        def call(self, it, callee, args, kwargs, node):
            if isinstance(callee, ClassRef) and repo.is_subclass(callee.qual, BM):
                names = ['items', 'ptr', 'removed_keys']
                f = dict(zip(names, args))
                f.update(kwargs)
                return Obj(BM, {'items': f.get('items'), 'ptr': f.get('ptr'), 'removed_keys': f.get('removed_keys')})
            return NotImplemented

    nb = 0
    for meth, kw, want in (('to_python_object', {'lazy_diff': None}, lambda v: vrepr(v) == '$ptr'),
                           ('to_micheline_value', {'lazy_diff': None}, lambda v: isinstance(v, dict) and set(v) == {'int'} and '$ptr' in vrepr(v['int']))):
        fi = repo.find_method(BM, meth)
        it = Interp(repo, IdHooks(), max_depth=2)
        res = it.run_paths(lambda i, fi=fi, kw=kw: i.call_function(
            FuncRef(fi, Obj(BM, {'items': [], 'ptr': Sym('ptr', 'int'), 'removed_keys': [], 'context': None}), True), [], dict(kw), None, force_inline=True))
        bad = [(p.outcome, vrepr(p.value)[:80], p.cond_repr()[:60]) for p in res if not (p.outcome == 'return' and want(p.value))]
        nb += 1
        chk.ob('R-GUARD', fi.qualname, bool(res) and not bad, f'{meth}(lazy_diff=None) of an on-chain big_map is its identifier for every identifier (0 included)', fi.loc,
               {'paths': len(res), 'other_outcomes': bad[:3]},
               what=f'BigMapType.{meth}: for some identifier (the falsy identifier 0) the big_map is rendered as {bad[:1]} instead of the identifier: '
                    'ContractData.decode/encode turn big_map 0 into a new empty big_map')
    fpo = repo.find_method(BM, 'from_python_object')
    res = Interp(repo, IdHooks(), max_depth=2).run_paths(lambda i: i.call_function(FuncRef(fpo, ClassRef(BM), True), [Sym('ptr', 'int')], {}, None, force_inline=True))
    bad = [(p.outcome, vrepr(p.value)[:80]) for p in res if not (p.outcome == 'return' and isinstance(p.value, Obj) and vrepr(p.value.fields.get('ptr')) == '$ptr')]
    nb += 1
    chk.ob('R-GUARD', fpo.qualname, bool(res) and not bad, 'from_python_object of an integer is the big_map with that identifier, for every identifier', fpo.loc,
           {'other_outcomes': bad[:3]}, what=f'BigMapType.from_python_object: an integer identifier does not come back as that identifier: {bad[:1]}')
    chk.minimum('big_map identifier conversions', nb, 3)

    # ---- 6 the enum flag: a union is rendered as the bare name of its active branch only when that loses nothing ----------------------------
    # OrType.to_python_object drops the payload when `is_enum` is set, so the flag computed by OrType.create_type may be set only when every
    # leaf reached through nested unions is `unit`.  (The other clauses model the flag by that rule; this one reads it off the code.)
    chk.set_clause('C12.6')
    OR = 'pytezos.michelson.types.sum.OrType'
    oct_ = repo.func(f'{OR}.create_type')

    class EnumHooks(TypeTreeHooks):
        def __init__(self, repo):
            super().__init__(repo)
            self.flags: List[Any] = []

        def call(self, it, callee, args, kwargs, node):
            r = super().call(it, callee, args, kwargs, node)
            if r is NotImplemented and 'is_enum' in kwargs:
                self.flags.append(kwargs['is_enum'])
                return Sym('created type')
            return r

    def only_units(args) -> bool:
        return all(only_units(a.args) if a.prim == 'or' else a.prim == 'unit' for a in args)

    shapes = {
        'or unit unit': [U(), U()],
        'or (unit %a) (or (unit %b) (unit %c))': [U(f='a'), t('or', U(f='b'), U(f='c'))],
        'or (or unit unit) (or unit unit)': [t('or', U(), U()), t('or', U(), U())],
        'or nat unit': [N(), U()],
        'or unit (or unit nat)': [U(), t('or', U(), N())],
        'or (option %maybe unit) (unit %nothing)': [t('option', U(), f='maybe'), U(f='nothing')],
        'or (list unit) unit': [t('list', U()), U()],
        'or unit (pair unit unit)': [U(), t('pair', U(), U())],
        'or (set unit) (or unit unit)': [t('set', U()), t('or', U(), U())],
        'or unit (or unit (option unit))': [U(), t('or', U(), t('option', U()))],
        'or (map unit unit) unit': [t('map', U(), U()), U()],
        'or (lambda unit unit) unit': [t('lambda', U(), U()), U()],
        'or (contract unit) unit': [t('contract', U()), U()],
        'or (ticket unit) unit': [t('ticket', U()), U()],
        'or (big_map unit unit) unit': [t('big_map', U(), U()), U()],
    }
    nen = 0
    for name, targs in shapes.items():
        hooks = EnumHooks(repo)
        it = Interp(repo, hooks, max_depth=12)
        it.max_recursion = 10
        res = it.run_paths(lambda i: i.call_function(FuncRef(oct_, ClassRef(OR), True), [], {'args': list(targs)}, None, force_inline=True))
        flags = list(hooks.flags)
        if not flags or not all(isinstance(f, bool) for f in flags) or any(p.outcome != 'return' for p in res):
            raise AnalysisError(f'C12: the enum flag of {name} does not reduce to a constant: {[vrepr(f) for f in flags]} {[p.outcome for p in res]}')
        nen += 1
        lossless = only_units(targs)
        ok = lossless or not any(flags)
        chk.ob('R-TABLE', oct_.qualname, ok, f'{name}: enum flag {flags[0]}, every leaf through nested unions is unit: {lossless}', oct_.loc,
               {'is_enum': flags, 'all_leaves_unit': lossless},
               what=f'OrType.create_type marks `{name}` as an enum although a branch carries a payload: to_python_object renders the value as the bare branch '
                    'name and the payload is lost, so the python object does not convert back to the same value')
    chk.minimum('enum flag shapes', nen, 15)
