"""C17 Type annotations do not change execution or serialization.

 1 LAYERING (type-resolved call graph, receivers from the mypy oracle, CHA below the static receiver type).
   Roots: every instruction `execute`, the value/serialization API of MichelsonType (to/from_micheline_value, pack, unpack, forge, literals,
   comparisons, hashing, conversions, lazy-diff, type predicates, assert_type_*), the forge module and the stack.
   Cut: the two layers the property exempts - the Python-object layer (from/to_python_object, generate_pydoc, dummy) and the entrypoint
   layer (list_entrypoints, from_parameters, to_parameters).
   1a no function that READS `field_name` / `type_name` is reachable from a root without crossing the cut, except the frozen list of
      readers that only store, reject or display annotations;
   1b the cut is crossed from the execution side only at the frozen sites where the crossing is by design.
 2 COMB WALKERS (abstract interpretation on annotated / unannotated variants of the same comb type): access_comb (GET n), update_comb
   (UPDATE n), unpairn_comb (UNPAIR n), iter_comb and to_micheline_value in the three modes give the same structure for every re-annotation
   of the inner pairs and leaves.
"""
from __future__ import annotations

import ast
import itertools
from typing import Any, Dict, List, Optional, Set, Tuple

from ..absint import App, ClassRef, FuncRef, Interp, Obj, Sym, vrepr
from ..callgraph import CallGraph
from ..model import AnalysisError, Repo
from ..report import Check
from ..typed import TypeOracle
from ..typemodel import TCls, TypeTreeHooks, t

T_BASE = 'pytezos.michelson.types.base.MichelsonType'

M = 'pytezos.michelson'
MT = f'{M}.types.base.MichelsonType'
READ = ('field_name', 'type_name')

# value / serialization API of the type classes (entry points of execution and packing besides `execute`)
VALUE_API = {
    'to_micheline_value', 'from_micheline_value', 'pack', 'unpack', 'forge', 'to_literal', 'from_literal', 'from_value', 'from_point', 'to_point',
    '__lt__', '__eq__', '__hash__', '__int__', '__bool__', '__bytes__', '__str__', '__len__', '__iter__', '__cmp__',
    'merge_lazy_diff', 'aggregate_lazy_diff', 'attach_context', 'duplicate', 'assert_type_equal', 'assert_type_in',
    'is_comparable', 'is_packable', 'is_pushable', 'is_storable', 'is_passable', 'is_duplicable', 'is_big_map_friendly',
    'get', 'update', 'contains', 'add', 'remove', 'split', 'join', 'init', 'from_comb', 'from_items', 'from_some', 'none', 'from_left', 'from_right',
    'access_comb', 'update_comb', 'unpairn_comb', 'iter_comb', 'get_some', 'is_none', 'is_left', 'is_right', 'resolve', 'find', 'empty', 'prepend',
    'split_head', 'get_address', 'get_entrypoint', 'get_anon_type',
}
# the exempt layers: API names at which the closure is cut
CUT_NAMES = {'from_python_object', 'to_python_object', 'parse_python_object', 'generate_pydoc', 'dummy',
             'list_entrypoints', 'from_parameters', 'to_parameters'}
# ... and the function that computes entrypoint names when a parameter section is created
CUT_QUALS = {f'{M}.sections.parameter.ParameterSection.create_type'}
# readers that are reachable by design (one line of reason each)
ALLOW_READERS = {
    f'{MT}.create_type': 'stores the annotations on the created class and rejects annotated container arguments, as Octez does',
    f'{MT}.as_micheline_expr': 'renders a type for display / lazy-diff allocation / scripts; type equality goes through the annotation-blind assert_type_equal',
    f'{M}.sections.storage.StorageSection.match': 'rejects an annotated storage root when a script is loaded',
}
# crossings of the cut that are by design: (calling function, called API name) -> reason
ALLOW_CROSS = {
    (f'{M}.instructions.tezos.get_entrypoint_type', 'list_entrypoints'): 'SELF / CONTRACT / TRANSFER resolve an entrypoint NAME, which the property exempts',
    (f'{M}.instructions.tezos.ViewInstruction.execute', 'from_python_object'): 'VIEW result patched by the user is a Python object by design',
    (f'{M}.sections.parameter.ParameterSection.match', 'create_type'): 'loading a parameter section computes its entrypoint names (entrypoint layer)',
    (f'{M}.micheline.Micheline.match', 'create_type'): 'parsing a script creates the class of each section, the parameter section among them',
    (f'{M}.program.MichelsonProgram.instantiate', 'from_parameters'): 'builds the initial stack from (entrypoint, value): the entrypoint layer',
    (f'{M}.instructions.jupyter.BigMapDiffInstruction.execute', 'to_python_object'): 'REPL helper printing Python objects',
    (f'{M}.instructions.jupyter.DumpAllInstruction.execute', 'to_python_object'): 'REPL helper printing Python objects',
}


def reader_sites(repo: Repo) -> Dict[str, List[int]]:
    out: Dict[str, List[int]] = {}
    for fi in repo.iter_functions(M):
        for n in ast.walk(fi.node):
            if isinstance(n, ast.Attribute) and n.attr in READ and isinstance(n.ctx, ast.Load):
                out.setdefault(fi.qualname, []).append(n.lineno)
            elif isinstance(n, ast.Call) and isinstance(n.func, ast.Name) and n.func.id in ('getattr', 'hasattr') and len(n.args) >= 2 \
                    and isinstance(n.args[1], ast.Constant) and n.args[1].value in READ:
                out.setdefault(fi.qualname, []).append(n.lineno)
    return out


def roots_of(repo: Repo) -> List[str]:
    roots = []
    for fi in repo.iter_functions(M):
        if fi.name in CUT_NAMES:
            continue
        mod = fi.module.name
        if fi.cls is not None and fi.name == 'execute' and (mod.startswith(f'{M}.instructions') or mod == f'{M}.micheline'):
            roots.append(fi.qualname)
        elif fi.cls is not None and repo.is_subclass(fi.cls.qualname, MT) and fi.name in VALUE_API:
            roots.append(fi.qualname)
        elif mod in (f'{M}.forge', f'{M}.stack'):
            roots.append(fi.qualname)
    return roots


# ------------------------------------------------------------------------------------------------------------------ clause 2 helpers
def comb_variants(n_leaves: int) -> List[Tuple[str, TCls]]:
    """Right combs of n leaves with every placement of annotations on the inner pairs (field / type) and on one leaf."""
    leaves = ['nat', 'string', 'bytes', 'int', 'bool', 'mutez'][:n_leaves]
    inner = n_leaves - 2  # number of inner pair nodes
    out = []
    for marks in itertools.product(['', 'f', 'n'], repeat=inner):
        for leaf_ann in (False, True):
            def build(i: int) -> TCls:
                if i == n_leaves - 2:
                    node = TCls('pair', [t(leaves[i], f='l%d' % i if leaf_ann else None), t(leaves[i + 1])])
                else:
                    node = TCls('pair', [t(leaves[i], f='l%d' % i if leaf_ann else None), build(i + 1)])
                if i > 0:
                    m = marks[i - 1]
                    node.field_name = f'x{i}' if m == 'f' else None
                    node.type_name = f'y{i}' if m == 'n' else None
                return node
            root = build(0)
            out.append((f'{n_leaves} leaves, inner annotations {"".join(m or "-" for m in marks) or "-"}{", leaves annotated" if leaf_ann else ""}', root))
    return out


def comb_expr(n: int) -> Any:
    e: Any = Sym(f'v{n - 1}')
    for i in reversed(range(n - 1)):
        e = {'prim': 'Pair', 'args': [Sym(f'v{i}'), e]}
    return e


def shape(v: Any) -> Any:
    if isinstance(v, Obj) and '_t' in v.fields:
        tc = v.fields['_t']
        if tc.prim == 'pair':
            return ('pair',) + tuple(shape(x) for x in v.fields['items'])
        return ('leaf', tc.prim, vrepr(v.fields.get('value')))
    if isinstance(v, (list, tuple)):
        return tuple(shape(x) for x in v)
    if isinstance(v, dict):
        return tuple((k, shape(x)) for k, x in v.items())
    return vrepr(v)


def run(repo: Repo, chk: Check) -> None:
    chk.explanation = (
        'Layering rule over a type-resolved call graph (mypy is used as an expression-type oracle, the graph and the rule are computed on the '
        'CPython ast): annotation readers must not be reachable from execution / serialization entry points except through the two exempt '
        'layers.  The comb walkers named by the property are additionally interpreted on every re-annotation of 3- to 5-element combs.'
    )
    # ---- 1 layering ---------------------------------------------------------------------------------------------------------------
    chk.set_clause('C17.1')
    oracle = TypeOracle(repo)
    cg = CallGraph(repo, oracle, scope=M, byname_scope=M)
    readers = reader_sites(repo)
    roots = roots_of(repo)
    cut = {q for q in cg.edges if q.rsplit('.', 1)[1] in CUT_NAMES} | {q for q in CUT_QUALS if q in cg.edges}
    chk.require(all(q in cg.edges for q in CUT_QUALS), f'cut function missing: {CUT_QUALS}')
    pred = cg.reach(roots, cut)
    chk.minimum('annotation read sites', sum(len(v) for v in readers.values()), 25)
    chk.minimum('entry functions', len(roots), 250)
    chk.minimum('functions reached', len(pred), 500)
    chk.minimum('call sites', cg.n_sites, 2500)
    if cg.n_unresolved * 10 > cg.n_sites:
        raise AnalysisError(f'receiver types unresolved at {cg.n_unresolved} of {cg.n_sites} call sites: the oracle is not usable')
    chk.note('callgraph', f'{cg.n_sites} call sites, {cg.n_unresolved} resolved by name only; {len(pred)} functions reached from {len(roots)} roots; mypy exported {oracle.n_expr} expression types')
    n_reach = 0
    for q in sorted(readers):
        if q in cut:
            continue
        reached = q in pred
        allowed = q in ALLOW_READERS
        if reached:
            n_reach += 1
        path = cg.path(pred, q) if reached else []
        chain = ' -> '.join([path[0].src.split('.', 2)[-1]] + [f'{e.dst.split(".", 2)[-1]} [{e.kind} `{e.expr}` line {e.line}]' for e in path]) if path else q
        fi = repo.functions[q]
        chk.ob('R-FLOW', q, (not reached) or allowed, 'annotation reader not reachable from execution or serialization', fi.loc,
               {'reads_at_lines': readers[q], 'reachable': reached, 'allowed': ALLOW_READERS.get(q), 'path': chain if reached else None},
               what=f'{q.split(".", 2)[-1]} reads a type annotation (line {readers[q][0]}) and is reached from execution/serialization: {chain}')
    # 1b crossings of the cut
    n_cross = 0
    for q in sorted(cut):
        for src, edges in cg.edges.items():
            if src not in pred or src in cut:
                continue
            for e in edges:
                if e.dst != q:
                    continue
                n_cross += 1
                key = (src, q.rsplit('.', 1)[1])
                ok = key in ALLOW_CROSS
                chk.ob('R-FLOW', src, ok, f'does not call the exempt layer ({key[1]}) from the execution side', f'{repo.functions[src].module.relpath}:{e.line}',
                       {'callee': q, 'site': e.expr, 'resolution': e.how, 'allowed': ALLOW_CROSS.get(key)},
                       what=f'{src.split(".", 2)[-1]} (reachable from execution) calls {q.split(".", 2)[-1]} at `{e.expr}`: results now depend on annotations')
    chk.minimum('cut crossings examined', n_cross, 3)

    # ---- 2 comb walkers on re-annotated types ---------------------------------------------------------------------------------------------
    chk.set_clause('C17.2')
    PT = f'{M}.types.pair.PairType'
    nvar = 0
    for n in ((3, 4, 5, 6) if chk.tier == 'thorough' else (3, 4, 5)):
        ref: Dict[str, Any] = {}
        ref_name = ''
        for name, root in comb_variants(n):
            nvar += 1
            res_all: Dict[str, Any] = {}

            def mk():
                it = Interp(repo, TypeTreeHooks(repo), max_depth=40)
                it.max_recursion = 12
                return it

            def value(i):
                return i.call(i.getattr(root, 'from_micheline_value', None), [comb_expr(n)], {}, None)

            ops: List[Tuple[str, Any]] = []
            for idx in range(2 * n - 1):
                ops.append((f'access_comb({idx})', lambda i, idx=idx: shape(i.call(i.getattr(value(i), 'access_comb', None), [idx], {}, None))))
            for cnt in range(0, n - 1):
                ops.append((f'unpairn_comb({cnt})', lambda i, cnt=cnt: shape(list(i.call(i.getattr(value(i), 'unpairn_comb', None), [cnt], {}, None)))))
            for idx in range(1, 2 * n - 1):
                def upd(i, idx=idx):
                    v = value(i)
                    el = i.call(i.getattr(t('unit'), 'from_micheline_value', None), [Sym('new')], {}, None)
                    return shape(i.call(i.getattr(v, 'update_comb', None), [idx, el], {}, None))
                ops.append((f'update_comb({idx})', upd))
            ops.append(('iter_comb()', lambda i: shape(list(i.call(i.getattr(value(i), 'iter_comb', None), [], {}, None)))))
            for mode in ('readable', 'optimized', 'legacy_optimized'):
                ops.append((f'to_micheline_value({mode})', lambda i, mode=mode: shape(i.call(i.getattr(value(i), 'to_micheline_value', None), [], {'mode': mode}, None))))
            for opname, fn in ops:
                res = mk().run_paths(fn)
                res_all[opname] = [(p.outcome, p.value if p.outcome == 'return' else vrepr(p.value)[:80]) for p in res]
            if not ref:
                ref, ref_name = res_all, name
                for opname, r in res_all.items():
                    chk.ob('R-PATH', f'{PT}.{opname.split("(")[0]}', len(r) == 1 and r[0][0] == 'return', f'comb of {n}: {opname} succeeds without annotations', None,
                           {'result': vrepr(r)[:200]}, what=f'{opname} on an unannotated comb of {n} fails: {vrepr(r)[:120]}')
                continue
            for opname, r in res_all.items():
                chk.ob('R-PAIR', f'{PT}.{opname.split("(")[0]}', r == ref[opname], f'{name}: {opname} equals the unannotated result', None,
                       {'annotated': vrepr(r)[:200], 'unannotated': vrepr(ref[opname])[:200]},
                       what=f'{opname} on a comb with {name} gives {vrepr(r)[:120]} but {vrepr(ref[opname])[:120]} without annotations')
    chk.minimum('comb re-annotations', nvar, 3 * 2 + 9 * 2 + 27 * 2 - 2)

    # ---- 3 stripping annotations: get_anon_type / create_type, interpreted through the REAL constructors ---------------------------------
    # Instructions re-wrap values in fresh parametric types built from `get_anon_type()` of the component (SOME, LEFT, CONS, PAIR, map values ...);
    # the constructors of option/list/set/map/... reject an argument type that still carries a field annotation.  So the anonymous type of a
    # class must carry neither annotation, whatever the annotations of the class, and must keep the argument types.
    chk.set_clause('C17.3')
    from ..absint import Builtin

    class RealTypeHooks(TypeTreeHooks):
        def call(self, it, callee, args, kwargs, node):
            if isinstance(callee, Builtin) and callee.name == 'type' and len(args) == 3 and isinstance(args[2], dict) and args[1] and isinstance(args[1][0], TCls):
                d = args[2]
                return TCls(args[1][0].prim, list(d.get('args', [])), d.get('field_name'), d.get('type_name'))
            if isinstance(callee, FuncRef) and callee.fi is not None and isinstance(callee.self_val, TCls):
                if callee.fi.name == 'get_anon_type':
                    return NotImplemented if False else it.call_function(callee, args, kwargs, node, force_inline=True)
                if callee.fi.name in ('is_comparable', 'is_big_map_friendly', 'is_pushable', 'is_packable', 'is_duplicable'):
                    return True
            return super().call(it, callee, args, kwargs, node)

    def same_args(a: TCls, b: TCls) -> bool:
        return a.prim == b.prim and len(a.args) == len(b.args) and all(x.key() == y.key() for x, y in zip(a.args, b.args))

    nat, st, by = t('nat'), t('string'), t('bytes')
    samples = {
        'pair %x :y nat string': t('pair', nat, st, f='x', n='y'),
        'pair %x nat (pair %in string bytes)': t('pair', nat, t('pair', st, by, f='in'), f='x'),
        'pair nat string (unannotated)': t('pair', nat, st),
        'or %x (nat %a) (string %b)': t('or', t('nat', f='a'), t('string', f='b'), f='x'),
        'option %x nat': t('option', nat, f='x'),
        'list :l nat': t('list', nat, n='l'),
        'map %m nat string': t('map', nat, st, f='m'),
        'nat %n': t('nat', f='n'),
    }
    nanon = 0
    for label, tc in samples.items():
        it3 = Interp(repo, RealTypeHooks(repo), max_depth=12)
        it3.max_recursion = 6
        res = it3.run_paths(lambda i, tc=tc: i.call(i.getattr(tc, 'get_anon_type', None), [], {}, None))
        outs = [p.value for p in res if p.outcome == 'return']
        ok = len(res) == 1 and len(outs) == 1 and isinstance(outs[0], TCls) and outs[0].field_name is None and outs[0].type_name is None and same_args(outs[0], tc)
        nanon += 1
        chk.ob('R-FLOW', f'{T_BASE}.get_anon_type', ok, f'{label}: the anonymous type has the same arguments and no field / type annotation', repo.find_method(T_BASE, 'get_anon_type').loc,
               {'result': [repr(o) for o in outs][:2] or [vrepr(p.value)[:80] for p in res][:2]},
               what=f'get_anon_type of `{label}` gives {[repr(o) for o in outs][:1] or [vrepr(p.value)[:80] for p in res][:1]}: the annotation survives (or the arguments change), so '
                    'wrapping a component taken out of an annotated pair (CDR ; SOME, GET n ; CONS ...) fails or yields a different type than for the unannotated program')
        # and naming through create_type
        res = Interp(repo, RealTypeHooks(repo), max_depth=12).run_paths(
            lambda i, tc=tc: i.call(i.getattr(tc, 'create_type', None), [], {'args': list(tc.args), 'annots': ['%fld', ':typ']}, None))
        outs = [p.value for p in res if p.outcome == 'return']
        ok2 = len(outs) == 1 and isinstance(outs[0], TCls) and outs[0].field_name == 'fld' and outs[0].type_name == 'typ' and same_args(outs[0], tc)
        chk.ob('R-FLOW', f'{T_BASE}.create_type', ok2, f'{label}: create_type(args, annots) records exactly the given annotations', repo.find_method(T_BASE, 'create_type').loc, {'result': [repr(o) for o in outs][:2]},
               what=f'create_type on `{label}` with annotations %fld :typ gives {[repr(o) for o in outs][:1]}')
    chk.minimum('anonymous-type samples', nanon, 8)

    # ---- 4 every container type built during execution is built from anonymous argument types (provenance analysis, sa/annotflow.py) --------
    chk.set_clause('C17.4')
    from ..annotflow import findings as annot_findings
    # which containers refuse an annotated argument type: decided by interpreting the REAL create_type of each container class on argument types
    # that carry a field annotation (however the refusal is written: inline tests, a table of check functions ...)
    restricted = set()
    arity = {'list': 1, 'set': 1, 'option': 1, 'contract': 1, 'ticket': 1, 'map': 2, 'big_map': 2, 'lambda': 2, 'pair': 2, 'or': 2}
    for prim, k in arity.items():
        tc0 = t(prim, *[t('nat') for _ in range(k)])
        args_annot = [t('nat', f=f'x{i}') for i in range(k)]
        res = Interp(repo, RealTypeHooks(repo), max_depth=12).run_paths(lambda i, tc0=tc0, a=args_annot: i.call(i.getattr(tc0, 'create_type', None), [], {'args': list(a)}, None))
        if res and all(p.outcome == 'raise' for p in res):
            restricted.add(prim)
        elif not (res and all(p.outcome == 'return' for p in res)):
            raise AnalysisError(f'create_type of `{prim}` on annotated argument types: some paths refuse, some accept: idiom not modelled')
    af = annot_findings(repo, restricted)
    chk.require(len(af['restricted']) >= 5, f'the prims whose argument types must be anonymous were not found in create_type: {af["restricted"]}')
    chk.minimum('create_type sites on restricted containers', af['sinks'], 15)
    chk.note('container_argument_provenance', {'restricted_prims': af['restricted'], 'sites': af['sinks'], 'anonymous': af['anon'], 'unknown': af['unknown'][:10]})
    for row in af['tainted']:
        chk.ob('R-FLOW', row['sink'].split(' ')[1], False, f'container argument type is anonymous: {row["sink"].split(" ", 2)[2]}', row['sink'].split(' ')[0],
               {'comes_from': row['from'], 'via': row['via']},
               what=f'{row["sink"]} from a type that may still carry a field annotation ({row["from"]} {row["via"]}): for a component of an annotated pair / an annotated '
                    'parameter root the instruction fails with "argument type cannot be annotated" while the unannotated program succeeds')
    chk.ob('R-FLOW', 'create_type(args=...) on option/list/set/map/big_map/contract/lambda', not af['tainted'],
           'no container is built from the class of a value or from a section root without get_anon_type()', None,
           {'sites': af['sinks'], 'argument expressions proved anonymous': af['anon'], 'of unknown provenance': len(af['unknown'])})


def controls(chk: Check) -> None:
    # the provenance rule must see `type(v)` as a possibly annotated class
    import ast as _ast
    from ..annotflow import Flow, T as _T
    from ..model import Repo as _Repo
    _r = _Repo()
    _fl = Flow(_r)
    _fi = _r.func('pytezos.michelson.types.option.OptionType.from_some')
    if _fl.taint(_fi, _ast.parse('type(item)', mode='eval').body) != _T or _fl.taint(_fi, _ast.parse('item.get_anon_type()', mode='eval').body) != 'ANON':
        raise AnalysisError('annotation provenance control failed')
    vs = comb_variants(4)
    if len(vs) != 18 or not any(v.args[1].field_name for _, v in vs):
        raise AnalysisError('comb variant generator control failed')
