"""C11 Typed values round-trip through readable and optimized Micheline (kind-level composition).

 1 for every Michelson type class that defines both directions and every mode, from_micheline_value(to_micheline_value(v, mode)) is
   interpreted symbolically on value SHAPES (payload opaque): the literal kind / primitive / arity the writer emits must be accepted by
   the reader's dispatch, and the payload must flow through the inverse decoder of the encoder used (pairs: encoder -> decoder table)
 2 totality of rendering: a partial library call (datetime.fromtimestamp) is only reached under a range guard on the rendered value, and
   outside the guard another literal kind (int) is written that the reader accepts
 3 PairType accepts every comb spelling it emits (2, 3, 4, 5 leaves x 3 modes)
"""
from __future__ import annotations

import ast
from typing import Any, Dict, List, Optional

from ..absint import App, Builtin, ClassRef, ExcVal, FuncRef, Hooks, Interp, ModRef, Obj, Raised, Sym, vkey, vrepr
from ..instrmodel import T, TYPECLS, prim_of
from ..model import AnalysisError, Repo
from ..report import Check

MODES = ['readable', 'optimized', 'legacy_optimized']
MT = f'{T}.base.MichelsonType'
# encoder -> the decoder that must read it back
INVERSE = {
    'forge_contract': 'unforge_contract', 'forge_public_key': 'unforge_public_key', 'forge_address': 'unforge_address',
    'forge_base58@signature': 'unforge_signature', 'forge_base58@chain_id': 'unforge_chain_id', 'format_timestamp': 'optimize_timestamp',
}
Y1000, Y9999_END = -30610224000, 253402300799  # 1000-01-01T00:00:00Z .. 9999-12-31T23:59:59Z


class RTHooks(Hooks):
    def __init__(self, repo: Repo, cls: str):
        self.repo = repo
        self.cls = cls

    def inline(self, it, fi):
        if fi.name in ('to_micheline_value', 'from_micheline_value', 'parse_micheline_value', 'parse_micheline_literal', 'is_none', 'is_left', 'is_right',
                       'iter_comb', '__iter__', 'parse_micheline_value', 'bytes_to_int', 'resolve'):
            return True
        return False

    def attr(self, it, obj, name, node):
        if isinstance(obj, ClassRef) and name == 'args' and self.repo.is_subclass(obj.qual, MT):
            return [Sym('ArgT0'), Sym('ArgT1')]
        if isinstance(obj, Obj) and name in ('field_name', 'type_name') and name not in obj.fields:
            return None
        if isinstance(obj, Obj) and name == 'prim' and name not in obj.fields:
            return prim_of(self.repo, obj.cls)
        return NotImplemented

    def call(self, it, callee, args, kwargs, node):
        if isinstance(callee, ClassRef) and self.repo.is_subclass(callee.qual, MT):
            it.event('built', callee.qual, args, kwargs)
            return Obj(callee.qual, dict(kwargs, _args=tuple(args)), tag='rebuilt')
        if isinstance(callee, App) and callee.op == 'attr':
            recv, name = callee.args
            if name == 'to_micheline_value' and isinstance(recv, Sym):
                return App('leafval', recv, kwargs.get('mode', args[0] if args else None))
            if name == 'from_micheline_value' and isinstance(recv, Sym):
                it.event('leaf-parsed', recv, args[0])
                return App('leaf', recv, args[0])
            if name in ('hex', 'encode', 'decode'):
                return App(name, recv, *args)
        if isinstance(callee, FuncRef) and callee.fi is not None:
            fi = callee.fi
            m = fi.module.name
            if m == 'pytezos.crypto.encoding' and fi.name.startswith(('is_', 'validate_')):
                return True
            if m in ('pytezos.michelson.forge', 'pytezos.michelson.format') and fi.name not in ('forge_array',):
                it.event('codec', fi.name, args, kwargs)
                return App(fi.name, *args, *[App('kw', k, v) for k, v in sorted(kwargs.items())])
            if fi.name in ('as_micheline_expr', 'match', 'assert_type_equal', 'is_comparable', 'check_constraints'):
                return App(fi.name, *args)
            if fi.name == 'from_value' and fi.cls is not None and self.repo.is_subclass(fi.cls.qualname, MT):
                # the validating constructor: its guards are invariants of the value that was rendered (decided in C16/C03)
                it.event('validated', fi.cls.name, args)
                return Obj(callee.self_val.qual if isinstance(callee.self_val, ClassRef) else fi.cls.qualname, {'value': args[0] if args else None}, tag='rebuilt')
        if isinstance(callee, Builtin):
            if callee.name == 'bytes.fromhex':
                a = args[0]
                if isinstance(a, App) and a.op == 'hex':
                    return a.args[0]
                return App('fromhex', a)
            if callee.name == 'int' and len(args) == 1 and isinstance(args[0], App) and args[0].op == 'str':
                return args[0].args[0]
            if callee.name == 'int.from_bytes':
                src = args[0]
                order = args[1] if len(args) > 1 else kwargs.get('byteorder')
                if isinstance(src, App) and src.op == 'mcall:to_bytes' and src.args[2] == order:
                    return src.args[0]
                return App('from_bytes', src, order)
            if callee.name == 'str' and len(args) == 1 and isinstance(args[0], Sym) and \
                    args[0].meta.get('meta_prim') not in ('int', 'nat', 'mutez', 'timestamp', 'bls12_381_fr', None):
                return args[0]  # the payload of a string-like type is a str already
            if callee.name == 'str' and len(args) == 1 and isinstance(args[0], (Sym, App)):
                return App('str', args[0])
        if isinstance(callee, ModRef) and callee.name == 'datetime.datetime.fromtimestamp':
            it.event('partial-call', callee.name, args[0], list(it.conds))
            return App('datetime', args[0])
        return NotImplemented

    def isinstance(self, it, obj, classes):
        if isinstance(obj, Sym):
            # opaque leaves are Michelson values of some other (leaf) type
            return any(isinstance(c, ClassRef) and c.qual == MT for c in classes)
        if isinstance(obj, App) and obj.op in ('leaf', 'leafval'):
            return any(isinstance(c, ClassRef) and c.qual == MT for c in classes)
        return NotImplemented

    def truth(self, it, term):
        # a component / payload is a value of unknown content: "", 0x, 0, False, {} are falsy - its truthiness is not known (both ways);
        # but it IS a value: never None
        if isinstance(term, App) and term.op == 'is' and len(term.args) == 2 and term.args[1] is None and isinstance(term.args[0], Sym):
            return False
        return None

    def compare(self, it, op, a, b, node):
        if op == '<=' and isinstance(a, App) and a.op == 'len':
            return True  # length guards of byte payloads (Fr <= 32 bytes): payloads written by the encoder have the encoder's length
        return NotImplemented


class _NoInline(Hooks):
    def inline(self, it, fi):
        return False


def _eval_str_cond(c: Any, t: str) -> bool:
    """Truth of a path condition of StringType.from_value on the concrete text t.  Only predicates over the text itself are modelled; anything
    else is an analysis error (never a verdict)."""
    def ev(x):
        if isinstance(x, Sym) and x.name == 'value':
            return t
        if isinstance(x, (str, int, bytes, bool)) or x is None:
            return x
        if isinstance(x, App):
            if x.op == 'len':
                return len(ev(x.args[0]))
            if x.op == 'not':
                return not ev(x.args[0])
            if x.op.startswith('mcall:') and x.op[6:] in ('encode', 'isascii', 'isprintable', 'isalnum', 'isalpha', 'isdigit', 'isidentifier', 'isspace', 'strip', 'isupper', 'islower'):
                recv = ev(x.args[0])
                return getattr(recv, x.op[6:])(*[ev(a) for a in x.args[1:]])
            if x.op in ('==', '!=', '<', '<=', '>', '>='):
                a, b = ev(x.args[0]), ev(x.args[1])
                return {'==': a == b, '!=': a != b, '<': a < b, '<=': a <= b, '>': a > b, '>=': a >= b}[x.op]
            if x.op == 'isinstance':
                return True
            if x.op in ('call:re.fullmatch', 'call:re.match', 'call:re.search') and isinstance(x.args[0], str):
                import re as _re
                return getattr(_re, x.op[8:])(x.args[0], ev(x.args[1])) is not None
            if x.op in ('call:all', 'call:any'):
                raise AnalysisError('C11.6: character loop in StringType.from_value not modelled')
        raise AnalysisError(f'C11.6: condition of StringType.from_value not modelled: {vrepr(x)[:80]}')

    r = ev(c)
    return bool(r)


class LitHooks(RTHooks):
    """to_literal builds Micheline literal *classes*: X.create_type(args=[...]) of a class registered with prim=P is the node P(args)."""

    def inline(self, it, fi):
        return fi.name == 'to_literal' or super().inline(it, fi)

    def call(self, it, callee, args, kwargs, node):
        if isinstance(callee, FuncRef) and callee.fi is not None and callee.fi.name == 'create_type' and isinstance(callee.self_val, ClassRef):
            ci = self.repo.classes.get(callee.self_val.qual)
            if ci is not None and not self.repo.is_subclass(ci.qualname, MT):
                a = kwargs.get('args', args[0] if args else [])
                if ci.name == 'MichelineSequence':
                    return App('seq', *list(a))
                if ci.keywords.get('prim') is not None:
                    return App('lit', ci.keywords['prim'], *list(a))
        if isinstance(callee, App) and callee.op == 'attr' and callee.args[1] == 'to_literal' and isinstance(callee.args[0], Sym):
            return App('leaflit', callee.args[0])
        return super().call(it, callee, args, kwargs, node)


def norm_lit(v: Any) -> Any:
    if isinstance(v, ClassRef):
        return App('lit', v.qual.rsplit('.', 1)[-1].replace('Literal', ''))
    if isinstance(v, App) and v.op in ('lit', 'seq'):
        args = [norm_lit(x) for x in v.args]
        if v.op == 'lit' and args and args[0] == 'Pair':
            # Pair a (Pair b c) and Pair a b c are two spellings of one value: right combs are compared flattened
            while isinstance(args[-1], App) and args[-1].op == 'lit' and args[-1].args and args[-1].args[0] == 'Pair':
                args = args[:-1] + list(args[-1].args[1:])
        return App(v.op, *args)
    return v


def lit_of_value(v: Any) -> Any:
    """the Micheline JSON written by to_micheline_value as a literal tree"""
    if isinstance(v, dict) and 'prim' in v:
        return App('lit', v['prim'], *[lit_of_value(x) for x in v.get('args', [])])
    if isinstance(v, list):
        return App('seq', *[lit_of_value(x) for x in v])
    if isinstance(v, App) and v.op == 'leafval':
        return App('leaflit', v.args[0])
    return v


def shapes_for(repo: Repo, q: str) -> Dict[str, Obj]:
    prim = prim_of(repo, q)
    leaf = lambda n: Sym(n)  # noqa: E731
    if prim == 'option':
        return {'None': Obj(q, {'item': None}), 'Some': Obj(q, {'item': leaf('x')})}
    if prim == 'or':
        und = Obj(f'{T}.base.undefined', {})
        return {'Left': Obj(q, {'items': (leaf('l'), und)}), 'Right': Obj(q, {'items': (und, leaf('r'))})}
    if prim == 'pair':
        def comb(n):
            if n == 2:
                return Obj(q, {'items': (leaf('p0'), leaf('p1'))})
            inner = comb(n - 1)
            # shift names
            return Obj(q, {'items': (leaf(f'h{n}'), inner)})
        return {f'comb{n}': comb(n) for n in (2, 3, 4, 5)}
    if prim in ('list', 'set'):
        return {'empty': Obj(q, {'items': []}), 'two': Obj(q, {'items': [leaf('e0'), leaf('e1')]})}
    if prim == 'map':
        return {'empty': Obj(q, {'items': []}), 'one': Obj(q, {'items': [(leaf('k'), leaf('v'))]})}
    if prim == 'bool':
        return {'True': Obj(q, {'value': True}), 'False': Obj(q, {'value': False})}
    if prim == 'unit':
        return {'Unit': Obj(q, {})}
    return {'value': Obj(q, {'value': Sym('payload', meta_prim=prim)})}


def kind_of(v: Any) -> str:
    if isinstance(v, list):
        return f'sequence[{len(v)}]'
    if isinstance(v, dict):
        if 'prim' in v:
            return f'{v["prim"]}/{len(v.get("args", []))}'
        return '/'.join(sorted(v))
    return vrepr(v)[:40]


def run(repo: Repo, chk: Check) -> None:
    chk.explanation = (
        'For every type class and mode the composition from_micheline_value(to_micheline_value(v, mode)) is interpreted on value shapes '
        'with opaque payloads: it must not fail in the reader\'s dispatch, and the payload must come back through the decoder that '
        'inverts the encoder used.  Rendering must be total: partial library calls need a dominating range guard and a fallback '
        'literal kind.  Value equality after the trip is not decided (the field codecs are C05/C10).'
    )
    skip = {'big_map': 'lazy storage (C15)', 'ticket': 'via pair comb (C20)', 'operation': 'no literal form', 'sapling_state': 'lazy storage',
            'sapling_transaction': 'no conversion defined', 'sapling_transaction_deprecated': 'no conversion defined', 'lambda': 'code is kept verbatim', 'never': 'uninhabited',
            'contract': 'inherits address', 'chest': 'inherits bytes', 'chest_key': 'inherits bytes'}
    classes = []
    for q in repo.subclasses(MT):
        ci = repo.classes[q]
        prim = ci.keywords.get('prim')
        if prim is None:
            continue
        tm = repo.find_method(q, 'to_micheline_value')
        fm = repo.find_method(q, 'from_micheline_value')
        if tm is None or fm is None or tm.cls.qualname == MT or fm.cls.qualname == MT:
            continue
        if prim in skip:
            chk.info('R-PAIR', q, f'not composed here: {skip[prim]}', ci.loc)
            continue
        classes.append((q, prim, tm, fm))
    chk.minimum('type classes composed', len(classes), 22)
    ncomp = 0
    for q, prim, tm, fm in sorted(classes):
        for sname, obj_proto in shapes_for(repo, q).items():
            for mode in MODES + ['bogus-mode']:
                chk.set_clause('C11.1' if mode != 'bogus-mode' else 'C11.4')
                hooks = RTHooks(repo, q)
                it = Interp(repo, hooks, max_depth=10)
                it.max_recursion = 6

                def go(i, q=q, tm=tm, fm=fm, mode=mode, obj_proto=obj_proto):
                    import copy
                    o = copy.deepcopy(obj_proto)
                    w = i.call_function(FuncRef(tm, o, True), [], {'mode': mode}, None, force_inline=True)
                    i.event('written', w)
                    r = i.call_function(FuncRef(fm, ClassRef(q), True), [w], {}, None, force_inline=True)
                    return r

                res = it.run_paths(go)
                label = f'{prim} {sname} mode={mode}'
                if mode == 'bogus-mode':
                    continue
                ncomp += 1
                written = [kind_of(e[1]) for p in res for e in p.events if isinstance(e, tuple) and e[0] == 'written']
                bad = [(p.cond_repr()[:80], p.value.cls, str(p.value.args[:1])[:80]) for p in res if p.outcome == 'raise']
                ok = bool(res) and not bad
                chk.ob('R-PAIR', fm.qualname, ok, f'{label}: reader accepts what the writer emits ({sorted(set(written))})', fm.loc,
                       {'written_kinds': sorted(set(written)), 'failing_paths': bad[:3], 'paths': len(res)},
                       what=f'{label}: the writer emits {sorted(set(written))} but the reader fails: {bad[:2]}')
                # payload through the inverse decoder
                for p in res:
                    if p.outcome != 'return':
                        continue
                    codecs = [e[1] for e in p.events if isinstance(e, tuple) and e[0] == 'codec']
                    if sname == 'value' and not codecs:
                        # both directions are plain Python conversions (str/int, hex/fromhex, to_bytes/from_bytes): the payload must come back itself
                        back = [e[2][0] for e in p.events if isinstance(e, tuple) and e[0] in ('validated', 'built') and e[2]]
                        if back:
                            chk.ob('R-PAIR', fm.qualname, vrepr(back[-1]) == '$payload', f'{label}: payload restored exactly', fm.loc, {'restored': vrepr(back[-1])[:160]},
                                   what=f'{label}: the payload comes back as {vrepr(back[-1])[:120]}, not as the value that was written (byte order / base / slicing differ)')
                    enc = [c for c in codecs if c.startswith(('forge_', 'format_'))]
                    dec = [c for c in codecs if c.startswith(('unforge_', 'optimize_'))]
                    for e_ in enc:
                        key = e_ if e_ in INVERSE else f'{e_}@{prim}'
                        want = INVERSE.get(key)
                        if want is None:
                            continue
                        chk.ob('R-PAIR', fm.qualname, want in dec, f'{label}: {e_} is read back by {want}', fm.loc, {'encoders': enc, 'decoders': dec},
                               what=f'{label}: the value is written with {e_} but read with {dec or "no decoder"}')
    chk.minimum('writer/reader compositions', ncomp, 90)

    # ---- 5 the literal writer (to_literal: what APPLY bakes into the PUSH of a partially applied lambda) is a sibling of the value writer:
    #        on every value shape it must denote the same Micheline tree as to_micheline_value(mode='readable')
    chk.set_clause('C11.5')
    nlit = 0
    for q, prim, tm, fm in sorted(classes):
        if prim not in ('option', 'or', 'pair', 'list', 'set', 'map'):
            continue
        tl = repo.find_method(q, 'to_literal')
        if tl is None or tl.cls.qualname == MT:
            continue
        for sname, obj_proto in shapes_for(repo, q).items():
            import copy
            i1, i2 = Interp(repo, RTHooks(repo, q), max_depth=10), Interp(repo, LitHooks(repo, q), max_depth=10)
            i1.max_recursion = i2.max_recursion = 6
            r_val = i1.run_paths(lambda i, o=obj_proto: i.call_function(FuncRef(tm, copy.deepcopy(o), True), [], {'mode': 'readable'}, None, force_inline=True))
            r_lit = i2.run_paths(lambda i, o=obj_proto: i.call_function(FuncRef(tl, copy.deepcopy(o), True), [], {}, None, force_inline=True))
            want = {vrepr(norm_lit(lit_of_value(p.value))) for p in r_val if p.outcome == 'return'}
            got = {vrepr(norm_lit(p.value)) if p.outcome == 'return' else f'raise {p.value.cls}' for p in r_lit}
            nlit += 1
            chk.ob('R-PAIR', tl.qualname, bool(want) and got == want, f'{prim} {sname}: to_literal denotes the tree to_micheline_value writes', tl.loc,
                   {'literal': sorted(got)[:3], 'value': sorted(want)[:3]},
                   what=f'{prim} {sname}: to_literal gives {sorted(got)[:2]} where the value is written as {sorted(want)[:2]} '
                        '(APPLY captures a different value than the one on the stack)')
    chk.minimum('literal-writer shapes', nlit, 10)

    # ---- 6 the validating constructor of `string` accepts every Michelson string: the reader runs it on what the writer emitted, so a
    #        predicate that rejects an admissible character makes such a value unreadable.  Michelson strings: printable ASCII 32..126 and \n.
    chk.set_clause('C11.6')
    sq = TYPECLS['string']
    fv = repo.find_method(sq, 'from_value')
    r = Interp(repo, _NoInline(), max_depth=1).run_function(fv, [Sym('value', 'str')], {}, self_val=ClassRef(sq))
    accept = [p for p in r if p.outcome == 'return']
    domain = [''] + [chr(c) for c in [10] + list(range(32, 127))] + ['a\nb c"\\']
    rejected = []
    for t in domain:
        verdicts = [all(_eval_str_cond(c, t) is b for c, b in p.conds) for p in accept]
        if not any(verdicts):
            rejected.append(t)
    chk.ob('R-GUARD', fv.qualname, bool(accept) and not rejected, 'every Michelson string (printable ASCII and newline) passes the validating constructor', fv.loc,
           {'accepting_paths': len(accept), 'conditions': [[(vrepr(c)[:80], b) for c, b in p.conds] for p in accept][:2], 'rejected_samples': [repr(x) for x in rejected[:5]]},
           what=f'StringType.from_value rejects admissible strings such as {[repr(x) for x in rejected[:3]]}: a value holding them is written but cannot be read back')
    outside = ['\u00e9', '\u2192', 'a\u00e9']
    leak = [t for t in outside if any(all(_eval_str_cond(c, t) is b for c, b in p.conds) for p in accept)]
    chk.ob('R-GUARD', fv.qualname, not leak, 'non-ASCII text is rejected by the validating constructor', fv.loc, {'accepted': [repr(x) for x in leak]},
           what=f'StringType.from_value accepts non-ASCII text {leak[:2]}, which is not a Michelson string')

    # ---- 2 totality of rendering ---------------------------------------------------------------------------------------------
    chk.set_clause('C11.2')
    q = TYPECLS['timestamp']
    tm = repo.find_method(q, 'to_micheline_value')
    it = Interp(repo, _TsHooks(repo, q), max_depth=4)
    res = it.run_method(tm, lambda: (Obj(q, {'value': Sym('ts', 'int')}), [], {'mode': 'readable'}))
    partial = [(e[2], e[3]) for p in res for e in p.events if isinstance(e, tuple) and e[0] == 'partial-call']
    guarded = True
    bounds = None
    for arg, conds in partial:
        lo = hi = None
        for c, b in conds:
            s = vrepr(c)
            if not (isinstance(c, App) and len(c.args) == 2):
                continue
            x, y = c.args
            # normalise  k <= ts / ts >= k / ts <= k / ...
            def is_ts(t):
                return isinstance(t, Sym) and t.name == 'ts'
            if is_ts(x) and isinstance(y, int):
                op, k = c.op, y
            elif is_ts(y) and isinstance(x, int):
                op, k = {'<': '>', '<=': '>=', '>': '<', '>=': '<='}.get(c.op, c.op), x
            else:
                continue
            if not b:
                op = {'<': '>=', '<=': '>', '>': '<=', '>=': '<'}.get(op, op)
            if op == '>=':
                lo = k if lo is None else max(lo, k)
            elif op == '>':
                lo = k + 1 if lo is None else max(lo, k + 1)
            elif op == '<=':
                hi = k if hi is None else min(hi, k)
            elif op == '<':
                hi = k - 1 if hi is None else min(hi, k - 1)
        bounds = (lo, hi)
        if lo is None or hi is None or lo < Y1000 or hi > Y9999_END:
            guarded = False
    # both optimized modes write the integer: `legacy_optimized` is the mode big_map key hashes and PACK use, a text there changes every hash
    for mode_ in ('optimized', 'legacy_optimized'):
        rm = Interp(repo, _TsHooks(repo, q), max_depth=4).run_method(tm, lambda mode_=mode_: (Obj(q, {'value': Sym('ts', 'int')}), [], {'mode': mode_}))
        kinds = sorted({kind_of(p.value) if p.outcome == 'return' else p.outcome for p in rm})
        chk.ob('R-DISPATCH', tm.qualname, kinds == ['int'], f'timestamp in mode {mode_} is written as an int literal', tm.loc, {'renderings': kinds},
               what=f'a timestamp is rendered as {kinds} in mode {mode_}; Tezos packs / hashes timestamps as integers: PACK and the key hash of a big_map with timestamp '
                    'keys differ from the chain')
    chk.ob('R-EXC', tm.qualname, bool(partial) and guarded, 'datetime rendering only for timestamps of the years 1000-9999', tm.loc,
           {'partial_calls': len(partial), 'guard_bounds': bounds, 'needed': [Y1000, Y9999_END]},
           what='readable rendering calls datetime.fromtimestamp on an unbounded integer: timestamps beyond year 9999 (or before year 1) raise, years 1-999 render '
                'unpadded and do not parse back; Tezos renders out-of-range timestamps as integers')
    fallback = [p for p in res if p.outcome == 'return' and isinstance(p.value, dict) and 'int' in p.value]
    chk.ob('R-EXC', tm.qualname, bool(fallback) and all(vrepr(p.value['int']) == 'str($ts)' for p in fallback), 'out-of-range timestamps are written as int literals', tm.loc,
           {'returns': sorted({kind_of(p.value) for p in res if p.outcome == 'return'})}, what='there is no integer fallback for timestamps that cannot be rendered as RFC3339')
    chk.ob('R-EXC', tm.qualname, all(p.outcome == 'return' for p in res), 'readable rendering never fails', tm.loc, {'outcomes': sorted({p.outcome for p in res})},
           what='readable rendering of a timestamp can raise')

    # ---- memory across calls (shared rule, sa/statelint.py) ----------------------------------------------------------------------------------
    chk.set_clause('C11.M')
    from ..statelint import check_memory
    check_memory(repo, chk, ['pytezos.michelson.types.'],
                 'a value parsed at one type is rebuilt with the type remembered from an earlier parse')


class _TsHooks(RTHooks):
    def inline(self, it, fi):
        return fi.name in ('to_micheline_value', 'format_timestamp')

    def call(self, it, callee, args, kwargs, node):
        if isinstance(callee, App) and callee.op == 'attr' and callee.args[1] == 'strftime':
            return App('rfc3339', callee.args[0])
        if isinstance(callee, FuncRef) and callee.fi is not None and callee.fi.name == 'format_timestamp':
            return NotImplemented
        return super().call(it, callee, args, kwargs, node)


def controls(chk: Check) -> None:
    if kind_of({'prim': 'Pair', 'args': [1, 2]}) != 'Pair/2' or kind_of({'int': '1'}) != 'int':
        raise AnalysisError('kind normaliser control failed')
