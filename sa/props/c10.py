"""C10 Addresses, keys, key hashes, signatures and chain ids survive binary form (dispatch clauses).

 1 R-DISPATCH forge_address x unforge_address on byte patterns: every pattern the writer can emit (22-byte address
   forms, 21-byte key-hash forms) is read back as the same kind for ALL values of the free hash bytes.
 2 R-PAIR forge_public_key x unforge_public_key; forge_contract x unforge_contract (split at 22, '%').
 3 blind_unpack on every emitted pattern picks the right reader.
 4 signature / chain id: the reader has a table row for every payload length the writer can produce.
"""
from __future__ import annotations

import ast
from typing import Any, Dict, List

from ..absint import App, Builtin, ClassRef, ExcVal, FuncRef, Hooks, Interp, ModRef, Obj, Raised, Sym, vrepr
from ..bytepat import Pat, PatHooks
from ..model import AnalysisError, NotConstant, Repo, dotted, norm
from ..report import Check
from .c09 import table

FORGE = 'pytezos.michelson.forge'
ENC = 'pytezos.crypto.encoding'
TYPES = 'pytezos.michelson.types'

REF_ADDRESS = {  # Tezos Contract_repr / Destination_repr binary encoding (22 bytes)
    'tz1': ('00 00', ''), 'tz2': ('00 01', ''), 'tz3': ('00 02', ''), 'tz4': ('00 03', ''),
    'KT1': ('01', '00'), 'txr1': ('02', '00'), 'sr1': ('03', '00'),
}
REF_KEY = {'edpk': 0, 'sppk': 1, 'p2pk': 2, 'BLpk': 3}


class CodecHooks(PatHooks):
    def __init__(self, rows, kind=None, opaque_encode=False):
        super().__init__()
        self.rows = rows
        self.kind = kind  # ascii prefix of the abstract base58 string `value`
        self.by_ascii = {}
        for r in rows:
            self.by_ascii.setdefault(r[0].decode(), []).append(r)

    def inline(self, it, fi):
        return fi.module.name in (FORGE, 'pytezos.michelson.micheline') and fi.name not in ('unforge_micheline',)

    def row_for_value(self):
        # the row of the abstract input string (address/key rows are unique per ascii prefix except edsk)
        rows = [r for r in self.by_ascii.get(self.kind, [])]
        if len(rows) != 1:
            raise AnalysisError(f'kind {self.kind} has {len(rows)} table rows')
        return rows[0]

    def call(self, it, callee, args, kwargs, node):
        r = self.pat_call(it, callee, args, kwargs, node)
        if r is not NotImplemented:
            return r
        if isinstance(callee, FuncRef) and callee.fi is not None and callee.fi.qualname == f'{ENC}.base58_encode':
            v = args[0] if args else kwargs.get('v')
            prefix = args[1] if len(args) > 1 else kwargs.get('prefix')
            if isinstance(v, Pat) and isinstance(prefix, bytes):
                if any(r[0] == prefix and r[3] == len(v) for r in self.rows):
                    return App('b58', v, prefix)
                raise Raised(ExcVal('ValueError', ('no row', prefix, len(v))))
            return App('b58?', v, prefix)
        if isinstance(callee, FuncRef) and callee.fi is not None and callee.fi.qualname == f'{ENC}.base58_decode':
            return App('call:base58_decode', *args)
        if isinstance(callee, FuncRef) and callee.fi is not None and callee.fi.name == 'unforge_micheline':
            # free bytes may or may not be a complete Micheline node: both outcomes (a decoded expression / a rejection)
            if it.choose(2) == 0:
                return Sym('micheline-expression')
            raise Raised(ExcVal('ValueError', ('not a Micheline node',)))
        if isinstance(callee, FuncRef) and callee.fi is not None and callee.fi.name == 'micheline_value_to_python_object' and args and isinstance(args[0], Sym):
            return App('python-object-of', args[0])
        if isinstance(callee, ModRef) and callee.name == 'base58.b58decode_check' and args and isinstance(args[0], Sym):
            row = self.row_for_value()
            return Pat.const(row[2]) + Pat.free('H', row[3])
        if isinstance(callee, App) and callee.op == 'attr' and isinstance(callee.args[0], Sym) and callee.args[0].name == 'value':
            if callee.args[1] == 'startswith' and isinstance(args[0], str):
                k = self.kind
                if k.startswith(args[0]):
                    return True
                if args[0].startswith(k):
                    return App('value-tail', args[0])
                return False
        return NotImplemented

    def subscript(self, it, obj, idx, node):
        if isinstance(obj, Sym) and obj.name == 'value' and isinstance(idx, slice) and idx.start is None and isinstance(idx.stop, int):
            if idx.stop <= len(self.kind):
                return self.kind[: idx.stop]
            return App('value-head', idx.stop)
        return super().subscript(it, obj, idx, node)


def _outcomes(hooks, res):
    out = []
    for p in res:
        if p.outcome == 'raise':
            out.append(('raise', p.value.cls, p.cond_repr()))
        else:
            out.append(('return', p.value, p.cond_repr()))
    return out


def _is_b58(v, name, n, prefix):
    """mcall:decode(b58(<whole free var>, prefix))"""
    return (isinstance(v, App) and v.op == 'mcall:decode' and isinstance(v.args[0], App) and v.args[0].op == 'b58'
            and isinstance(v.args[0].args[0], Pat) and v.args[0].args[0].is_whole_free(name, n) and v.args[0].args[1] == prefix)


def run(repo: Repo, chk: Check) -> None:
    chk.explanation = (
        'Writer and reader of the optimized byte forms are interpreted over byte patterns (constant bytes + free bytes of known '
        'count).  For every pattern the writer emits, every path of the reader (forking on the free bytes whenever a guard '
        'overlaps them) must return the original kind with the whole free payload; a path that returns another kind, a truncated '
        'payload or raises is reported with the byte constraint under which it happens.  Decides dispatch for all values of the '
        'free bytes; does not decide base58/checksum arithmetic.'
    )
    rows = table(repo)
    fa, ua = repo.func(f'{FORGE}.forge_address'), repo.func(f'{FORGE}.unforge_address')

    # address kinds come from the validators that is_address / is_txr_address accept
    kinds = ['tz1', 'tz2', 'tz3', 'tz4', 'KT1', 'sr1', 'txr1']
    have = {r[0].decode() for r in rows}
    chk.require(all(k in have for k in kinds), 'address kinds missing from base58 table')

    # ---- 1 addresses -------------------------------------------------------------------------------------------
    chk.set_clause('C10.1')
    emitted: Dict[str, Pat] = {}
    for k in kinds:
        for tz_only in (False, True):
            if tz_only and not k.startswith('tz'):
                continue
            hooks = CodecHooks(rows, kind=k)
            res = Interp(repo, hooks, max_depth=2).run_function(fa, [Sym('value', 'str')], {'tz_only': tz_only})
            cname = f'{FORGE}.forge_address'
            rets = [p for p in res if p.outcome == 'return']
            head, tail = REF_ADDRESS[k]
            want = Pat.const(bytes.fromhex(head.replace(' ', ''))) + Pat.free('H', 20) + bytes.fromhex(tail)
            if tz_only:
                want = want.slice(slice(1, None))
            ok = len(res) == 1 and len(rets) == 1 and isinstance(rets[0].value, Pat) and rets[0].value == want
            chk.ob('R-TEMPLATE', cname, ok, f'kind={k} tz_only={tz_only}', fa.loc,
                   {'emitted': [vrepr(p.value) for p in res], 'reference': want.describe()},
                   what=f'{k} is not written as {want.describe()}')
            # the reader is checked against the reference pattern even when the writer deviates
            emitted[f'{k}/{21 if tz_only else 22}'] = want
    chk.minimum('emitted address patterns', len(emitted), 11)
    # unknown kind is rejected by the writer
    hooks = CodecHooks(rows + [(b'zz9', 36, b'\x01\x02\x03', 20, 'x')], kind='zz9')
    res = Interp(repo, hooks, max_depth=2).run_function(fa, [Sym('value', 'str')], {})
    chk.ob('R-PATH', f'{FORGE}.forge_address', all(p.outcome == 'raise' and p.value.cls == 'ValueError' for p in res),
           'unknown kind rejected', fa.loc, what='an address of an unknown kind is encoded instead of rejected')

    for key, pat in emitted.items():
        k = key.split('/')[0]
        hooks = CodecHooks(rows)
        it = Interp(repo, hooks, max_depth=2)
        res = it.run_function(ua, [pat])
        bad = []
        for p in res:
            if p.outcome == 'return' and _is_b58(p.value, 'H', 20, k.encode()):
                continue
            bad.append({'under': p.cond_repr() or 'always', 'outcome': p.outcome,
                        'value': vrepr(p.value) if p.outcome == 'return' else p.value.cls})
        chk.ob('R-DISPATCH', f'{FORGE}.unforge_address', not bad, f'reads back {key}', ua.loc,
               {'pattern': pat.describe(), 'paths': len(res), 'wrong_paths': bad[:4]},
               what=f'the {key.split("/")[1]}-byte form of {k} ({pat.describe()}) is not read back as {k} for all hash bytes: {bad[:2]}')
    # callers of unforge_address and the byte length they can feed (informational + anchors)
    callers = []
    for fi in repo.iter_functions('pytezos.michelson'):
        # (a use: called directly, or handed to a table / functools.partial that calls it)
        for c in [n for n in ast.walk(fi.node) if isinstance(n, (ast.Name, ast.Attribute)) and isinstance(getattr(n, 'ctx', None), ast.Load)]:
            d = dotted(c)
            if d and repo.canonical(repo.resolve_name(fi.module, d)) == repo.canonical(f'{FORGE}.unforge_address'):
                callers.append(fi.qualname)
    chk.note('unforge_address_callers', sorted(set(callers)))
    chk.require(any('KeyHashType' in c for c in callers), 'KeyHashType no longer calls unforge_address: 21-byte call site moved')
    chk.require(any(c.endswith('unforge_contract') for c in callers), 'unforge_contract no longer calls unforge_address')

    # ---- 2 public keys, contracts -------------------------------------------------------------------------------
    chk.set_clause('C10.2')
    fpk, upk = repo.func(f'{FORGE}.forge_public_key'), repo.func(f'{FORGE}.unforge_public_key')
    for k, tag in REF_KEY.items():
        row = [r for r in rows if r[0].decode() == k]
        chk.require(len(row) == 1, f'public key kind {k}: expected one table row')
        n = row[0][3]
        hooks = CodecHooks(rows, kind=k)
        res = Interp(repo, hooks, max_depth=2).run_function(fpk, [Sym('value', 'str')])
        want = Pat.const(bytes([tag])) + Pat.free('H', n)
        ok = len(res) == 1 and res[0].outcome == 'return' and res[0].value == want
        chk.ob('R-TEMPLATE', fpk.qualname, ok, f'kind={k}', fpk.loc, {'emitted': [vrepr(p.value) for p in res], 'reference': want.describe()},
               what=f'{k} is not written as tag {tag:02x} + key bytes')
        res = Interp(repo, CodecHooks(rows), max_depth=2).run_function(upk, [want])
        bad = [(p.outcome, vrepr(p.value), p.cond_repr()) for p in res if not (p.outcome == 'return' and _is_b58(p.value, 'H', n, k.encode()))]
        chk.ob('R-DISPATCH', upk.qualname, not bad and bool(res), f'reads back {k}', upk.loc, {'wrong_paths': bad[:3]},
               what=f'optimized {k} is not read back as {k}: {bad[:2]}')
    # the typed value is built through KeyType.from_value, which asks is_public_key: every kind the codec reads back must be in its prefix list
    from ..validators import validator_prefixes as _vp
    accepted = _vp(repo, 'is_public_key')
    chk.require(accepted is not None, 'prefix list of is_public_key not found')
    isk = repo.func('pytezos.crypto.encoding.is_public_key')
    for k in REF_KEY:
        chk.ob('R-TABLE', isk.qualname, k.encode() in accepted, f'{k} is accepted as a public key', isk.loc, {'accepted': [a.decode() for a in accepted]},
               what=f'is_public_key does not list {k}: the optimized form of such a key is read back by unforge_public_key but refused by KeyType.from_value, so it does not survive binary form')
    res = Interp(repo, CodecHooks(rows + [(b'zzpk', 54, b'\x01\x02\x03\x04', 32, 'x')], kind='zzpk'), max_depth=2).run_function(
        fpk, [Sym('value', 'str')])
    chk.ob('R-PATH', fpk.qualname, all(p.outcome == 'raise' for p in res), 'unknown kind rejected', fpk.loc,
           what='a key of unknown kind is encoded')
    # contracts
    fc, uc = repo.func(f'{FORGE}.forge_contract'), repo.func(f'{FORGE}.unforge_contract')
    for ep_len in (0, 1, 2, 5):  # an entrypoint name may be a single character
        has_ep = ep_len > 0
        data = Pat.const(b'\x01') + Pat.free('H', 20) + b'\x00' + (Pat.free('E', ep_len) if has_ep else Pat(()))
        res = Interp(repo, _ContractReadHooks(rows), max_depth=1).run_function(uc, [data])
        ok = len(res) == 1 and res[0].outcome == 'return'
        v = res[0].value if ok else None
        if has_ep:
            ok = ok and isinstance(v, App) and v.op == 'cat' and len(v.args) == 3 and v.args[1] == '%' \
                and isinstance(v.args[0], App) and v.args[0].args and isinstance(v.args[0].args[0], Pat) \
                and v.args[0].args[0] == data.slice(slice(0, 22)) \
                and isinstance(v.args[2], App) and v.args[2].op in ('fmt', 'decode')
            if ok:
                inner = v.args[2].args[0]
                inner = inner.args[0] if isinstance(inner, App) and inner.op == 'decode' else inner
                ok = isinstance(inner, Pat) and inner.is_whole_free('E', ep_len)
        else:
            ok = ok and isinstance(v, App) and v.op.endswith('unforge_address') and v.args[0] == data
        chk.ob('R-TEMPLATE', uc.qualname, ok, f'entrypoint of {ep_len} byte(s)', uc.loc, {'result': vrepr(v)},
               what='contract bytes are not split as 22-byte address + utf-8 entrypoint joined with %')
    for nparts in (1, 2):
        for ep_default in ((False, True) if nparts == 2 else (False,)):
            hooks = _ContractWriteHooks(nparts, ep_default)
            res = Interp(repo, hooks, max_depth=1).run_function(fc, [Sym('value', 'str')])
            ok = len(res) == 1 and res[0].outcome == 'return'
            v = res[0].value if ok else None
            addr = App(f'call:{FORGE}.forge_address', Sym('addr'))
            if nparts == 2 and not ep_default:
                want: Any = App('cat', addr, App('mcall:encode', Sym('ep')))
            else:
                want = addr
            ok = ok and vrepr(v) == vrepr(want)
            chk.ob('R-TEMPLATE', fc.qualname, ok, f'parts={nparts} default={ep_default}', fc.loc, {'result': vrepr(v), 'reference': vrepr(want)},
                   what='contract value is not written as address bytes + entrypoint (default omitted)')

    # ---- 3 blind_unpack ----------------------------------------------------------------------------------------
    chk.set_clause('C10.3')
    bu = repo.func('pytezos.michelson.micheline.blind_unpack')
    cases = dict(emitted)
    for k, tag in REF_KEY.items():
        n = [r for r in rows if r[0].decode() == k][0][3]
        cases[f'{k}/{n + 1}'] = Pat.const(bytes([tag])) + Pat.free('H', n)
    cases['Net/4'] = Pat.free('H', 4)
    cases['sig/64'] = Pat.free('H', 64)
    for key, pat in cases.items():
        k = key.split('/')[0]
        if k == 'txr1':
            continue  # deprecated kind: not an `address` value any more
        n = len([c for c in pat.cells if isinstance(c, tuple)])
        res = Interp(repo, CodecHooks(rows), max_depth=3).run_function(bu, [pat])
        bad = []
        for p in res:
            if p.outcome == 'return' and _is_b58(p.value, 'H', n, k.encode()):
                continue
            bad.append({'under': p.cond_repr() or 'always', 'outcome': p.outcome,
                        'value': vrepr(p.value) if p.outcome == 'return' else p.value.cls})
        # a chain id (4 free bytes) or signature (64 free bytes) can coincide with nothing else by length
        chk.ob('R-DISPATCH', bu.qualname, not bad and bool(res), f'blind read of {key}', bu.loc,
               {'pattern': pat.describe(), 'paths': len(res), 'wrong_paths': bad[:3]},
               what=f'blind_unpack mistakes {key} ({pat.describe()}) for something else: {bad[:2]}')

    # ---- 4 signature / chain id lengths --------------------------------------------------------------------------
    chk.set_clause('C10.4')
    emi = repo.module(ENC)
    for reader, validator in ((f'{FORGE}.unforge_signature', 'validate_sig'), (f'{FORGE}.unforge_chain_id', 'is_chain_id')):
        vf = repo.func(f'{ENC}.{validator}')
        pl = None
        for c in [n for n in ast.walk(vf.node) if isinstance(n, ast.Call)]:
            for kw in c.keywords:
                if kw.arg == 'prefixes':
                    pl = repo.fold(kw.value, emi)
        chk.require(pl, f'{validator}: prefix list not found')
        lens = sorted({r[3] for r in rows if r[0] in pl})
        rf = repo.func(reader)
        for n in lens:
            res = Interp(repo, CodecHooks(rows), max_depth=1).run_function(rf, [Pat.free('H', n)])
            good = bool(res) and all(
                p.outcome == 'return' and isinstance(p.value, App) and p.value.op == 'mcall:decode'
                and isinstance(p.value.args[0], App) and p.value.args[0].op == 'b58' and p.value.args[0].args[0].is_whole_free('H', n)
                for p in res)
            chk.ob('R-PAIR', reader, good, f'payload of {n} bytes readable', rf.loc,
                   {'writer_kinds': [p.decode() for p in pl], 'outcomes': [(p.outcome, vrepr(p.value)) for p in res]},
                   what=f'a {n}-byte value accepted by {validator} and written by forge_base58 cannot be read back (no table row): '
                        f'{[(p.outcome, vrepr(p.value)) for p in res][:2]}')
    chk.note('patterns', {k: v.describe() for k, v in cases.items()})

    # ---- 5 the value an address type keeps: `address%entrypoint` as given, except that the entrypoint `default` (and only that name) is dropped;
    #        the address part alone is what the base58 validators see -----------------------------------------------------------------------
    chk.set_clause('C10.5')
    from ..absint import cat as _cat

    class AddrHooks(Hooks):
        def inline(self, it, fi):
            return fi.name in ('from_value', 'is_address', 'is_txr_address')

        @staticmethod
        def segs(v):
            return list(v.args) if isinstance(v, App) and v.op == 'cat' else [v]

        def isinstance(self, it, obj, classes):
            from ..absint import Builtin
            names = {c.name for c in classes if isinstance(c, Builtin)}
            if isinstance(obj, Sym) or (isinstance(obj, App) and obj.op == 'cat'):
                return 'str' in names
            return NotImplemented

        def call(self, it, callee, args, kwargs, node):
            if isinstance(callee, App) and callee.op == 'attr':
                recv, name = callee.args
                ss = self.segs(recv)
                if name == 'endswith' and isinstance(args[0], str) and (isinstance(recv, Sym) or (isinstance(recv, App) and recv.op == 'cat')):
                    last = ss[-1]
                    if isinstance(last, str):
                        if len(args[0]) <= len(last):
                            return last.endswith(args[0])
                        return False if not last.endswith(args[0][-len(last):]) else App('endswith?', recv, args[0])
                    return False  # a bare base58 address does not end with an entrypoint name
                if name in ('split', 'partition', 'rsplit') and args and args[0] == '%' and (isinstance(recv, Sym) or (isinstance(recv, App) and recv.op == 'cat')):
                    if len(ss) == 1:
                        return [recv] if name != 'partition' else (recv, '', '')
                    if len(ss) == 2 and isinstance(ss[1], str) and ss[1].startswith('%') and '%' not in ss[1][1:]:
                        return [ss[0], ss[1][1:]] if name != 'partition' else (ss[0], '%', ss[1][1:])
                    raise AnalysisError('C10.5: split of an address shape that is not modelled')
                if name == 'decode' and isinstance(recv, Sym):
                    return recv
            if isinstance(callee, FuncRef) and callee.fi is not None and callee.fi.module.name == ENC and callee.fi.name.startswith(('is_', 'validate_')) \
                    and callee.fi.name not in ('is_address', 'is_txr_address'):
                it.event('validated', callee.fi.name, args[0])
                return callee.fi.name in ('is_sr', 'is_l2_pkh')  # the last alternative succeeds: every validator of the chain is reached
            if isinstance(callee, ClassRef) and callee.qual.endswith(('AddressType', 'TXRAddress')):
                return Obj(callee.qual, {'value': args[0] if args else kwargs.get('value')})
            return NotImplemented

    naddr = 0
    for cq in (f'{TYPES}.domain.AddressType', f'{TYPES}.domain.TXRAddress'):
        fv = repo.find_method(cq, 'from_value')
        if fv is None:
            continue
        for ep in (None, 'default', 'set_default', 'nodefault', 'x', 'default_'):
            value = Sym('addr', 'str') if ep is None else _cat(Sym('addr', 'str'), '%' + ep)
            want = Sym('addr', 'str') if ep in (None, 'default') else value
            res = Interp(repo, AddrHooks(), max_depth=3).run_function(fv, [value], self_val=ClassRef(cq))
            rets = [p for p in res if p.outcome == 'return' and isinstance(p.value, Obj)]
            kept = sorted({vrepr(p.value.fields.get('value')) for p in rets})
            seen = sorted({vrepr(e[2]) for p in res for e in p.events if isinstance(e, tuple) and e[0] == 'validated'})
            naddr += 1
            chk.ob('R-FLOW', fv.qualname, bool(rets) and len(rets) == len(res) and kept == [vrepr(want)] and seen == ['$addr'],
                   f'{cq.rsplit(".", 1)[-1]} value `address{"%" + ep if ep else ""}`: kept as {"the bare address" if ep in (None, "default") else "given"}, validators see the address part', fv.loc,
                   {'kept': kept, 'validators_saw': seen, 'outcomes': [p.outcome for p in res]},
                   what=f'{cq.rsplit(".", 1)[-1]}.from_value on `address{"%" + ep if ep else ""}` keeps {kept} (expected {vrepr(want)}) and validates {seen} (expected the address part): '
                        'an entrypoint is dropped / kept wrongly, or a validator is handed the string with its %entrypoint and rejects a valid address')
    chk.minimum('address value shapes', naddr, 6)


class _ContractReadHooks(CodecHooks):
    def inline(self, it, fi):
        return fi.name == 'unforge_contract'


class _ContractWriteHooks(Hooks):
    def __init__(self, nparts, ep_default):
        self.nparts = nparts
        self.ep_default = ep_default

    def inline(self, it, fi):
        return fi.name == 'forge_contract'

    def call(self, it, callee, args, kwargs, node):
        if isinstance(callee, App) and callee.op == 'attr' and isinstance(callee.args[0], Sym) and callee.args[0].name == 'value' \
                and callee.args[1] == 'split' and args == ['%']:
            return [Sym('addr', 'str')] + ([Sym('ep', 'str')] if self.nparts == 2 else [])
        return NotImplemented

    def compare(self, it, op, a, b, node):
        if op in ('==', '!=') and {type(a), type(b)} == {Sym, str}:
            s, c = (a, b) if isinstance(a, Sym) else (b, a)
            if s.name == 'ep' and c == 'default':
                return self.ep_default if op == '==' else not self.ep_default
        return NotImplemented


def controls(chk: Check) -> None:
    from ..bytepat import Store

    p = Pat.const(b'\x00') + Pat.free('H', 20)
    st = Store()
    need = p.match(b'\x00\x01', 0, st)
    if not isinstance(need, dict) or need != {('H', 0): 1}:
        raise AnalysisError('positive control of the byte-pattern matcher failed')
    if p.match(b'\x01', 0, st) is not False or p.match(b'\x00', 0, st) is not True:
        raise AnalysisError('positive control of the byte-pattern matcher failed')
