"""C19 Macro expansions have their specified Michelson meaning.

 1 name grammar: over a universe of well-formed macro names of every family plus their one-edit neighbours, a name is accepted
   by exactly one registered pattern iff the reference grammar accepts it (malformed PAIR/UNPAIR tree names included)
 2 expansion: expand_macro is interpreted for every well-formed name of the universe (arguments and annotations opaque) and the
   expansion is compared, by EFFECT on a symbolic stack under the checker's own semantics of the target subset (sa/mich.py), with
   the reference expansion of the Michelson documentation
 3 every UNPAIR tree macro undoes the matching PAIR tree macro (composition is the identity on the symbolic stack)
"""
from __future__ import annotations

import ast
import itertools
import re
from typing import Any, Dict, List, Optional, Tuple

from .. import mich
from ..absint import App, Builtin, FuncRef, Hooks, Interp, Sym, vrepr
from ..model import AnalysisError, Repo, dotted
from ..report import Check

M = 'pytezos.michelson.macros'
OPS = ['EQ', 'NEQ', 'LT', 'GT', 'LE', 'GE']


# ----------------------------------------------------------------------------------------------- reference
def P(prim, *args, **kw):
    d: Dict[str, Any] = {'prim': prim}
    if args:
        d['args'] = list(args)
    return d


FAIL = [P('UNIT'), P('FAILWITH')]


def I(n):
    return {'int': str(n)}


def ref_cxr(letters: str) -> List[Any]:
    return [P('CAR') if c == 'A' else P('CDR') for c in letters]


def ref_set_cxr(letters: str) -> List[Any]:
    if letters == 'A':
        return [P('CDR'), P('SWAP'), P('PAIR')]
    if letters == 'D':
        return [P('CAR'), P('PAIR')]
    if letters[0] == 'A':
        return [P('DUP'), P('DIP', [P('CAR')] + ref_set_cxr(letters[1:])), P('CDR'), P('SWAP'), P('PAIR')]
    return [P('DUP'), P('DIP', [P('CDR')] + ref_set_cxr(letters[1:])), P('CAR'), P('PAIR')]


def ref_map_cxr(letters: str, code) -> List[Any]:
    if letters == 'A':
        return [P('DUP'), P('CDR'), P('DIP', [P('CAR'), code]), P('SWAP'), P('PAIR')]
    if letters == 'D':
        return [P('DUP'), P('CDR'), code, P('SWAP'), P('CAR'), P('PAIR')]
    if letters[0] == 'A':
        return [P('DUP'), P('DIP', [P('CAR')] + ref_map_cxr(letters[1:], code)), P('CDR'), P('SWAP'), P('PAIR')]
    return [P('DUP'), P('DIP', [P('CDR')] + ref_map_cxr(letters[1:], code)), P('CAR'), P('PAIR')]


def parse_tree(name: str) -> Optional[Any]:
    """P-tree of a PAIR macro name (without the final R): ('P', left, right) | 'leaf'; None if malformed."""

    def tree(s, i, leaf):
        if i >= len(s):
            return None, i
        if s[i] == 'P':
            l, j = tree(s, i + 1, 'A')
            if l is None:
                return None, j
            r, k = tree(s, j, 'I')
            if r is None:
                return None, k
            return ('P', l, r), k
        if s[i] == leaf:
            return 'leaf', i + 1
        return None, i

    if not name.endswith('R'):
        return None
    t, j = tree(name[:-1], 0, '?')
    if t is None or t == 'leaf' or j != len(name) - 1:
        return None
    return t


def leaves(t) -> int:
    return 1 if t == 'leaf' else leaves(t[1]) + leaves(t[2])


def all_trees(nleaves: int):
    if nleaves == 1:
        return ['leaf']
    out = []
    for k in range(1, nleaves):
        for l in all_trees(k):
            for r in all_trees(nleaves - k):
                out.append(('P', l, r))
    return out


def tree_name(t, leaf) -> str:
    return leaf if t == 'leaf' else 'P' + tree_name(t[1], 'A') + tree_name(t[2], 'I')


def tree_value(t, stack: List[Any]) -> Tuple[Any, List[Any]]:
    if t == 'leaf':
        return stack[0], stack[1:]
    l, rest = tree_value(t[1], stack)
    r, rest = tree_value(t[2], rest)
    return mich.pair(l, r), rest


def reference(name: str, bt, bf, code) -> Optional[Any]:
    """Reference expansion (Micheline) or ('effect', function) for tree macros; None if `name` is not a macro."""
    m = re.fullmatch(r'CMP(EQ|NEQ|LT|GT|LE|GE)', name)
    if m:
        return [P('COMPARE'), P(m.group(1))]
    m = re.fullmatch(r'IF(EQ|NEQ|LT|GT|LE|GE)', name)
    if m:
        return [P(m.group(1)), P('IF', bt, bf)]
    m = re.fullmatch(r'IFCMP(EQ|NEQ|LT|GT|LE|GE)', name)
    if m:
        return [P('COMPARE'), P(m.group(1)), P('IF', bt, bf)]
    if name == 'FAIL':
        return FAIL
    if name == 'ASSERT':
        return [P('IF', [], FAIL)]
    m = re.fullmatch(r'ASSERT_(EQ|NEQ|LT|GT|LE|GE)', name)
    if m:
        return [P(m.group(1)), P('IF', [], FAIL)]
    m = re.fullmatch(r'ASSERT_CMP(EQ|NEQ|LT|GT|LE|GE)', name)
    if m:
        return [P('COMPARE'), P(m.group(1)), P('IF', [], FAIL)]
    if name == 'ASSERT_NONE':
        return [P('IF_NONE', [], FAIL)]
    if name == 'ASSERT_SOME':
        return [P('IF_NONE', FAIL, [])]
    if name == 'ASSERT_LEFT':
        return [P('IF_LEFT', [], FAIL)]
    if name == 'ASSERT_RIGHT':
        return [P('IF_LEFT', FAIL, [])]
    if name == 'IF_SOME':
        return [P('IF_NONE', bf, bt)]
    if name == 'IF_RIGHT':
        return [P('IF_LEFT', bf, bt)]
    m = re.fullmatch(r'D(II+)P', name)
    if m:
        return [P('DIP', I(len(m.group(1))), code)]
    m = re.fullmatch(r'D(UU+)P', name)
    if m:
        return [P('DUP', I(len(m.group(1))))]
    m = re.fullmatch(r'C([AD]{2,})R', name)
    if m:
        return ref_cxr(m.group(1))
    m = re.fullmatch(r'SET_C([AD]+)R', name)
    if m:
        return ref_set_cxr(m.group(1))
    m = re.fullmatch(r'MAP_C([AD]+)R', name)
    if m:
        return ref_map_cxr(m.group(1), code)
    if name.startswith('UNP'):
        t = parse_tree(name[2:])
        if t is not None and name[2:] != 'PAIR':
            return ('untree', t)
        return None
    if name.startswith('P'):
        t = parse_tree(name)
        if t is not None and name != 'PAIR':
            return ('tree', t)
    return None


def arity(name: str) -> str:
    if re.fullmatch(r'IF(CMP)?(EQ|NEQ|LT|GT|LE|GE)|IF_SOME|IF_RIGHT', name):
        return 'branches'
    if re.fullmatch(r'D(II+)P|MAP_C[AD]+R', name):
        return 'code'
    return 'none'


# ----------------------------------------------------------------------------------------------- repo side
class MacroHooks(Hooks):
    def __init__(self, registry):
        self.registry = registry

    def inline(self, it, fi):
        return fi.module.name == M

    def name(self, it, name, node):
        if name == 'macros':
            return [(App('regex', pat), FuncRef(fi, module=fi.module)) for pat, fi in self.registry]
        return NotImplemented

    def call(self, it, callee, args, kwargs, node):
        if isinstance(callee, App) and callee.op == 'attr' and isinstance(callee.args[0], App) and callee.args[0].op == 'regex':
            pat = callee.args[0].args[0]
            if callee.args[1] == 'findall' and isinstance(args[0], str):
                return re.compile(pat).findall(args[0])  # the standard library's regexp semantics on two constants
        return NotImplemented

    def truth(self, it, term):
        if isinstance(term, Sym):
            return True
        return None


def registry_of(repo: Repo):
    mi = repo.module(M)
    out = []
    for node in mi.tree.body:
        if isinstance(node, ast.FunctionDef):
            for d in node.decorator_list:
                if isinstance(d, ast.Call) and dotted(d.func) == 'macro' and d.args and isinstance(d.args[0], ast.Constant):
                    out.append((d.args[0].value, repo.func(f'{M}.{node.name}')))
    return out


def universe() -> List[str]:
    names = []
    for op in OPS:
        names += [f'CMP{op}', f'IF{op}', f'IFCMP{op}', f'ASSERT_{op}', f'ASSERT_CMP{op}']
    names += ['FAIL', 'ASSERT', 'ASSERT_NONE', 'ASSERT_SOME', 'ASSERT_LEFT', 'ASSERT_RIGHT', 'IF_SOME', 'IF_RIGHT']
    names += ['D' + 'I' * n + 'P' for n in range(2, 6)] + ['D' + 'U' * n + 'P' for n in range(2, 6)]
    for n in (2, 3, 4):
        names += ['C' + ''.join(c) + 'R' for c in itertools.product('AD', repeat=n)]
    for n in (1, 2, 3):
        names += ['SET_C' + ''.join(c) + 'R' for c in itertools.product('AD', repeat=n)]
        names += ['MAP_C' + ''.join(c) + 'R' for c in itertools.product('AD', repeat=n)]
    for nl in (3, 4, 5):
        for t in all_trees(nl):
            nm = tree_name(t, '?') + 'R'
            names += [nm, 'UN' + nm]
    return sorted(set(names))


def neighbours(name: str) -> List[str]:
    out = set()
    alpha = 'ADIPURC_EQ'
    for i in range(len(name)):
        out.add(name[:i] + name[i + 1:])
        out.add(name[:i] + name[i] + name[i:])
        for ch in alpha:
            out.add(name[:i] + ch + name[i + 1:])
    out.discard(name)
    return sorted(out)


def run(repo: Repo, chk: Check) -> None:
    chk.explanation = (
        'The registered macro patterns are read from the @macro decorators.  A universe of well-formed names of every family '
        '(all operators, depths 2-5, C[AD]{2,4}R, SET_/MAP_ up to three letters, every PAIR/UNPAIR tree with up to five leaves) and '
        'their one-edit neighbours is classified by the patterns and by the reference grammar.  expand_macro is interpreted for '
        'every well-formed name with opaque arguments; the expansion and the reference expansion are run on a symbolic stack under '
        'the checker\'s own semantics of the target instructions and their outcome terms compared.  Bounded in name size.'
    )
    reg = registry_of(repo)
    chk.minimum('registered macro patterns', len(reg), 10)  # handlers may be merged or split; what counts is the classification of the name universe below
    prim_tags = repo.const('pytezos.michelson.tags.prim_tags')
    em = repo.func(f'{M}.expand_macro')
    bt, bf, code = Sym('bt'), Sym('bf'), Sym('code')
    uni = universe()
    chk.note('universe', len(uni))

    # ---- 1 name grammar ---------------------------------------------------------------------------------------------
    chk.set_clause('C19.1')
    compiled = [(re.compile(p), fi) for p, fi in reg]
    cand = set(uni)
    for n in uni:
        if len(n) <= 9:
            cand |= set(neighbours(n))
    wrongly_accepted: Dict[str, List[str]] = {}
    wrongly_rejected: List[str] = []
    multi: List[str] = []
    for n in sorted(cand):
        if n in prim_tags or not n:
            continue
        hits = [fi.name for rx, fi in compiled if rx.findall(n)]
        is_macro = reference(n, bt, bf, code) is not None
        if is_macro and not hits:
            wrongly_rejected.append(n)
        if len(hits) > 1:
            multi.append(n)
        if not is_macro and hits:
            wrongly_accepted.setdefault(hits[0], []).append(n)
    chk.note('names_classified', len(cand))
    chk.ob('R-DISPATCH', f'{M}.expand_macro', not wrongly_rejected, 'every well-formed macro name is recognised', em.loc, {'rejected': wrongly_rejected[:8]},
           what=f'well-formed macro names are not recognised: {wrongly_rejected[:5]}')
    chk.ob('R-DISPATCH', f'{M}.expand_macro', not multi, 'no name matches two patterns', em.loc, {'ambiguous': multi[:8]}, what=f'names matching two patterns: {multi[:5]}')

    # names accepted by a pattern but not by the reference grammar: they must be rejected by the handler
    for handler, names in sorted(wrongly_accepted.items()):
        still = []
        for n in names[:40]:
            res = _expand(repo, reg, em, n, bt, bf, code)
            if any(p.outcome == 'return' for p in res):
                still.append(n)
        fi = repo.func(f'{M}.{handler}')
        chk.ob('R-DISPATCH', fi.qualname, not still, 'malformed names matching the pattern are rejected', fi.loc, {'accepted_malformed': still[:8], 'tried': len(names[:40])},
               what=f'names that are not macros of the reference grammar are silently expanded: {still[:5]} (e.g. a PAIR tree name with surplus or misplaced letters '
                    'is expanded like a shorter macro)')

    # ---- 2 expansions by effect ---------------------------------------------------------------------------------------
    chk.set_clause('C19.2')
    base = [Sym(f's{i}') for i in range(8)]
    fam_bad: Dict[str, List[Any]] = {}
    fam_n: Dict[str, int] = {}
    for n in uni:
        ref = reference(n, bt, bf, code)
        if ref is None:
            continue
        fam = re.sub(r'(EQ|NEQ|LT|GT|LE|GE)$', 'op', re.sub(r'C[AD]+R$', 'CxR', n))
        fam = 'D(I+)P' if re.fullmatch(r'DI+P', n) else 'D(U+)P' if re.fullmatch(r'DU+P', n) else fam
        if isinstance(ref, tuple):
            fam = 'UNPAIR trees' if ref[0] == 'untree' else 'PAIR trees'
        fam_n[fam] = fam_n.get(fam, 0) + 1
        res = _expand(repo, reg, em, n, bt, bf, code)
        if len(res) != 1 or res[0].outcome != 'return':
            fam_bad.setdefault(fam, []).append({'name': n, 'problem': [(p.outcome, vrepr(p.value)[:80]) for p in res]})
            continue
        expansion = res[0].value
        try:
            if isinstance(ref, tuple) and ref[0] == 'tree':
                k = leaves(ref[1])
                v, rest = tree_value(ref[1], base)
                want = ('stack', [v] + rest)
                got = mich.run(expansion, base)
            elif isinstance(ref, tuple) and ref[0] == 'untree':
                v, rest = tree_value(ref[1], base)
                want = ('stack', base)
                got = mich.run(expansion, [v] + rest)
            else:
                want = mich.run(ref, base)
                got = mich.run(expansion, base)
        except mich.Stuck as e:
            fam_bad.setdefault(fam, []).append({'name': n, 'problem': f'outside the modelled subset: {e}'})
            continue
        if got != want:
            fam_bad.setdefault(fam, []).append({'name': n, 'expansion_effect': mich.show(got)[:200], 'reference_effect': mich.show(want)[:200]})
    for fam in sorted(fam_n):
        bad = fam_bad.get(fam, [])
        chk.ob('R-TEMPLATE', f'{M}.expand_macro', not bad, f'family {fam}: {fam_n[fam]} names expand to the reference effect', em.loc,
               {'names': fam_n[fam], 'failing': bad[:3]}, what=f'family {fam}: {len(bad)} of {fam_n[fam]} names have another effect than the reference expansion, e.g. {bad[:1]}')
    chk.minimum('macro names whose expansion was compared', sum(fam_n.values()), 140)

    # ---- 3 UNPAIR undoes PAIR -------------------------------------------------------------------------------------------------
    chk.set_clause('C19.3')
    bad = []
    ntrees = 0
    for nl in (3, 4, 5):
        for t in all_trees(nl):
            nm = tree_name(t, '?') + 'R'
            r1 = _expand(repo, reg, em, nm, bt, bf, code)
            r2 = _expand(repo, reg, em, 'UN' + nm, bt, bf, code)
            ntrees += 1
            if not (len(r1) == 1 and len(r2) == 1 and r1[0].outcome == 'return' and r2[0].outcome == 'return'):
                bad.append(nm)
                continue
            try:
                out = mich.run(list(r1[0].value) + list(r2[0].value), base)
            except mich.Stuck as e:
                bad.append(f'{nm}: {e}')
                continue
            if out != ('stack', base):
                bad.append(nm)
    chk.ob('R-PAIR', f'{M}.expand_unpxr', not bad, f'UNPAIR tree macros undo the PAIR tree macros ({ntrees} trees)', repo.func(f'{M}.expand_unpxr').loc, {'failing': bad[:5]},
           what=f'UNP..R after P..R is not the identity for {bad[:3]}')


def _expand(repo, reg, em, name, bt, bf, code):
    a = {'branches': [bt, bf], 'code': [code], 'none': []}[arity(name)]
    if arity(name) == 'code' and name.startswith('D'):
        a = [[code]]
    it = Interp(repo, MacroHooks(reg), max_depth=40)
    it.max_recursion = 12
    return it.run_function(em, [name, [], a])


def controls(chk: Check) -> None:
    if parse_tree('PAPPAIIR') is None or parse_tree('PAAAR') is not None or parse_tree('PAIR') != ('P', 'leaf', 'leaf'):
        raise AnalysisError('reference PAIR-tree grammar control failed')
    st = [mich.pair(Sym('p'), Sym('q')), Sym('x')]
    if mich.run([P('SWAP'), P('UPDATE', I(1))], st) != mich.run([P('CDR'), P('SWAP'), P('PAIR')], st) or \
            mich.run([P('SWAP'), P('UPDATE', I(1))], st) == mich.run([P('SWAP'), P('UPDATE', I(2))], st):
        raise AnalysisError('stack semantics control failed')
