"""C15 Big map operations and lazy diffs agree with a layered dictionary model (abstract states).

A big_map value is abstracted as (items = [(k, v)], removed = [rk], on-chain contents opaque); BigMapType.get and
BigMapType.update are interpreted for every relation of the accessed key to that state (the item key, the removed key, a key
only present on chain, a key present nowhere) and both kinds of update (new value / removal); the resulting state and the
returned previous value are compared with the layered dictionary.  Further:
 1 the three key-hash sites use forge_script_expr(key.pack(legacy=True))
 2 no construction receives an entry whose value is None or whose key comes from removed_keys (entry list purity)
 3 every constructed copy carries the receiver's context
 4 the record written by aggregate_lazy_diff is read back by merge_lazy_diff into the same abstract state
"""
from __future__ import annotations

from typing import Any, Dict, List, Optional

from ..absint import App, Builtin, ClassRef, FuncRef, Hooks, Interp, ModRef, Obj, Sym, vkey, vrepr
from ..model import AnalysisError, Repo
from ..report import Check

BM = 'pytezos.michelson.types.big_map.BigMapType'


class BMHooks(Hooks):
    def __init__(self, repo: Repo, chain_value: Optional[str] = None):
        self.repo = repo
        self.chain_value = chain_value  # None: key absent on chain; name: present

    def inline(self, it, fi):
        return fi.cls is not None and fi.cls.qualname == BM

    def call(self, it, callee, args, kwargs, node):
        if isinstance(callee, ClassRef) and self.repo.is_subclass(callee.qual, BM):
            names = ['items', 'ptr', 'removed_keys']
            f: Dict[str, Any] = {'items': None, 'ptr': None, 'removed_keys': None}
            for n, v in zip(names, args):
                f[n] = v
            f.update(kwargs)
            f['removed_keys'] = f['removed_keys'] or []
            f['context'] = None
            it.event('construct', f['items'], f['removed_keys'])
            return Obj(BM, f)
        if isinstance(callee, FuncRef) and callee.fi is not None:
            n = callee.fi.name
            if n == 'forge_script_expr':
                it.event('key-hash', args[0])
                return App('script_expr', args[0])
            if n == 'is_duplicable':
                return True  # the big_maps of this check hold duplicable values (tickets are C20's subject)
        if isinstance(callee, Builtin) and callee.name == 'sorted':
            from ..absint import sort_key_kind
            kind = sort_key_kind(it, kwargs.get('key'))
            if kwargs.get('reverse') not in (None, False):
                kind = 'reversed'
            return App('sorted', list(args[0]) if isinstance(args[0], (list, tuple)) else args[0], kind)
        if isinstance(callee, ModRef) and callee.name in ('copy.copy', 'copy.deepcopy'):
            return args[0]
        if isinstance(callee, App) and callee.op == 'attr':
            recv, name = callee.args
            if name == 'get_big_map_value':
                it.event('chain-lookup', args)
                return Sym(self.chain_value) if self.chain_value else None
            if name == 'from_micheline_value':
                return App('parsed', args[0])
            if name == 'to_micheline_value':
                return App('micheline', recv)
            if name == 'pack':
                return App('pack', recv, kwargs.get('legacy', args[0] if args else False))
            if name in ('assert_type_equal', 'is_duplicable', 'as_micheline_expr'):
                return App(name, recv)
            if name == 'get_big_map_diff':
                return (Sym('src_ptr'), Sym('dst_ptr'), Sym('action', 'str'))
        return NotImplemented

    def attr(self, it, obj, name, node):
        if isinstance(obj, Obj) and obj.cls == BM and name == 'args':
            return [Sym('key_type'), Sym('val_type')]
        return NotImplemented

    def compare(self, it, op, a, b, node):
        if op in ('==', '!=') and isinstance(a, Sym) and isinstance(b, Sym):
            return (a.name == b.name) if op == '==' else (a.name != b.name)  # distinct symbols are distinct keys
        if op in ('==', '!=') and isinstance(a, (Sym, App)) and isinstance(b, (Sym, App)) and \
                all(isinstance(x, App) and x.op == 'parsed' or isinstance(x, Sym) for x in (a, b)):
            return (vkey(a) == vkey(b)) if op == '==' else (vkey(a) != vkey(b))
        return NotImplemented

    def truth(self, it, term):
        # stored values may be falsy as Python objects (False, "", empty collections): their truthiness is unknown
        if isinstance(term, Sym) and term.name in VALUE_SYMS:
            return None
        if isinstance(term, Sym):
            return True
        if isinstance(term, App) and term.op == 'micheline':
            return None  # the Micheline rendering of a value can be the empty sequence [] (an empty list / set / map): falsy
        if isinstance(term, App) and term.op == 'parsed':
            return True
        if isinstance(term, App) and term.op == 'is' and isinstance(term.args[0], (Sym, App)) and (term.args[1] is None or isinstance(term.args[1], Obj)):
            return False  # a stored / parsed value is neither None nor the Undefined marker
        if isinstance(term, App) and term.op == 'is' and isinstance(term.args[1], (Sym, App)) and isinstance(term.args[0], Obj):
            return False
        return None


VALUE_SYMS = {'v', 'newval', 'chainval', 'probe_v'}


def state(ctx: Any = Sym('context')) -> Obj:
    return Obj(BM, {'items': [(Sym('k'), Sym('v'))], 'removed_keys': [Sym('rk')], 'ptr': Sym('ptr', 'int'), 'context': ctx})


def norm_items(v: Any) -> Any:
    """items value -> sorted list of (key, value) reprs, or a marker."""
    if isinstance(v, App) and v.op == 'sorted':
        if v.args[1] != 'first':
            return ('sorted-by', v.args[1])
        v = v.args[0]
    if isinstance(v, list):
        return sorted((vrepr(e[0]), vrepr(e[1])) if isinstance(e, tuple) and len(e) == 2 else ('?', vrepr(e)) for e in v)
    return ('?', vrepr(v))


def run(repo: Repo, chk: Check) -> None:
    chk.explanation = (
        'BigMapType.get/update are interpreted on an abstract layered state (one diff entry, one removed key, opaque on-chain '
        'contents) for every relation of the accessed key to the state; results are compared with the layered dictionary.  '
        'The lazy-diff record written by aggregate_lazy_diff is fed to merge_lazy_diff abstractly.  Histories are covered '
        'inductively through the state abstraction (one representative entry per layer), not by value.'
    )
    cls = repo.cls(BM)
    get, update = cls.methods['get'], cls.methods['update']
    K = {'item key': Sym('k'), 'removed key': Sym('rk'), 'other key': Sym('key')}

    # ---- get ---------------------------------------------------------------------------------------------------------
    chk.set_clause('C15.0')
    for kname, key in K.items():
        for chain in (None, 'chainval'):
            res = Interp(repo, BMHooks(repo, chain), max_depth=4).run_method(get, lambda key=key: (state(), [key], {'dup': False}))
            if kname == 'item key':
                want = '$v'
            elif kname == 'removed key':
                want = 'None'
            else:
                want = 'parsed($chainval)' if chain else 'None'
            got = sorted({vrepr(p.value) if p.outcome == 'return' else 'raise ' + p.value.cls for p in res})
            looked = any(isinstance(e, tuple) and e[0] == 'chain-lookup' for p in res for e in p.events)
            ok = got == [want] and (looked == (kname == 'other key'))
            chk.ob('R-ORD', f'{BM}.get', ok, f'GET {kname}, on chain: {"present" if chain else "absent"}', get.loc, {'got': got, 'want': want, 'chain_lookup': looked},
                   what=f'GET of the {kname} returns {got}, the layered dictionary gives {want}')

    # ---- update --------------------------------------------------------------------------------------------------------
    chk.set_clause('C15.2')
    for kname, key in K.items():
        for chain in (None, 'chainval'):
            if kname != 'other key' and chain:
                continue
            for val in (None, Sym('newval')):
                res = Interp(repo, BMHooks(repo, chain), max_depth=4).run_method(update, lambda key=key, val=val: (state(), [key, val], {}))
                label = f'UPDATE {kname}{" (present on chain)" if chain else ""} := {"new value" if val is not None else "removal"}'
                if len(res) != 1 or res[0].outcome != 'return':
                    chk.ob('R-ORD', f'{BM}.update', False, label, update.loc, {'outcomes': [(p.outcome, vrepr(p.value)[:80]) for p in res]},
                           what=f'{label}: {[(p.outcome, vrepr(p.value)[:60]) for p in res]}')
                    continue
                prev, new = res[0].value
                # layered-dictionary specification
                items = {('$k', '$v')}
                removed = {'$rk'}
                kk = vrepr(key)
                old = '$v' if kname == 'item key' else ('parsed($chainval)' if (kname == 'other key' and chain) else 'None')
                items = {(a, b) for a, b in items if a != kk}
                if val is not None:
                    items.add((kk, '$newval'))
                    removed.discard(kk)
                elif old != 'None' or kk in removed:
                    removed.add(kk)
                got_items = norm_items(new.fields['items'])
                got_removed = sorted(vrepr(x) for x in new.fields['removed_keys'])
                ok = vrepr(prev) == old and got_items == sorted(items) and got_removed == sorted(removed)
                chk.ob('R-ORD', f'{BM}.update', ok, label, update.loc,
                       {'previous': vrepr(prev), 'items': got_items, 'removed': got_removed,
                        'spec': {'previous': old, 'items': sorted(items), 'removed': sorted(removed)}},
                       what=f'{label}: new state items={got_items} removed={got_removed} previous={vrepr(prev)}; layered dictionary: '
                            f'items={sorted(items)} removed={sorted(removed)} previous={old}')
                # the entry list is kept in key order (it is rendered as a big_map literal / lazy diff and parsed back under the
                # sortedness check; a removal keeps a subsequence, an insertion has to sort by the entry key)
                raw = new.fields['items']
                nent = len(raw.args[0]) if isinstance(raw, App) and raw.op == 'sorted' and isinstance(raw.args[0], list) else (len(raw) if isinstance(raw, list) else None)
                in_order = (isinstance(raw, App) and raw.op == 'sorted' and raw.args[1] == 'first') or (isinstance(raw, list) and (len(raw) <= 1 or val is None))
                chk.ob('R-ORD', f'{BM}.update', in_order, f'{label}: entry list stays sorted by key', update.loc,
                       {'items_term': vrepr(raw)[:160], 'entries': nent},
                       what=f'{label}: the entries of the updated big_map are {vrepr(raw)[:120]} - not sorted by key (insertion order leaks into the '
                            'rendered literal and lazy diff, which the parser rejects as unsorted)')
                # purity + context
                pure = isinstance(got_items, list) and all(b != 'None' for a, b in got_items) and not (set(a for a, b in got_items) & set(got_removed))
                chk.ob('R-FLOW', f'{BM}.update', pure, f'{label}: entry list purity', update.loc, {'items': got_items, 'removed': got_removed},
                       what='an entry without a value (a removal marker from __iter__) or a key that is also marked removed ends up in the entry list')
                chk.ob('R-PATH', f'{BM}.update', vrepr(new.fields.get('context')) == '$context', f'{label}: result keeps the context', update.loc,
                       what='the updated big_map loses the execution context')
                srt = new.fields['items']
                if val is not None and isinstance(srt, App) and srt.op == 'sorted':
                    chk.ob('R-FLOW', f'{BM}.update', srt.args[1] == 'first', f'{label}: entries sorted by key', update.loc, what='entries are not sorted by their key')

    # ---- 1 key hash sites ------------------------------------------------------------------------------------------------
    chk.set_clause('C15.1')
    want_hash = vrepr(App('pack', Sym('key'), True))
    r1 = Interp(repo, BMHooks(repo, None), max_depth=4).run_method(get, lambda: (state(), [Sym('key')], {'dup': False}))
    h1 = [vrepr(e[1]) for p in r1 for e in p.events if isinstance(e, tuple) and e[0] == 'key-hash']
    chk.ob('R-PAIR', f'{BM}.get', h1 == [want_hash], 'on-chain lookup keyed by script_expr(pack(key, legacy))', get.loc, {'hashed': h1},
           what='GET looks the key up under a different hash than the diff records')
    gk = cls.methods['get_key_hash']
    r2 = Interp(repo, _GKH(repo, None), max_depth=2).run_method(gk, lambda: (state(), [Sym('key_obj')], {}))
    h2 = [vrepr(e[1]) for p in r2 for e in p.events if isinstance(e, tuple) and e[0] == 'key-hash']
    chk.ob('R-PAIR', f'{BM}.get_key_hash', h2 == ["pack(from_python_object($key_obj), True)"], 'get_key_hash uses the same hash', gk.loc, {'hashed': h2},
           what='get_key_hash differs from the hash used by GET and the lazy diff')

    # ---- 4 aggregate -> merge ------------------------------------------------------------------------------------------------
    chk.set_clause('C15.4')
    agg, mrg = cls.methods['aggregate_lazy_diff'], cls.methods['merge_lazy_diff']

    def round_trip(it):
        s = state(ctx=None)
        ld: List[Any] = []
        out = it.call_function(FuncRef(agg, s, True), [ld], {}, None, force_inline=True)
        it.event('record', list(ld))
        holder = Obj(BM, {'items': [], 'removed_keys': [], 'ptr': Sym('ptr', 'int'), 'context': None})
        back = it.call_function(FuncRef(mrg, holder, True), [ld], {}, None, force_inline=True)
        return out, back

    res = Interp(repo, BMHooks(repo, None), max_depth=6).run_paths(round_trip)
    ok = bool(res) and all(p.outcome == 'return' for p in res)
    rec = None
    for p0 in (res if ok else []):
        out, back = p0.value
        bi = norm_items(back.fields['items'])
        br = sorted(vrepr(x) for x in back.fields['removed_keys'])
        if not (bi == [('parsed(micheline($k))', 'parsed(micheline($v))')] and br == ['parsed(micheline($rk))']):
            ok = False
            res = [p0]  # report this path
            break
    if ok:
        res = res[:1]
    if len(res) >= 1 and res[0].outcome == 'return':
        out, back = res[0].value
        rec = [e for e in res[0].events if isinstance(e, tuple) and e[0] == 'record'][0][1]
        bi = norm_items(back.fields['items'])
        br = sorted(vrepr(x) for x in back.fields['removed_keys'])
        ok = bi == [('parsed(micheline($k))', 'parsed(micheline($v))')] and br == ['parsed(micheline($rk))'] and vrepr(back.fields['ptr']) == '$ptr'
        ok = ok and out.fields['items'] == [] and vrepr(out.fields['ptr']) == '$ptr'
    chk.ob('R-PAIR', f'{BM}.merge_lazy_diff', ok, 'merge(aggregate(state)) restores entries and removals', mrg.loc,
           {'record': vrepr(rec)[:600] if rec else None, 'outcomes': [(p.outcome, vrepr(p.value)[:200]) for p in res]},
           what='the lazy-diff record written at commit is not read back into the same entries/removals')
    if rec:
        r0 = rec[0] if rec else {}
        upd = r0.get('diff', {}).get('updates', []) if isinstance(r0, dict) else []
        shape_ok = isinstance(r0, dict) and r0.get('kind') == 'big_map' and vrepr(r0.get('id')) == 'str($ptr)' and len(upd) == 2 \
            and set(upd[0]) == {'key', 'key_hash', 'value'} and set(upd[1]) == {'key', 'key_hash'} \
            and vrepr(upd[0]['key_hash']) == 'script_expr(pack($k, True))' and vrepr(upd[1]['key_hash']) == 'script_expr(pack($rk, True))'
        chk.ob('R-TEMPLATE', f'{BM}.aggregate_lazy_diff', shape_ok, 'diff record: kind/id/updates with key, key_hash, value (absent for removals)', agg.loc,
               {'record': vrepr(r0)[:600]}, what='the lazy storage diff entry does not have the Tezos shape (key, key_hash = script_expr(pack key), value only for sets)')
    # with a context: action/ids come from the context; alloc adds key/value types
    res = Interp(repo, BMHooks(repo, None), max_depth=6).run_paths(
        lambda it: (lambda ld: (it.call_function(FuncRef(agg, state(), True), [ld], {}, None, force_inline=True), ld))([]))
    okc = bool(res)
    seen_alloc = False
    for p in res:
        if p.outcome != 'return':
            okc = False
            continue
        out, ld = p.value
        r0 = ld[0]
        is_alloc = any(b and "'alloc'" in vrepr(c) for c, b in p.conds)
        seen_alloc = seen_alloc or is_alloc
        okc = okc and vrepr(r0['id']) == 'str($dst_ptr)' and vrepr(r0['diff']['action']) == '$action' and vrepr(out.fields['ptr']) == '$dst_ptr' \
            and (('key_type' in r0['diff'] and 'value_type' in r0['diff']) == is_alloc) and vrepr(out.fields.get('context')) == '$context'
    chk.ob('R-TEMPLATE', f'{BM}.aggregate_lazy_diff', okc and seen_alloc, 'with a context: id/action from the context, types on alloc, result keeps context', agg.loc,
           {'paths': len(res)}, what='the diff id/action are not the ones the context assigns, or alloc lacks the key/value types')

    # ---- 3 copies keep the context -------------------------------------------------------------------------------------------
    chk.set_clause('C15.3')
    dup = cls.methods['duplicate']
    res = Interp(repo, BMHooks(repo, None), max_depth=3).run_method(dup, lambda: (state(), [], {}))
    okd = len(res) == 1 and res[0].outcome == 'return' and vrepr(res[0].value.fields.get('context')) == '$context' \
        and norm_items(res[0].value.fields['items']) == [('$k', '$v')] and [vrepr(x) for x in res[0].value.fields['removed_keys']] == ['$rk']
    chk.ob('R-PATH', f'{BM}.duplicate', okd, 'duplicate copies entries, removals, id and context', dup.loc, what='DUP of a big_map loses entries, removals or the context')

    # ---- 5 the chain layer: which on-chain big_map a lookup reads ---------------------------------------------------------------------------
    # registry as attach_context builds it: a storage big_map registered under its own id, a copy registered under a fresh negative id that
    # points at the positive source id; a fresh big_map (negative id, not registered) has no chain content.
    chk.set_clause('C15.5')
    CTX = 'pytezos.context.impl.ExecutionContext'
    gv = repo.func(f'{CTX}.get_big_map_value')

    class ChainHooks(Hooks):
        def inline(self, it, fi):
            return fi.qualname in (gv.qualname, f'{CTX}.register_big_map', f'{CTX}.get_tmp_big_map_id')

        def attr(self, it, obj, name, node):
            if isinstance(obj, Sym) and obj.name == 'shell':
                return App('shell-path', name)
            if isinstance(obj, App) and obj.op == 'shell-path':
                return App('shell-path', *obj.args, name)
            return NotImplemented

        def subscript(self, it, obj, idx, node):
            if isinstance(obj, App) and obj.op == 'shell-path':
                return App('shell-path', *obj.args, ('[]', idx if isinstance(idx, int) else vrepr(idx)))
            return NotImplemented

        def call(self, it, callee, args, kwargs, node):
            if isinstance(callee, App) and callee.op == 'shell-path':
                it.event('chain-query', callee.args)
                return Sym('chain-value')
            return NotImplemented

        def truth(self, it, term):
            if isinstance(term, App) and term.op == 'is' and isinstance(term.args[0], Sym) and term.args[0].name == 'shell':
                return False  # a node is attached
            return None

    # the registry is filled by the real register_big_map (whatever it stores per entry), then read by the real get_big_map_value
    reg = repo.func(f'{CTX}.register_big_map')
    cases = [('storage big_map 5', 'storage', 5), ('a copy of on-chain big_map 7', 'copy', 7), ('a fresh big_map (never registered)', 'fresh', None), ('unknown id 9', 'unknown', None)]
    for label, which, src in cases:
        def go(i, which=which):
            ctx = Obj(CTX, {'tzt': False, 'big_maps': {}, 'tmp_big_map_index': 0, 'shell': Sym('shell'), 'block_id': 'head'})
            i.call_function(FuncRef(reg, ctx, True), [5], {}, None, force_inline=True)
            cp = i.call_function(FuncRef(reg, ctx, True), [7], {'copy': True}, None, force_inline=True)
            if not isinstance(cp, int) or cp >= 0:
                raise AnalysisError(f'register_big_map(copy=True) did not hand out a temporary (negative) identifier: {vrepr(cp)}')
            ptr = {'storage': 5, 'copy': cp, 'fresh': cp - 1, 'unknown': 9}[which]
            return i.call_function(FuncRef(gv, ctx, True), [ptr, Sym('key_hash', 'str')], {}, None, force_inline=True)

        res = Interp(repo, ChainHooks(), max_depth=3).run_paths(go)
        queried = sorted({a[1] for p in res for e in p.events if isinstance(e, tuple) and e[0] == 'chain-query' for a in e[1] if isinstance(a, tuple) and a[0] == '[]' and isinstance(a[1], int)})
        outs = sorted({vrepr(p.value) if p.outcome == 'return' else 'raise ' + p.value.cls for p in res})
        if src is None:
            ok = not queried and outs == ['None']
        else:
            ok = queried == [src] and outs == ['$chain-value']
        chk.ob('R-FLOW', gv.qualname, ok, f'{label}: ' + (f'reads on-chain big_map {src}' if src is not None else 'has no on-chain content'), gv.loc,
               {'queried_ids': queried, 'outcomes': outs},
               what=f'get_big_map_value for {label}: queried on-chain ids {queried}, result {outs}; '
                    + (f'the entries of on-chain big_map {src} must be visible through it' if src is not None else 'nothing may be read from the chain'))

    # ---- 6 attaching a context: EVERY on-chain identifier (0 is one) is registered, only a big_map without identifier gets a temporary one --
    chk.set_clause('C15.6')
    ac = repo.func(f'{BM}.attach_context')

    class AttachHooks(Hooks):
        def inline(self, it, fi):
            return fi.qualname == ac.qualname

        def call(self, it, callee, args, kwargs, node):
            if isinstance(callee, App) and callee.op == 'attr' and callee.args[1] in ('register_big_map', 'get_tmp_big_map_id'):
                it.event('ctx-call', callee.args[1], tuple(args))
                return Sym('registered' if callee.args[1] == 'register_big_map' else 'tmp', 'int')
            return NotImplemented

        def attr(self, it, obj, name, node):
            if isinstance(obj, Sym) and obj.name == 'context' and name in ('tzt',):
                return False
            return NotImplemented

    for label, ptr, want in (('on-chain big_map 0', 0, 'register_big_map'), ('on-chain big_map 7', 7, 'register_big_map'), ('a big_map literal (no identifier)', None, 'get_tmp_big_map_id')):
        bm = Obj(BM, {'ptr': ptr, 'context': None, 'items': [], 'removed_keys': []})
        res6 = Interp(repo, AttachHooks(), max_depth=2).run_method(ac, lambda bm=bm: (bm, [Sym('context')], {}))
        calls = sorted({e[1] for p in res6 for e in p.events if isinstance(e, tuple) and e[0] == 'ctx-call'})
        chk.ob('R-DISPATCH', ac.qualname, bool(res6) and all(p.outcome == 'return' for p in res6) and calls == [want], f'attach_context of {label}: {want}', ac.loc, {'context_calls': calls},
               what=f'attach_context of {label} calls {calls} instead of {want}: '
                    + ('the on-chain big_map is treated as a fresh one, its entries are not visible and the diff allocates instead of updating' if ptr is not None else
                       'a literal is registered as if it lived on chain'))

    # MEM answers from the same lookup as GET: `contains` of a big_map (inherited or not) is decided by `get`, which consults the chain and the removals
    ct = repo.find_method(BM, 'contains')
    chk.require(ct is not None, 'BigMapType has no contains')

    class MemHooks(Hooks):
        def inline(self, it, fi):
            return fi.qualname == ct.qualname

        def call(self, it, callee, args, kwargs, node):
            if isinstance(callee, FuncRef) and callee.fi is not None and callee.fi.name == 'get' and callee.fi.cls is not None:
                it.event('get-called', callee.fi.cls.name)
                return Sym('lookup')
            if isinstance(callee, FuncRef) and callee.fi is not None and callee.fi.name == '__iter__':
                it.event('iterated-local-entries')
                return [(Sym('k'), Sym('v'))]
            return NotImplemented

        def iterate(self, it, obj, node):
            if isinstance(obj, Obj) and obj.cls == BM:
                it.event('iterated-local-entries')
                return [(Sym('k'), Sym('v'))]
            if isinstance(obj, Sym) and obj.name in ('items', 'removed'):
                it.event('iterated-local-entries')
                return [(Sym('k'), Sym('v'))] if obj.name == 'items' else [Sym('k')]
            return NotImplemented

    resm = Interp(repo, MemHooks(), max_depth=2).run_method(ct, lambda: (Obj(BM, {'ptr': 5, 'items': Sym('items'), 'removed_keys': Sym('removed'), 'context': Sym('context')}), [Sym('key')], {}))
    via_get = bool(resm) and all(any(isinstance(e, tuple) and e[0] == 'get-called' and e[1] == 'BigMapType' for e in p.events) for p in resm if p.outcome == 'return') \
        and all(p.outcome == 'return' and 'lookup' in vrepr(p.value) for p in resm)
    chk.ob('R-FLOW', ct.qualname, via_get, 'MEM on a big_map is answered by BigMapType.get (chain + pending updates + removals)', ct.loc,
           {'outcomes': [(p.outcome, vrepr(p.value)[:80]) for p in resm][:3]},
           what='BigMapType.contains does not go through BigMapType.get: MEM ignores the entries that live on chain and counts keys removed in this execution as present')

    # ---- memory across calls (shared rule, sa/statelint.py) ----------------------------------------------------------------------------------
    chk.set_clause('C15.M')
    from ..statelint import check_memory
    check_memory(repo, chk, ['pytezos.michelson.types.big_map.', 'pytezos.context.impl.'],
                 'a lookup in one big_map is answered with what another big_map (or an earlier state) held')

    # ---- the instruction layer: "no binding" is None, never a falsy value ------------------------------------------------------------------------
    # `get` / `update` of a map or big_map answer None for an absent key; a present value can be falsy in Python (empty string / bytes / list /
    # map, False), so GET, GET_AND_UPDATE and UPDATE must decide absence with `is None`.  Reported: a bare truth test of such a result.
    chk.set_clause('C15.7')
    n_opt = optional_results_tested_by_identity(repo, chk)
    chk.minimum('map lookup / update call sites in the instruction layer', n_opt, 3)


def _optional_names(fn) -> Dict[str, int]:
    """local names bound to the (possibly None) result of <x>.get(...) or to the first component of <x>.update(...) / get_and_update"""
    import ast
    out: Dict[str, int] = {}
    for a in fn.args.posonlyargs + fn.args.args + fn.args.kwonlyargs:  # a helper taking the optional result
        if a.annotation is not None and 'Optional' in ast.unparse(a.annotation):
            out[a.arg] = fn.lineno
    for n in ast.walk(fn):
        if not isinstance(n, ast.Assign) or len(n.targets) != 1 or not isinstance(n.value, ast.Call) or not isinstance(n.value.func, ast.Attribute):
            continue
        m, tgt = n.value.func.attr, n.targets[0]
        if m == 'get' and isinstance(tgt, ast.Name):
            out[tgt.id] = n.lineno
        elif m in ('update', 'get_and_update') and isinstance(tgt, ast.Tuple) and tgt.elts and isinstance(tgt.elts[0], ast.Name) and tgt.elts[0].id != '_':
            out[tgt.elts[0].id] = n.lineno
    return out


def _truth_tests(fn, names) -> List[Any]:
    import ast
    bad = []

    def bare(e):
        if isinstance(e, ast.Name) and e.id in names:
            return [e]
        if isinstance(e, ast.UnaryOp) and isinstance(e.op, ast.Not):
            return bare(e.operand)
        if isinstance(e, ast.BoolOp):
            return [x for v in e.values for x in bare(v)]
        return []

    for n in ast.walk(fn):
        if isinstance(n, (ast.If, ast.IfExp, ast.While, ast.Assert)):
            bad += bare(n.test)
    return bad


def optional_results_tested_by_identity(repo: Repo, chk: Check) -> int:
    import ast
    total = 0
    mi = repo.module('pytezos.michelson.instructions.struct')
    total = sum(1 for n in ast.walk(mi.tree) if isinstance(n, ast.Call) and isinstance(n.func, ast.Attribute) and n.func.attr in ('get', 'update', 'get_and_update'))
    funcs = [fi for ci in mi.classes.values() for fi in ci.methods.values()] + list(mi.functions.values())
    if True:
        for fi in funcs:
            names = _optional_names(fi.node)
            for e in _truth_tests(fi.node, names):
                chk.ob('R-GUARD', fi.qualname, False, f'`{e.id}` (None when the key has no binding) is tested with `is None`', f'{mi.relpath}:{e.lineno}',
                       {'bound_at_line': names[e.id]},
                       what=f'{fi.qualname} decides whether the key had a binding by the truth value of `{e.id}`: a bound value that is falsy in Python (empty string, '
                            'empty bytes, False, an empty list / map / set) is reported as absent, so GET / GET_AND_UPDATE disagree with the dictionary model')
    chk.ob('R-GUARD', 'pytezos.michelson.instructions.struct', True, f'{total} lookup / update call sites, no optional result tested by truth value', mi.relpath)
    return total


class _GKH(BMHooks):
    def call(self, it, callee, args, kwargs, node):
        if isinstance(callee, App) and callee.op == 'attr' and callee.args[1] == 'from_python_object':
            return App('from_python_object', args[0])
        if isinstance(callee, App) and callee.op == 'attr' and callee.args[1] == 'pack':
            return App('pack', callee.args[0], kwargs.get('legacy', False))
        return super().call(it, callee, args, kwargs, node)


def controls(chk: Check) -> None:
    import ast as _ast
    fn = _ast.parse("def f(src, key):\n    prev, dst = src.update(key, None)\n    return 1 if prev else 0\n").body[0]
    if len(_truth_tests(fn, _optional_names(fn))) != 1:
        raise AnalysisError('optional-result truth test control failed')
    if norm_items(App('sorted', [(Sym('b'), Sym('x')), (Sym('a'), Sym('y'))], 'first')) != [('$a', '$y'), ('$b', '$x')]:
        raise AnalysisError('items normaliser control failed')
