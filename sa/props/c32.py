"""C32 View definitions are accepted exactly when Tezos accepts them.

 1 name: on every accepting path of ViewSection.create_type the length is bounded by 31 and the CHARACTERS of the name are
   inspected by a predicate whose accepted set is exactly [A-Za-z0-9_.%@] (regexp parsed with re._parser, or a per-character
   membership test); a name that only ever flows into len() is a definite violation.
 2 check_code over abstract code trees: SELF rejected everywhere; TRANSFER_TOKENS / CREATE_CONTRACT / SET_DELEGATE rejected
   unless below LAMBDA, LAMBDA_REC or the literal of a PUSH whose type is lambda; every argument is visited.
"""
from __future__ import annotations

import string
from typing import Any, List, Optional, Set

from ..absint import App, Builtin, ClassRef, FuncRef, Hooks, Interp, ModRef, Obj, Sym, vrepr
from ..model import AnalysisError, Repo
from ..report import Check

V = 'pytezos.michelson.sections.view.ViewSection'
ALLOWED = set(string.ascii_letters + string.digits + '_.%@')


def regex_charset(pattern: str):
    """-> (charset or None, anchored_start, anchored_end, newline_leak, max_repeat) for patterns of the form ^?[class]{m,n}$?"""
    import re._parser as sp  # type: ignore
    import re._constants as sc  # type: ignore

    p = list(sp.parse(pattern))
    start = end = leak = False
    if p and p[0][0] == sc.AT and p[0][1] in (sc.AT_BEGINNING, sc.AT_BEGINNING_STRING):
        start = True
        p = p[1:]
    if p and p[-1][0] == sc.AT and p[-1][1] in (sc.AT_END, sc.AT_END_STRING):
        end = True
        leak = p[-1][1] == sc.AT_END  # `$` also matches before a trailing newline
        p = p[:-1]
    if len(p) != 1 or p[0][0] not in (sc.MAX_REPEAT, sc.MIN_REPEAT):
        return None, start, end, leak, None
    lo, hi, body = p[0][1]
    body = list(body)
    if len(body) != 1 or body[0][0] != sc.IN:
        return None, start, end, leak, None
    chars: Set[str] = set()
    for kind, val in body[0][1]:
        if kind == sc.LITERAL:
            chars.add(chr(val))
        elif kind == sc.RANGE:
            chars |= {chr(c) for c in range(val[0], val[1] + 1)}
        elif kind == sc.CATEGORY and val == sc.CATEGORY_DIGIT:
            chars |= set(string.digits)
        elif kind == sc.CATEGORY and val == sc.CATEGORY_WORD:
            return None, start, end, leak, None  # \w is unicode-wide: not the Tezos set
        else:
            return None, start, end, leak, None
    return chars, start, end, leak, (lo, hi)


class NameHooks(Hooks):
    def inline(self, it, fi):
        return fi.qualname == f'{V}.create_type'

    def call(self, it, callee, args, kwargs, node):
        if isinstance(callee, Builtin) and callee.name == 'issubclass':
            return True
        if isinstance(callee, Builtin) and callee.name == 'cast':
            return args[1]
        if isinstance(callee, ModRef) and callee.name == 'typing.cast':
            return args[1]
        if isinstance(callee, App) and callee.op == 'attr' and callee.args[1] == 'get_string':
            return Sym('name', 'str')
        if isinstance(callee, FuncRef) and callee.fi is not None and callee.fi.name == 'check_code':
            it.event('check_code', args, kwargs)
            return None
        if isinstance(callee, Builtin) and callee.name == 'type' and len(args) == 3:
            it.event('accepted')
            return Sym('view-class')
        return NotImplemented

    def iterate(self, it, obj, node):
        if isinstance(obj, Sym) and obj.name == 'name':
            return [Sym('ch', 'str')]
        return NotImplemented


def len_bound(conds) -> Optional[int]:
    """Largest length the accepting path allows, from comparisons of len(name) with constants."""
    best = None
    for c, b in conds:
        if not isinstance(c, App) or c.op not in ('<', '<=', '>', '>='):
            continue
        a0, a1 = c.args
        if isinstance(a0, App) and a0.op == 'len' and isinstance(a1, int):
            op, k = c.op, a1
        elif isinstance(a1, App) and a1.op == 'len' and isinstance(a0, int):
            op, k = {'<': '>', '<=': '>=', '>': '<', '>=': '<='}[c.op], a0
        else:
            continue
        # normalise to an upper bound on len
        if op == '>=' and not b:
            ub = k - 1
        elif op == '>' and not b:
            ub = k
        elif op == '<' and b:
            ub = k - 1
        elif op == '<=' and b:
            ub = k
        else:
            continue
        best = ub if best is None else min(best, ub)
    return best


def char_predicates(conds) -> List[Any]:
    out = []
    for c, b in conds:
        s = vrepr(c)
        if isinstance(c, App) and c.op == 'in' and isinstance(c.args[0], Sym) and c.args[0].name == 'ch':
            cont = c.args[1]
            if isinstance(cont, (str, tuple, list, set, frozenset)):
                chars = set(cont) if not isinstance(cont, str) else set(cont)
                out.append(('membership', chars if b else None, False, None))
        if isinstance(c, App) and c.op.startswith('call:re.') and b:
            fn = c.op[len('call:re.'):]
            pat = c.args[0] if c.args else None
            subj = c.args[1] if len(c.args) > 1 else None
            if isinstance(pat, str) and isinstance(subj, Sym) and subj.name == 'name':
                chars, st, en, leak, rep = regex_charset(pat)
                anchored = (fn == 'fullmatch') or (fn == 'match' and en) or (fn == 'search' and st and en)
                out.append(('regex:' + fn, chars if anchored else None, leak and fn != 'fullmatch', rep))
        if isinstance(c, App) and c.op in ('mcall:match', 'mcall:fullmatch', 'mcall:search') and b and c.args \
                and isinstance(c.args[0], App) and c.args[0].op == 'call:re.compile':
            # a precompiled pattern (possibly a module-level constant): same predicate as re.<fn>(pattern, name)
            fn = c.op[len('mcall:'):]
            pat = c.args[0].args[0] if c.args[0].args else None
            flags = c.args[0].args[1:]
            subj = c.args[1] if len(c.args) > 1 else None
            if isinstance(pat, str) and not flags and isinstance(subj, Sym) and subj.name == 'name':
                chars, st, en, leak, rep = regex_charset(pat)
                anchored = (fn == 'fullmatch') or (fn == 'match' and en) or (fn == 'search' and st and en)
                out.append(('regex:' + fn, chars if anchored else None, leak and fn != 'fullmatch', rep))
    return out


def node(prim, *args):
    return Obj('code', {'prim': prim, 'args': list(args)} if args else {'prim': prim})


class CodeHooks(Hooks):
    def inline(self, it, fi):
        return fi.name == 'check_code'

    def attr(self, it, obj, name, node_):
        if isinstance(obj, Obj) and obj.cls == 'code':
            if name in obj.fields:
                return obj.fields[name]
            from ..absint import Raised, ExcVal
            raise Raised(ExcVal('AttributeError', (name,)))
        return NotImplemented

    def call(self, it, callee, args, kwargs, node_):
        if isinstance(callee, Builtin) and callee.name == 'getattr' and isinstance(args[0], Obj) and args[0].cls == 'code':
            return args[0].fields.get(args[1], args[2] if len(args) > 2 else None)
        if isinstance(callee, Builtin) and callee.name == 'hasattr' and isinstance(args[0], Obj) and args[0].cls == 'code':
            return args[1] in args[0].fields
        if isinstance(callee, Builtin) and callee.name in ('issubclass', 'isinstance'):
            return False
        return NotImplemented


RESTRICTED = ['TRANSFER_TOKENS', 'CREATE_CONTRACT', 'SET_DELEGATE']


def wrappers(leaf):
    ty = node('unit')
    lam_ty = node('lambda', node('unit'), node('unit'))
    seq = lambda *xs: node(None, *xs)  # noqa: E731
    return {
        'top level': (leaf, False),
        'inside a sequence': (seq(node('DROP'), leaf), False),
        'inside DIP': (node('DIP', seq(leaf)), False),
        'second branch of IF': (node('IF', seq(node('DROP')), seq(leaf)), False),
        'inside LAMBDA': (node('LAMBDA', ty, ty, seq(leaf)), True),
        'inside LAMBDA_REC': (node('LAMBDA_REC', ty, ty, seq(leaf)), True),
        'literal of PUSH lambda': (node('PUSH', lam_ty, seq(leaf)), True),
        'literal of PUSH of another type': (node('PUSH', node('list', node('unit')), seq(leaf)), False),
        'after a LAMBDA (sibling)': (seq(node('LAMBDA', ty, ty, seq(node('DROP'))), leaf), False),
        'inside LAMBDA inside DIP': (node('DIP', seq(node('LAMBDA', ty, ty, seq(leaf)))), True),
        'nested lambda literal inside PUSH pair': (node('PUSH', node('pair', lam_ty, node('unit')), node('Pair', seq(leaf), node('Unit'))), None),
    }


def run(repo: Repo, chk: Check) -> None:
    chk.explanation = (
        'ViewSection.create_type is interpreted with an opaque name: every accepting path must bound the length by 31 and must '
        'inspect the characters with a predicate accepting exactly [A-Za-z0-9_.%@].  check_code is interpreted over abstract code '
        'trees (forbidden opcode x wrapper contexts) and compared with the Tezos rule.'
    )
    ct = repo.func(f'{V}.create_type')
    chk.set_clause('C32.1')
    res = Interp(repo, NameHooks(), max_depth=1).run_function(
        ct, [[Sym('name_lit'), Sym('arg_ty'), Sym('ret_ty'), Sym('code')]], self_val=ClassRef(V))
    acc = [p for p in res if any(e == 'accepted' for e in p.events)]
    chk.require(acc, 'create_type: no accepting path found (type(...) construction idiom changed)')
    for i, p in enumerate(acc):
        ub = len_bound(p.conds)
        chk.ob('R-GUARD', ct.qualname, ub == 31, 'name length bounded by 31 on the accepting path', ct.loc, {'upper_bound': ub, 'under': p.cond_repr()},
               what=f'accepted names may be up to {ub} characters long, Tezos allows at most 31')
        preds = char_predicates(p.conds)
        exact = [q for q in preds if q[1] is not None and q[1] == ALLOWED and not q[2]]
        why = 'the characters of the view name are never inspected (the name only flows into len())' if not preds else \
            f'character predicate accepts a different set or leaks: {[(q[0], "".join(sorted(q[1])) if q[1] else None, q[2]) for q in preds]}'
        chk.ob('R-FLOW', ct.qualname, bool(exact), 'name characters restricted to [A-Za-z0-9_.%@]', ct.loc,
               {'predicates': [(q[0], ''.join(sorted(q[1])) if q[1] else None, q[2]) for q in preds], 'under': p.cond_repr()},
               what=why + ' — e.g. view "a b" is accepted')
        cc = [e for e in p.events if isinstance(e, tuple) and e[0] == 'check_code']
        okc = len(cc) == 1 and vrepr(cc[0][1][0] if cc[0][1] else None) == '$code' and \
            (cc[0][2].get('lambda_', cc[0][1][1] if len(cc[0][1]) > 1 else None) is False)
        chk.ob('R-PATH', ct.qualname, okc, 'code (4th argument) is checked with lambda flag off', ct.loc, {'calls': [vrepr(e[1]) for e in cc]},
               what='the view code is not passed through check_code before acceptance')
    rej = [p for p in res if p.outcome == 'raise']
    chk.ob('R-PATH', ct.qualname, all(p.value.cls.endswith('MichelsonRuntimeError') for p in rej) and len(rej) >= 1, 'rejections raise MichelsonRuntimeError',
           ct.loc, {'rejecting_paths': len(rej)}, what='a rejected view does not raise the view error')

    # the name is read from its literal with MichelineLiteral.get_string: every string literal, the empty one included (a view may be called ""),
    # comes back as it is; only a non-string literal is refused
    ML = 'pytezos.michelson.micheline.MichelineLiteral'
    gs = repo.find_method(ML, 'get_string')
    chk.require(gs is not None, 'MichelineLiteral.get_string not found')

    class LitHooks(Hooks):
        def inline(self, it, fi):
            return fi.qualname == gs.qualname

        def attr(self, it, obj, name, node_):
            if isinstance(obj, ClassRef) and name == 'literal':
                return Sym('the_literal', 'str')
            return NotImplemented

        def truth(self, it, term):
            return None  # the empty string is falsy: unknown

    r = Interp(repo, LitHooks(), max_depth=1).run_paths(lambda i: i.call_function(FuncRef(gs, ClassRef(ML), True), [], {}, None, force_inline=True))
    bad = [(p.outcome, vrepr(p.value)[:60], p.cond_repr()[:60]) for p in r if not (p.outcome == 'return' and vrepr(p.value) == '$the_literal')]
    chk.ob('R-GUARD', gs.qualname, bool(r) and not bad, 'get_string returns every string literal, the empty string included', gs.loc, {'paths': len(r), 'other': bad[:2]},
           what=f'MichelineLiteral.get_string does not return some string literals ({bad[:1]}): the view named "" (legal: at most 31 characters, none forbidden) is rejected')

    chk.set_clause('C32.2')
    cc = repo.func(f'{V}.check_code')
    ncase = 0
    for prim in ['SELF'] + RESTRICTED + ['ADD']:
        for ctx, (tree, in_lambda) in wrappers(node(prim)).items():
            if in_lambda is None:
                continue
            it = Interp(repo, CodeHooks(), max_depth=12)
            it.max_recursion = 10
            res = it.run_function(cc, [tree, False])
            ncase += 1
            rejected = all(p.outcome == 'raise' for p in res)
            accepted = all(p.outcome == 'return' for p in res)
            if prim == 'SELF':
                want = True
            elif prim in RESTRICTED:
                want = not in_lambda
            else:
                want = False
            ok = (rejected if want else accepted) and len(res) >= 1
            chk.ob('R-DISPATCH', cc.qualname, ok, f'{prim} {ctx}: {"rejected" if want else "accepted"}', cc.loc,
                   {'outcomes': [(p.outcome, p.value.cls if p.outcome == 'raise' else None) for p in res]},
                   what=f'{prim} {ctx} must be {"rejected" if want else "accepted"} in a view, the check does the opposite')
    chk.minimum('check_code cases', ncase, 45)


def controls(chk: Check) -> None:
    cs, st, en, leak, rep = regex_charset(r'^[a-zA-Z0-9_.%@]*$')
    if cs != ALLOWED or not leak:
        raise AnalysisError('regexp charset control failed')
    cs2, *_ = regex_charset(r'[a-z]*')
    if cs2 == ALLOWED:
        raise AnalysisError('regexp charset control failed')
