"""C14 Sets and maps stay strictly sorted and duplicate-free — induction over constructors.

Induction hypothesis: `self.items` of the receiver is strictly sorted by the key comparator (C03).  Every method of
SetType / MapType that constructs a set/map value is interpreted abstractly with `self.items` opaque (one representative
entry stands for all entries when it is iterated) and the `items` argument of every construction on every path is
classified:
   same            the receiver's own list
   subsequence     built by iterating/filtering self.items without changing keys
   sorted-insert   sorted(self.items + [new]) with the key comparator, under a path condition that the key is absent
   checked         passed through check_constraints on the same path
   empty           []
Anything else breaks the induction step.  Plus: who may write `.items`, check_constraints tests order AND duplicates,
instruction -> method call table.
"""
from __future__ import annotations

import ast
from typing import Any, Dict, List, Optional

from ..absint import App, Builtin, ClassRef, FuncRef, Hooks, Interp, LazyGen, Obj, Sym, vkey, vrepr
from ..model import AnalysisError, Repo, dotted, norm
from ..report import Check

LEVEL = 'proof'
T = 'pytezos.michelson.types'
SET, MAP = f'{T}.set.SetType', f'{T}.map.MapType'
MUTATORS = {'append', 'sort', 'insert', 'pop', 'remove', 'extend', 'reverse', 'clear', '__setitem__', '__delitem__'}


class Ranked:
    """A key known only by its position in the total order (equal rank = equal key)."""

    def __init__(self, i: int, rank: int):
        self.i, self.rank = i, rank

    def key(self):
        return ('ranked', self.i, self.rank)

    def __repr__(self):
        return f'k{self.i}@{self.rank}'

    def __deepcopy__(self, memo):
        return self


class RankHooks(Hooks):
    def inline(self, it, fi):
        return fi.name == 'check_constraints'

    def compare(self, it, op, a, b, node):
        if isinstance(a, Ranked) and isinstance(b, Ranked):
            return {'<': a.rank < b.rank, '>': a.rank > b.rank, '<=': a.rank <= b.rank, '>=': a.rank >= b.rank,
                    '==': a.rank == b.rank, '!=': a.rank != b.rank}.get(op, NotImplemented)
        return NotImplemented

    def call(self, it, callee, args, kwargs, node):
        if isinstance(callee, Builtin) and args and isinstance(args[0], (list, tuple)) and all(isinstance(x, Ranked) for x in args[0]):
            if callee.name == 'sorted' and not kwargs and len(args) == 1:
                return sorted(args[0], key=lambda x: x.rank)
            if callee.name in ('set', 'frozenset'):
                seen, out = set(), []
                for x in args[0]:
                    if x.rank not in seen:
                        seen.add(x.rank)
                        out.append(x)
                return out
        return NotImplemented


class IndHooks(Hooks):
    def __init__(self, repo: Repo, kind: str, representative: bool = True):
        self.repo = repo
        self.kind = kind  # 'set' | 'map'
        self.representative = representative
        self.constructs: List[Any] = []
        self.checked: List[Any] = []

    def reset(self, it):
        self.constructs = []
        self.checked = []

    def inline(self, it, fi):
        # stay inside the collection class; everything else is opaque
        return fi.cls is not None and fi.cls.qualname in (SET, MAP) and fi.name not in ('check_constraints', 'create_type')

    def is_coll_class(self, c) -> bool:
        return isinstance(c, ClassRef) and (self.repo.is_subclass(c.qual, SET) or self.repo.is_subclass(c.qual, MAP))

    def call(self, it, callee, args, kwargs, node):
        if self.is_coll_class(callee) or (isinstance(callee, App) and callee.op in ('call:' + f'{T}.base.MichelsonType.create_type', 'newtype')):
            items = kwargs.get('items', args[0] if args else None)
            it.event('construct', items, list(it.conds), list(self.checked))
            return Obj(callee.qual if isinstance(callee, ClassRef) else (SET if self.kind == 'set' else MAP), {'items': items})
        if isinstance(callee, FuncRef) and callee.fi is not None:
            if callee.fi.name == 'check_constraints':
                self.checked.append(args[0] if args else kwargs.get('items'))
                it.event('check_constraints', args[0] if args else None)
                return None
            if callee.fi.name == 'create_type':
                return ClassRef(SET if self.kind == 'set' else MAP)
        if isinstance(callee, Builtin):
            a0 = args[0] if args else None
            abstract = isinstance(a0, (Sym, App))
            if callee.name == 'sorted' and (abstract or not self._concrete_list(a0)):
                keyf = kwargs.get('key')
                return App('sorted', a0, self._key_kind(it, keyf), App('kw', 'reverse', kwargs['reverse']) if 'reverse' in kwargs else None)
            if callee.name == 'filter' and isinstance(args[1], (Sym, App)):
                return App('filter', args[1])
            if callee.name in ('list', 'set', 'tuple') and abstract:
                return App(callee.name, a0)
            if callee.name == 'map' and len(args) == 2 and isinstance(args[1], (Sym, App)) and not self.representative:
                return App('map', self._key_kind(it, args[0]), args[1])
            if callee.name == 'copy' and args:
                return args[0]
        if isinstance(callee, App) and callee.op == 'attr' and callee.args[1] in ('assert_type_equal', 'assert_type_in', 'is_duplicable'):
            return True
        from ..absint import ModRef

        if isinstance(callee, ModRef) and callee.name in ('copy.copy', 'copy.deepcopy'):
            return args[0]
        return NotImplemented

    def truth(self, it, term):
        # stored values are Michelson values, never None
        if isinstance(term, App) and term.op == 'is' and isinstance(term.args[0], Sym) and term.args[0].name in ('v', 'e', 'k') \
                and term.args[1] is None:
            return False
        return None

    def _concrete_list(self, v) -> bool:
        return isinstance(v, list) and all(not isinstance(x, (Sym, App)) and not (isinstance(x, tuple) and any(isinstance(y, (Sym, App)) for y in x)) for x in v)

    def _key_kind(self, it, f) -> str:
        from ..absint import sort_key_kind

        return sort_key_kind(it, f)

    def iterate(self, it, obj, node):
        if self.representative and isinstance(obj, Sym) and obj.name == 'ITEMS':
            return [(Sym('k'), Sym('v'))] if self.kind == 'map' else [Sym('e')]
        if self.representative and isinstance(obj, (Sym, App)):
            return [Sym('any')]  # loops over other inputs (type assertions, conversions): one representative element
        return NotImplemented

    def binop(self, it, op, a, b, node):
        if op == 'Add' and (isinstance(a, Sym) and a.name == 'ITEMS' or isinstance(b, Sym) and b.name == 'ITEMS'):
            return App('concat', a, b)
        return NotImplemented

    def attr(self, it, obj, name, node):
        if isinstance(obj, Obj) and name in ('args', 'prim') and name not in obj.fields:
            return Sym(f'cls.{name}')
        if isinstance(obj, ClassRef) and name == 'args':
            return Sym('cls.args')
        return NotImplemented


def classify(kind: str, items: Any, conds, checked) -> str:
    """Classification of a constructed `items` term under the induction hypothesis."""
    rep_key = Sym('k') if kind == 'map' else Sym('e')
    while isinstance(items, App) and items.op == 'list' and len(items.args) == 1:
        items = items.args[0]
    if any(vkey(c) == vkey(items) for c in checked):
        return 'checked'
    if isinstance(items, Sym) and items.name == 'ITEMS':
        return 'same'
    if isinstance(items, list):
        if not items:
            return 'empty'
        for e in items:
            k = e[0] if (kind == 'map' and isinstance(e, tuple) and len(e) == 2) else e
            if not (isinstance(k, Sym) and k == rep_key):
                return 'rebuilt-with-changed-keys'
        return 'subsequence'
    if isinstance(items, App) and items.op == 'filter' and isinstance(items.args[0], Sym) and items.args[0].name == 'ITEMS':
        return 'subsequence'
    if isinstance(items, App) and items.op == 'sorted':
        src, keyk, rev = items.args
        want_key = 'first' if kind == 'map' else 'identity'
        if keyk != want_key or rev is not None:
            return f'sorted-by-{keyk}'
        if isinstance(src, App) and src.op == 'concat':
            parts = list(src.args)
            new = [p for p in parts if not (isinstance(p, Sym) and p.name == 'ITEMS')]
            if len(new) == 1 and isinstance(new[0], list) and len(new[0]) == 1:
                # uniqueness: the path must carry "key absent"
                absent = False
                for c, b in conds:
                    s = vrepr(c)
                    if not b and (s.startswith('in(') and 'ITEMS' in s):
                        absent = True
                    if not b and s.startswith('==(') and ('$k' in s or '$e' in s):
                        absent = True  # the representative entry (= every entry) has another key
                return 'sorted-insert' if absent else 'sorted-insert-without-absence-test'
        return 'sorted-unknown-uniqueness'
    return 'unclassified:' + vrepr(items)[:80]


def constructing_methods(repo: Repo, cq: str) -> List[str]:
    ci = repo.cls(cq)
    out = []
    for name, fi in ci.methods.items():
        for c in [n for n in ast.walk(fi.node) if isinstance(n, ast.Call)]:
            f = c.func
            if (isinstance(f, ast.Name) and f.id in ('cls', ci.name)) or \
                    (isinstance(f, ast.Call) and isinstance(f.func, ast.Name) and f.func.id == 'type'):
                out.append(name)
                break
    return out


ALLOWED = {
    'same', 'subsequence', 'sorted-insert', 'checked', 'empty',
}
# construction from arbitrary Python objects is outside the operations the property quantifies over
PY_LAYER = {'from_python_object', 'parse_python_object'}


def run(repo: Repo, chk: Check) -> None:
    chk.explanation = (
        'Induction over constructors: with the receiver\'s items assumed strictly sorted, every construction of a set/map value '
        'on every path of every constructing method is classified by abstract interpretation (same list, key-preserving '
        'subsequence, sorted insert under an absence condition, checked by check_constraints, empty).  Together with "only '
        '__init__ writes items and nothing mutates it in place" this proves the sortedness/uniqueness invariant for SetType and '
        'MapType, assuming C03 (the comparator is a strict total order) and that sorted() sorts.'
    )
    chk.assumptions += ['C03 (key comparator is a strict total order)', 'sorted() sorts stably by the comparator',
                        'one representative entry stands for all entries of self.items']

    # ---- 0 who may write ---------------------------------------------------------------------------------------
    chk.set_clause('C14.0')
    writes = 0
    coll = {SET, MAP} | set(repo.subclasses(SET)) | set(repo.subclasses(MAP))
    for fi in repo.iter_functions('pytezos.'):
        if fi.module.name == 'pytezos.rpc.docs':
            continue
        ann: Dict[str, str] = {}
        for a in fi.node.args.args + fi.node.args.kwonlyargs:
            if a.annotation is not None:
                d = dotted(a.annotation)
                if d:
                    ann[a.arg] = repo.resolve_name(fi.module, d)
        for n in ast.walk(fi.node):
            tgt = None
            how = None
            if isinstance(n, (ast.Assign, ast.AugAssign, ast.AnnAssign)):
                for t in (n.targets if isinstance(n, ast.Assign) else [n.target]):
                    if isinstance(t, ast.Attribute) and t.attr == 'items':
                        tgt, how = t.value, 'assignment'
                    if isinstance(t, ast.Subscript) and isinstance(t.value, ast.Attribute) and t.value.attr == 'items':
                        tgt, how = t.value.value, 'item assignment'
            elif isinstance(n, ast.Delete):
                for t in n.targets:
                    if isinstance(t, ast.Subscript) and isinstance(t.value, ast.Attribute) and t.value.attr == 'items':
                        tgt, how = t.value.value, 'del'
            elif isinstance(n, ast.Call) and isinstance(n.func, ast.Attribute) and n.func.attr in MUTATORS \
                    and isinstance(n.func.value, ast.Attribute) and n.func.value.attr == 'items':
                tgt, how = n.func.value.value, f'.{n.func.attr}()'
            if tgt is None:
                continue
            # receiver class
            rc: Optional[str] = None
            if isinstance(tgt, ast.Name) and tgt.id == 'self' and fi.cls is not None:
                rc = fi.cls.qualname
            elif isinstance(tgt, ast.Name) and tgt.id in ann:
                rc = ann[tgt.id]
            writes += 1
            if rc is None:
                chk.ob('R-FLOW', fi.qualname, False, f'{how} of .items on a receiver of unknown class: {norm(tgt)}',
                       f'{fi.module.relpath}:{n.lineno}', what='cannot exclude that a set/map body is written here')
                continue
            is_coll = rc in coll
            ok = (not is_coll) or (how == 'assignment' and fi.name == '__init__')
            chk.ob('R-FLOW', fi.qualname, ok, f'{how} of .items of {rc.rsplit(".", 1)[-1]}', f'{fi.module.relpath}:{n.lineno}',
                   {'receiver_class': rc}, what='the body of a set/map value is written outside its constructor')
    chk.minimum('writes of an .items attribute examined', writes, 15)

    # ---- 1/2/3 induction step ----------------------------------------------------------------------------------
    chk.set_clause('C14.1')
    nsites = 0
    for kind, cq in (('set', SET), ('map', MAP)):
        meths = constructing_methods(repo, cq)
        chk.minimum(f'constructing methods of {kind}', len(meths), 6)
        for name in meths:
            fi = repo.cls(cq).methods[name]
            hooks = IndHooks(repo, kind)
            it = Interp(repo, hooks, max_depth=3)
            decs = fi.decorators
            params = fi.params()

            def go(i, fi=fi, decs=decs, params=params, kind=kind, cq=cq):
                if 'staticmethod' in decs:
                    a = [Sym(p) for p in params]
                    return i.call_function(FuncRef(fi), a, {}, None, force_inline=True)
                recv: Any = ClassRef(cq) if 'classmethod' in decs else Obj(cq, {'items': Sym('ITEMS')})
                a = [Sym(p) for p in params[1:]]
                return i.call_function(FuncRef(fi, recv, True), a, {}, None, force_inline=True)

            try:
                res = it.run_paths(go)
            except AnalysisError as e:
                raise AnalysisError(f'{cq}.{name}: {e}')
            kinds_seen = {}
            for p in res:
                for ev in p.events:
                    if isinstance(ev, tuple) and ev[0] == 'construct':
                        nsites += 1
                        c = classify(kind, ev[1], ev[2], ev[3])
                        kinds_seen.setdefault(c, p.cond_repr()[:160])
            if not kinds_seen and all(p.outcome == 'raise' for p in res):
                continue
            for c, under in sorted(kinds_seen.items()):
                ok = c in ALLOWED or (name in PY_LAYER and c.startswith('sorted-'))
                chk.ob('R-FLOW', f'{cq}.{name}', ok, f'constructs from: {c}', fi.loc, {'under': under, 'paths': len(res)},
                       what=f'{name} builds a {kind} whose entries are "{c}": sortedness/uniqueness does not follow from the receiver\'s invariant')
            if name in ('from_micheline_value', 'from_items'):
                chk.ob('R-PATH', f'{cq}.{name}', set(kinds_seen) <= {'checked'} and bool(kinds_seen), 'literal entries pass check_constraints', fi.loc,
                       {'classes': sorted(kinds_seen)}, what='a literal / instruction-built collection is constructed without the order and duplicate check')
    chk.minimum('construction sites classified', nsites, 14)

    # ---- check_constraints tests both duplicates and order ---------------------------------------------------------
    chk.set_clause('C14.3')
    # decided in the order domain: entries of every weak ordering of up to 4 keys; accepted exactly when the keys are strictly increasing
    import itertools
    for kind, cq in (('set', SET), ('map', MAP)):
        fi = repo.cls(cq).methods['check_constraints']
        wrong = []
        ncases = 0
        for n in range(0, 5):
            for ranks in itertools.product(range(n), repeat=n) if n else [()]:
                if sorted(set(ranks)) != list(range(len(set(ranks)))):
                    continue  # canonical weak orderings only (ranks 0..k-1 all used)
                ncases += 1
                keys = [Ranked(i, r) for i, r in enumerate(ranks)]
                items = keys if kind == 'set' else [(k, Sym(f'v{i}')) for i, k in enumerate(keys)]
                res = Interp(repo, RankHooks(), max_depth=2).run_function(fi, [items], self_val=ClassRef(cq))
                accepted = [p.outcome for p in res] == ['return']
                rejected = bool(res) and all(p.outcome == 'raise' for p in res)
                want = all(ranks[i] < ranks[i + 1] for i in range(n - 1))
                if (want and not accepted) or (not want and not rejected):
                    wrong.append({'key_ranks': list(ranks), 'outcomes': [p.outcome for p in res], 'must_accept': want})
        dup_wrong = [w for w in wrong if len(set(w['key_ranks'])) < len(w['key_ranks'])]
        ord_wrong = [w for w in wrong if w not in dup_wrong]
        chk.ob('R-PATH', fi.qualname, not dup_wrong, 'rejects duplicates', fi.loc, {'orderings': ncases, 'wrong': dup_wrong[:3]},
               what=f'check_constraints accepts duplicate keys: {dup_wrong[:2]}')
        chk.ob('R-PATH', fi.qualname, not ord_wrong, 'accepts exactly the strictly increasing key sequences', fi.loc, {'orderings': ncases, 'wrong': ord_wrong[:3]},
               what=f'check_constraints decides wrongly on keys with ranks {ord_wrong[0]["key_ranks"] if ord_wrong else ""} '
                    f'({"rejects a sorted literal" if ord_wrong and ord_wrong[0]["must_accept"] else "accepts an unsorted literal"}): {ord_wrong[:2]}')

    # ---- 4 instruction call table ---------------------------------------------------------------------------------
    chk.set_clause('C14.4')
    S = 'pytezos.michelson.instructions.struct'
    table = {
        'MemInstruction': {'contains'}, 'GetInstruction': {'get'}, 'UpdateInstruction': {'add', 'remove', 'update'},
        'GetAndUpdateInstruction': {'update'},
    }
    for cname, want in table.items():
        fi = repo.func(f'{S}.{cname}.execute')
        called = set()
        # the collection operations the instruction (or the helpers later extracted from it) invokes, on whatever the collection is called there
        api = {'contains', 'get', 'add', 'remove', 'update'}
        for f2 in repo.with_fresh_callees(fi):
            for c in [n for n in ast.walk(f2.node) if isinstance(n, ast.Call)]:
                if isinstance(c.func, ast.Attribute) and isinstance(c.func.value, ast.Name) and c.func.attr in api and c.func.value.id not in ('stack', 'stdout', 'context'):
                    called.add(c.func.attr)
        chk.ob('R-TABLE', fi.qualname, called == want, f'calls {sorted(want)} on the collection', fi.loc, {'called': sorted(called)},
               what=f'{cname} uses {sorted(called)} instead of {sorted(want)}')
    sz = repo.func('pytezos.michelson.instructions.generic.SizeInstruction.execute')
    has_len = any(isinstance(c.func, ast.Name) and c.func.id == 'len' for c in ast.walk(sz.node) if isinstance(c, ast.Call))
    chk.ob('R-TABLE', sz.qualname, has_len, 'SIZE is len()', sz.loc, what='SIZE does not use len of the collection')

    # ---- memory across calls (shared rule, sa/statelint.py) ----------------------------------------------------------------------------------
    chk.set_clause('C14.M')
    from ..statelint import check_memory
    check_memory(repo, chk, ['pytezos.michelson.types.set.', 'pytezos.michelson.types.map.'],
                 'two collections share one item list: an insertion into one shows up in the other')


def controls(chk: Check) -> None:
    c = classify('set', App('sorted', App('concat', [Sym('x')], Sym('ITEMS')), 'identity', None), [], [])
    if c != 'sorted-insert-without-absence-test':
        raise AnalysisError('positive control of the induction classifier failed: ' + c)
    c2 = classify('map', [(Sym('j'), Sym('v'))], [], [])
    if c2 != 'rebuilt-with-changed-keys':
        raise AnalysisError('positive control of the induction classifier failed: ' + c2)
