"""C18 Michelson text formatting and parsing are inverse (structural clauses).

 1 is_framed, interpreted for every primitive of the tag table that can stand in argument position: an application with
   arguments or annotations must be put in parentheses (a zero-argument primitive without annotations must not need them);
   format_node applies the frame in argument position and not for sequence items / the root
 2 lexer/formatter agreement: every primitive name matches the PRIM token; literal kinds are written and read by inverse pairs
   (json.dumps/json.loads, '0x'+hex / strip two characters, decimal string / INT token)
 3 the grammar has the productions for every bracket the formatter emits
"""
from __future__ import annotations

import ast
import json
import os
import re
from typing import Any, Dict, List

from ..absint import App, Hooks, Interp, Sym, vrepr
from ..model import AnalysisError, Repo, dotted, norm
from ..report import Check

FMT = 'pytezos.michelson.format'
PARSE = 'pytezos.michelson.parse'
REF = os.path.join(os.path.dirname(os.path.dirname(__file__)), 'reference', 'prim_tags.json')
TYPES_WITH_ARGS = {'pair', 'or', 'option', 'list', 'set', 'map', 'big_map', 'lambda', 'contract', 'ticket', 'sapling_state',
                   'sapling_transaction', 'sapling_transaction_deprecated'}
DATA_WITH_ARGS = {'Pair', 'Left', 'Right', 'Some', 'Lambda_rec', 'Ticket'}
NOT_ARGUMENTS = {'parameter', 'storage', 'code', 'view'}  # top-level sections only


class SeqVal(list):
    """The parser's marker for an explicit `{ ... }` sequence (repo class Sequence(list)): a list subclass, so that exact type tests
    (`type(x) is list`) and isinstance tests behave as they do at run time."""


class _ParseHooks(Hooks):
    def inline(self, it, fi):
        return fi.name.startswith('p_')

    def call(self, it, callee, args, kwargs, node):
        from ..absint import ClassRef
        if isinstance(callee, ClassRef) and callee.qual.endswith('.parse.Sequence'):
            return SeqVal(args[0] if args else [])
        return NotImplemented


def productions(par) -> Dict[Any, Any]:
    """(head, right-hand side) -> method, read from the @doc('head : rhs | rhs') grammar docstrings (ply dispatches on them, the method
    names only need the p_ prefix)."""
    out: Dict[Any, Any] = {}
    for m in par.methods.values():
        for d in m.node.decorator_list:
            if isinstance(d, ast.Call) and dotted(d.func) == 'doc' and d.args and isinstance(d.args[0], ast.Constant):
                head = None
                for part in re.split(r'\n', d.args[0].value):
                    part = part.strip()
                    if ':' in part and not part.startswith('|'):
                        head, rhs = part.split(':', 1)
                        head = head.strip()
                        out[(head, ' '.join(rhs.split()))] = m
                    elif part.startswith('|') and head:
                        out[(head, ' '.join(part[1:].split()))] = m
    return out


def _prod(par, head: str, rhs: str):
    m = productions(par).get((head, rhs))
    if m is None:
        raise AnalysisError(f'parser production `{head} : {rhs}` not found')
    return m


def _shape(v: Any) -> Any:
    if isinstance(v, SeqVal):
        return ('Seq',) + tuple(_shape(x) for x in v)
    if isinstance(v, list):
        return ('list',) + tuple(_shape(x) for x in v)
    if isinstance(v, dict):
        return v.get('prim') or v.get('int')
    return repr(v)


def _run_prod(repo: Repo, m, pv: List[Any]):
    """Interpret a production function on the yacc slice `pv` and return p[0] as the path value."""
    import copy
    from ..absint import FuncRef

    def go(it):
        p = copy.deepcopy(pv)
        it.call_function(FuncRef(m, Sym('self'), True), [p], {}, None, force_inline=True)
        return p[0]

    return Interp(repo, _ParseHooks(), max_depth=1).run_paths(go)


def _p0(res) -> Any:
    return res[0].value


def _nesting_clause(repo: Repo, chk: Check, par) -> None:
    """The productions that build sequences keep the nesting level of an explicit inner `{ ... }` (a Sequence), flatten only the plain
    accumulator list of `a ; b`, and wrap a single expression - decided by interpreting the production functions on the four kinds of
    right-hand-side values."""
    a, b, c = {'prim': 'A'}, {'prim': 'B'}, {'prim': 'C'}
    flat, inner, single, empty = [a, b], SeqVal([a]), c, None
    cases = {
        'p_arg_subseq': lambda x: [None, '{', x, '}'],
        'p_instr_subseq': lambda x: [None, '{', x, '}'],
    }
    rule_of = {'p_arg_subseq': ('arg', 'LEFT_CURLY instr RIGHT_CURLY'), 'p_instr_subseq': ('instr', 'LEFT_CURLY instr RIGHT_CURLY')}
    want = {
        # arg : { instr } -> the argument list of items; an explicit inner sequence stays ONE item
        ('p_arg_subseq', 'flat'): ('list', 'A', 'B'), ('p_arg_subseq', 'inner'): ('list', ('Seq', 'A')), ('p_arg_subseq', 'single'): ('list', 'C'),
        ('p_arg_subseq', 'empty'): ('list',), ('p_arg_subseq', 'empty-inner'): ('list', ('Seq',)),
        # instr : { instr } -> an explicit sequence
        ('p_instr_subseq', 'flat'): ('Seq', 'A', 'B'), ('p_instr_subseq', 'inner'): ('Seq', ('Seq', 'A')), ('p_instr_subseq', 'single'): ('Seq', 'C'),
        ('p_instr_subseq', 'empty'): ('Seq',), ('p_instr_subseq', 'empty-inner'): ('Seq', ('Seq',)),
    }
    # (an explicit EMPTY inner sequence `{ {} }` is one - falsy - element: it must not be mistaken for "nothing between the braces")
    vals = {'flat': flat, 'inner': inner, 'single': single, 'empty': empty, 'empty-inner': SeqVal([])}
    n = 0
    for mname, mk in cases.items():
        m = _prod(par, *rule_of[mname])
        for kind, x in vals.items():
            n += 1
            import copy
            pv = mk(copy.deepcopy(x))
            res = _run_prod(repo, m, pv)
            got = _shape(_p0(res)) if len(res) == 1 and res[0].outcome == 'return' else ('?', [p.outcome for p in res])
            chk.ob('R-TEMPLATE', m.qualname, got == want[(mname, kind)], f'{mname} on a {kind} right-hand side keeps the nesting', m.loc,
                   {'built': str(got), 'reference': str(want[(mname, kind)])},
                   what=f'{mname}: for a {kind} `instr` value the production builds {got}, the Micheline of the text is {want[(mname, kind)]} '
                        f'(an explicit inner {{ ... }} must stay one nested element; only the plain `a ; b` accumulator is spliced)')
    # instr : instr SEMI instr and args : args arg
    m = _prod(par, 'instr', 'instr SEMI instr')
    for (k1, x), (k2, y) in [(('flat', flat), ('single', single)), (('inner', inner), ('single', single)), (('single', single), ('inner', inner)),
                             (('inner', inner), ('inner', SeqVal([b]))), (('empty', None), ('single', single))]:
        n += 1
        import copy
        pv = [None, copy.deepcopy(x), ';', copy.deepcopy(y)]
        res = _run_prod(repo, m, pv)
        exp: List[Any] = []
        for v in (x, y):
            if type(v) is list:
                exp.extend(v)
            elif v is not None:
                exp.append(v)
        got = _shape(_p0(res)) if len(res) == 1 and res[0].outcome == 'return' else ('?',)
        chk.ob('R-TEMPLATE', m.qualname, got == _shape(exp), f'p_instr_list on {k1} ; {k2} splices plain lists only', m.loc, {'built': str(got), 'reference': str(_shape(exp))},
               what=f'p_instr_list: `{k1} ; {k2}` builds {got}, expected {_shape(exp)} (explicit sequences are single items of the enclosing sequence)')
    m = _prod(par, 'args', 'args arg')
    for k2, y in (('inner', inner), ('flat list argument', flat), ('single', single)):
        n += 1
        import copy
        pv = [None, [b], copy.deepcopy(y)]
        res = _run_prod(repo, m, pv)
        got = _shape(_p0(res)) if len(res) == 1 and res[0].outcome == 'return' else ('?',)
        exp2 = [b, y]
        chk.ob('R-TEMPLATE', m.qualname, got == _shape(exp2), f'p_args_list appends a {k2} argument as ONE argument', m.loc, {'built': str(got), 'reference': str(_shape(exp2))},
               what=f'p_args_list: an argument that is a {k2} is not appended as a single argument: {got}')
    chk.minimum('sequence-building production cases', n, 16)


def run(repo: Repo, chk: Check) -> None:
    chk.explanation = (
        'is_framed is evaluated for every primitive of the tag table that can occur as an argument, with and without arguments / '
        'annotations, and compared with the Michelson concrete-syntax rule (an application with arguments or annotations in '
        'argument position needs parentheses).  format_node is interpreted on small shapes to check where the frame is applied.  '
        'Literal kinds are checked as writer/reader pairs and the lexer regexps against the names the formatter can emit.  '
        'parse(format(e)) == e over all trees is not decided (the parser is table-driven by ply).'
    )
    with open(REF) as f:
        ref = json.load(f)
    prim_tags = repo.const('pytezos.michelson.tags.prim_tags')
    isf = repo.func(f'{FMT}.is_framed')
    it = Interp(repo, Hooks(), max_depth=1)

    def framed(node) -> Any:
        res = it.run_function(isf, [node])
        if len(res) != 1 or res[0].outcome != 'return':
            raise AnalysisError(f'is_framed({node}) has {len(res)} paths / raises')
        return res[0].value

    chk.set_clause('C18.1')
    arg_prims = [p for p in prim_tags if p in ref['tags'] and (p[0].islower() or p in DATA_WITH_ARGS) and p not in NOT_ARGUMENTS]
    chk.minimum('primitives that can stand in argument position', len(arg_prims), 40)
    child = {'prim': 'unit'}
    for p in sorted(arg_prims):
        takes_args = p in TYPES_WITH_ARGS or p in DATA_WITH_ARGS or p == 'constant'
        cname = f'{FMT}.is_framed'
        if takes_args:
            r = framed({'prim': p, 'args': [child]})
            chk.ob('R-TABLE', cname, r is True, f'{p} with arguments is framed', isf.loc, {'is_framed': r},
                   what=f'`{p} ...` with arguments is printed without parentheses in argument position: e.g. `list ({p} x)` re-parses as two arguments')
        if p[0].islower() and p != 'constant':
            r = framed({'prim': p, 'annots': ['%x'], **({'args': [child]} if takes_args else {})})
            chk.ob('R-TABLE', cname, r is True, f'{p} with an annotation is framed', isf.loc, {'is_framed': r},
                   what=f'`{p} %x` is printed without parentheses in argument position: `list ({p} %x)` would come out as `list {p} %x`, which annotates the list')
            if not takes_args:
                r = framed({'prim': p})
                chk.ob('R-TABLE', cname, r is False or r is True, f'{p} bare', isf.loc, {'is_framed': r}, what='is_framed fails on a bare type')
    # where the frame is applied
    fn = repo.func(f'{FMT}.format_node')

    def fmt(node, **kw):
        _it = Interp(repo, Hooks(), max_depth=40)
        _it.max_recursion = 20
        res = _it.run_function(fn, [node], kw)
        if len(res) != 1 or res[0].outcome != 'return' or not isinstance(res[0].value, str):
            raise AnalysisError(f'format_node on a constant shape is not a constant: {[(p.outcome, vrepr(p.value)[:60]) for p in res]}')
        return res[0].value

    pair = {'prim': 'pair', 'args': [{'prim': 'nat'}, {'prim': 'int', 'annots': ['%a']}]}
    shapes = {
        'argument position': ({'prim': 'option', 'args': [pair]}, dict(is_root=True), 'option (pair nat (int %a))'),
        'root is not framed': (pair, dict(is_root=True), 'pair nat (int %a)'),
        'sequence items are not framed': ([{'prim': 'PUSH', 'args': [pair, {'prim': 'Pair', 'args': [{'int': '1'}, {'int': '-2'}]}]}], dict(is_root=True),
                                          '{ PUSH (pair nat (int %a)) (Pair 1 -2) }'),
        'literals': ([{'prim': 'PUSH', 'args': [{'prim': 'bytes'}, {'bytes': '00ff'}]}, {'prim': 'PUSH', 'args': [{'prim': 'string'}, {'string': 'a"b\\c\n'}]}],
                     dict(is_root=True), '{ PUSH bytes 0x00ff ; PUSH string "a\\"b\\\\c\\n" }'),
        'empty sequence': ({'prim': 'LAMBDA', 'args': [{'prim': 'unit'}, {'prim': 'unit'}, []]}, dict(is_root=True), 'LAMBDA unit unit {}'),
        'nested sequences': ([[{'prim': 'DROP'}], []], dict(is_root=True), '{ { DROP } ; {} }'),
        'data sequence items are not framed': ([{'prim': 'Pair', 'args': [{'int': '1'}, {'int': '2'}]}, {'prim': 'Some', 'args': [{'prim': 'Unit'}]}], dict(is_root=True),
                                               '{ Pair 1 2 ; Some Unit }'),
        'annotated instruction': ([{'prim': 'CAR', 'annots': ['@x', '%y']}], dict(is_root=True), '{ CAR @x %y }'),
    }
    for name, (node, kw, want) in shapes.items():
        got = fmt(node, **kw)
        chk.ob('R-TEMPLATE', fn.qualname, got == want, f'shape: {name}', fn.loc, {'text': got, 'expected': want},
               what=f'{name}: formatted as {got!r}, the concrete syntax needs {want!r}')
    # multi-line layout only changes white space: same tokens
    long = [{'prim': 'PUSH', 'args': [pair, {'prim': 'Pair', 'args': [{'int': str(10 ** 30)}, {'int': '-2'}]}]}] * 6
    a, b = fmt(long, is_root=True, inline=True), fmt(long, is_root=True, inline=False)
    chk.ob('R-TEMPLATE', fn.qualname, a.split() == b.split() and '\n' in b and '\n' not in a, 'inline and multi-line layouts have the same tokens', fn.loc,
           {'inline': a[:80], 'multiline': b[:80]}, what='the multi-line layout is not a re-spacing of the inline layout')

    # ---- 2 lexer / formatter agreement ----------------------------------------------------------------------------------
    chk.set_clause('C18.2')
    lex = repo.cls(f'{PARSE}.SimpleMichelsonLexer')

    def tok(name):
        e = lex.attrs.get(name)
        if not (isinstance(e, ast.Constant) and isinstance(e.value, str)):
            raise AnalysisError(f'lexer token {name} is not a string constant')
        return e.value

    t_prim, t_int, t_byte, t_str, t_annot = tok('t_PRIM'), tok('t_INT'), tok('t_BYTE'), tok('t_STR'), tok('t_ANNOT')
    bad = [p for p in prim_tags if not re.fullmatch(t_prim, p) and p not in ref['aliases']]  # aliases: deprecated placeholders never printed
    chk.ob('R-TABLE', f'{PARSE}.SimpleMichelsonLexer.t_PRIM', not bad, 'every primitive name is a PRIM token', lex.loc, {'pattern': t_prim, 'unmatched': bad[:5]},
           what=f'primitives {bad[:5]} are printed by the formatter but not recognised by the lexer')
    ambiguous = [p for p in prim_tags if re.fullmatch(t_int, p) or re.fullmatch(t_byte, p)]
    chk.ob('R-TABLE', f'{PARSE}.SimpleMichelsonLexer.t_PRIM', not ambiguous, 'no primitive name is also a literal token', lex.loc, {'ambiguous': ambiguous},
           what='a primitive name lexes as a literal')
    samples_int = ['0', '-1', '123456789012345678901234567890', '-0']
    chk.ob('R-PAIR', f'{PARSE}.SimpleMichelsonLexer.t_INT', all(re.fullmatch(t_int, s) for s in samples_int) and not re.fullmatch(t_int, '0x12'), 'INT token accepts signed decimals', lex.loc,
           {'pattern': t_int}, what='negative or large integers printed by the formatter are not INT tokens')
    chk.ob('R-PAIR', f'{PARSE}.SimpleMichelsonLexer.t_BYTE', all(re.fullmatch(t_byte, s) for s in ('0x', '0x00ff', '0xABcd')) and len(t_byte) > len(t_int), 'BYTE token accepts 0x-prefixed hex, tried before INT', lex.loc,
           {'pattern': t_byte}, what='bytes literals printed as 0x... are not BYTE tokens (or INT is tried first and eats the 0)')
    annots = ['%a', ':t', '@v', '%', '%@', '%%', '@%', '@%%', '%a.b_c1', '%0']
    chk.ob('R-PAIR', f'{PARSE}.SimpleMichelsonLexer.t_ANNOT', all(re.fullmatch(t_annot, s) for s in annots), 'ANNOT token accepts field/type/var and special annotations', lex.loc,
           {'pattern': t_annot}, what='an annotation the formatter prints verbatim is not an ANNOT token')
    strs = [json.dumps(s) for s in ('', 'abc', 'a"b', 'a\\b', 'line\nbreak', 'tab\t', 'unié')]
    chk.ob('R-PAIR', f'{PARSE}.SimpleMichelsonLexer.t_STR', all(re.fullmatch(t_str, s) for s in strs), 'STR token accepts every json.dumps output', lex.loc,
           {'pattern': t_str}, what='a string literal printed with json.dumps is not a single STR token')
    # token boundary: in the printed text a string literal ends at ITS closing quote, whatever follows (another string, a backslash before the quote)
    tails = ['', 'abc', 'a"b', 'ends with backslash\\', 'C:\\dir\\', '\\', 'x\\"', 'line\nbreak']
    bad_b = []
    for s1 in tails:
        for s2 in ('b', 'q"r', 'z\\'):
            lit1 = json.dumps(s1)
            text = lit1 + ' ; ' + json.dumps(s2) + ' }'
            m = re.match(t_str, text)
            if m is None or m.group(0) != lit1:
                bad_b.append((text, m.group(0) if m else None))
    chk.ob('R-PAIR', f'{PARSE}.SimpleMichelsonLexer.t_STR', not bad_b, 'STR token ends at the closing quote of the literal (escaped backslashes and quotes)', lex.loc,
           {'pattern': t_str, 'mis-tokenised': bad_b[:2]},
           what=f'the STR token of the lexer does not stop at the end of a printed string literal: in {bad_b[0][0] if bad_b else ""!r} it matches {bad_b[0][1] if bad_b else ""!r} '
                '(a string ending in a backslash swallows the following tokens)')
    # writer / reader pairs, decided by interpreting both sides on an opaque literal payload
    par = repo.cls(f'{PARSE}.MichelsonParser')

    def write(kind):
        _it = Interp(repo, Hooks(), max_depth=40)
        res = _it.run_function(fn, [{kind: Sym('v', 'str')}], {})
        if len(res) != 1 or res[0].outcome != 'return':
            raise AnalysisError(f'format_node on a {kind} literal: {[(r.outcome, vrepr(r.value)[:60]) for r in res]}')
        return res[0].value

    def read(head, tokname, kind):
        m = _prod(par, head, tokname)
        res = _run_prod(repo, m, [None, Sym('tok', 'str')])
        if len(res) != 1 or res[0].outcome != 'return' or not isinstance(res[0].value, dict):
            raise AnalysisError(f'production `{head} : {tokname}` does not build a node: {[(r.outcome, vrepr(r.value)[:60]) for r in res]}')
        return res[0].value

    w = {k: vrepr(write(k)) for k in ('int', 'bytes', 'string')}
    want_w = {'int': vrepr(Sym('v')), 'bytes': vrepr(App('cat', '0x', Sym('v'))), 'string': vrepr(App('call:json.dumps', Sym('v')))}
    want_r = {'INT': {'int': vrepr(Sym('tok'))}, 'BYTE': {'bytes': vrepr(App('slice', Sym('tok'), 2, None, None))},
              'STR': {'string': vrepr(App('call:json.loads', Sym('tok')))}}
    r_bad = []
    for head in ('arg', 'instr'):
        for tokname, kind in (('INT', 'int'), ('BYTE', 'bytes'), ('STR', 'string')):
            got = {k: vrepr(v) for k, v in read(head, tokname, kind).items()}
            if got != want_r[tokname]:
                r_bad.append((f'{head} : {tokname}', got))
    chk.ob('R-PAIR', fn.qualname, w == want_w and not r_bad, 'literal writers and readers are inverse pairs in both positions', fn.loc,
           {'writers': w, 'readers_off': r_bad},
           what='a literal kind is written by one convention and read by another (string escapes / 0x prefix / decimal): '
                f'writers {w}, readers that differ {r_bad}')

    # ---- 3 grammar productions --------------------------------------------------------------------------------------------
    chk.set_clause('C18.3')
    prods = set(productions(par))
    need = {('arg', 'LEFT_PAREN expr RIGHT_PAREN'), ('arg', 'LEFT_CURLY instr RIGHT_CURLY'), ('instr', 'LEFT_CURLY instr RIGHT_CURLY'),
            ('instr', 'instr SEMI instr'), ('expr', 'PRIM annots args'), ('arg', 'PRIM'), ('arg', 'INT'), ('arg', 'BYTE'), ('arg', 'STR'),
            ('instr', 'INT'), ('instr', 'BYTE'), ('instr', 'STR'), ('annots', 'annots annot'), ('args', 'args arg'), ('instr', 'empty'), ('args', 'empty')}
    missing = sorted(need - prods)
    chk.ob('R-TABLE', par.qualname, not missing, 'grammar productions for every construct the formatter emits', par.loc,
           {'productions': len(prods), 'missing': missing}, what=f'grammar lacks {missing}: text printed by the formatter cannot be parsed')
    # ---- 4 nesting kept by the sequence-building productions ----------------------------------------------------------------------
    chk.set_clause('C18.4')
    _nesting_clause(repo, chk, par)

    # ---- memory across calls (shared rule, sa/statelint.py) ----------------------------------------------------------------------------------
    chk.set_clause('C18.M')
    from ..statelint import check_memory
    check_memory(repo, chk, ['pytezos.michelson.parse.', 'pytezos.michelson.format.'],
                 'the expression returned by the parser is shared with earlier callers: editing one result edits the next parse of the same text')
