"""C33 Registered global constants expand wherever they occur (traversal completeness).

resolve_global_constants is interpreted over Micheline *shapes* with opaque leaves (primitive names, annotations, literals are
symbols): a `constant` node at the top, inside `args` of an application, inside a sequence, inside the registered value of
another constant, in the second argument, with annotations kept; unknown hash -> KeyError; malformed reference -> ValueError;
everything else returned unchanged.  register_global_constant keys by forge_script_expr(forge_micheline(expr)).
"""
from __future__ import annotations

from typing import Any, Dict

from ..absint import App, ExcVal, FuncRef, Hooks, Interp, Obj, Sym, vkey, vrepr
from ..model import AnalysisError, Repo
from ..report import Check

CTX = 'pytezos.context.impl.ExecutionContext'


class H(Hooks):
    def inline(self, it, fi):
        return fi.qualname in (f'{CTX}.resolve_global_constants', f'{CTX}.register_global_constant', 'pytezos.michelson.forge.forge_script_expr')

    def truth(self, it, term):
        if isinstance(term, Sym):
            return True
        return None

    def compare(self, it, op, a, b, node):
        # opaque primitive names stand for any primitive other than `constant`
        if op in ('==', '!=') and {type(a), type(b)} == {Sym, str}:
            return op == '!='
        return NotImplemented


def const(h):
    return {'prim': 'constant', 'args': [{'string': h}]}


def run(repo: Repo, chk: Check) -> None:
    chk.explanation = (
        'resolve_global_constants is interpreted on Micheline shapes with opaque leaves; the result tree is compared with the '
        'expected substitution for references at every structural position.  Decides traversal completeness and the failure '
        'cases, not equality on all scripts or cycles.'
    )
    rf = repo.func(f'{CTX}.resolve_global_constants')
    P, Q, A = Sym('P', 'str'), Sym('Q', 'str'), Sym('annots')
    leaf = {'int': Sym('n', 'str')}
    val1 = {'prim': Sym('V', 'str'), 'annots': Sym('va')}
    registry = {'H1': val1, 'H2': {'prim': Q, 'args': [const('H1'), leaf]}, 'H3': [const('H1')], 'H4': []}
    cases: Dict[str, Any] = {
        'reference at the top': (const('H1'), val1),
        'reference as first argument': ({'prim': P, 'args': [const('H1'), leaf], 'annots': A}, {'prim': P, 'args': [val1, leaf], 'annots': A}),
        'reference as last argument': ({'prim': P, 'args': [leaf, const('H1')]}, {'prim': P, 'args': [leaf, val1]}),
        'reference inside a sequence': ([leaf, const('H1')], [leaf, val1]),
        'reference in a sequence inside arguments': ({'prim': P, 'args': [[const('H1')]]}, {'prim': P, 'args': [[val1]]}),
        'reference in a sequence nested directly in a sequence': ([leaf, [const('H1')]], [leaf, [val1]]),
        'reference three sequences deep': ([[[const('H1')], leaf]], [[[val1], leaf]]),
        'reference nested two applications deep': ({'prim': P, 'args': [{'prim': Q, 'args': [const('H1')]}]},
                                                   {'prim': P, 'args': [{'prim': Q, 'args': [val1]}]}),
        'registered value refers to another constant': (const('H2'), {'prim': Q, 'args': [val1, leaf]}),
        'registered value is a sequence with a reference': ({'prim': P, 'args': [const('H3')]}, {'prim': P, 'args': [[val1]]}),
        'registered value is the empty sequence': (const('H4'), []),
        'registered empty sequence as an argument': ({'prim': P, 'args': [leaf, const('H4')]}, {'prim': P, 'args': [leaf, []]}),
        'no reference: application unchanged': ({'prim': P, 'args': [leaf], 'annots': A}, {'prim': P, 'args': [leaf], 'annots': A}),
        'no reference: leaf unchanged': (leaf, leaf),
        'no reference: nullary prim unchanged': ({'prim': P, 'annots': A}, {'prim': P, 'annots': A}),
        'empty sequence unchanged': ([], []),
    }
    chk.set_clause('C33.1')
    for name, (expr, want) in cases.items():
        it = Interp(repo, H(), max_depth=30)
        it.max_recursion = 8

        def make(expr=expr):
            import copy
            return Obj(CTX, {'global_constants': copy.deepcopy(registry)}), [copy.deepcopy(expr)], {}

        res = it.run_method(rf, make)
        ok = len(res) == 1 and res[0].outcome == 'return' and vkey(res[0].value) == vkey(want)
        chk.ob('R-TEMPLATE', rf.qualname, ok, name, rf.loc, {'result': [vrepr(p.value) for p in res], 'expected': vrepr(want)},
               what=f'{name}: expansion gives {[vrepr(p.value) for p in res][:1]}, expected {vrepr(want)}')
    fails = {
        'unknown hash -> KeyError': (const('H9'), 'KeyError'),
        'unknown hash nested -> KeyError': ({'prim': P, 'args': [[const('H9')]]}, 'KeyError'),
        'reference without argument -> ValueError': ({'prim': 'constant'}, 'ValueError'),
        'reference with a non-string argument -> ValueError': ({'prim': 'constant', 'args': [{'int': '1'}]}, 'ValueError'),
    }
    for name, (expr, exc) in fails.items():
        it = Interp(repo, H(), max_depth=30)
        it.max_recursion = 8

        def make(expr=expr):
            import copy
            return Obj(CTX, {'global_constants': copy.deepcopy(registry)}), [copy.deepcopy(expr)], {}

        res = it.run_method(rf, make)
        ok = len(res) >= 1 and all(p.outcome == 'raise' and p.value.cls == exc for p in res)
        chk.ob('R-PATH', rf.qualname, ok, name, rf.loc, {'outcomes': [(p.outcome, vrepr(p.value)) for p in res]},
               what=f'{name}: got {[(p.outcome, vrepr(p.value)) for p in res][:1]}')

    chk.set_clause('C33.2')
    reg = repo.func(f'{CTX}.register_global_constant')
    final: Dict[str, Any] = {}

    # the expression is registered AS GIVEN (references inside it are expanded when it is used): its key is the hash of the forged expression itself
    for what, expression in (('an opaque expression', Sym('expression')), ('an expression that refers to another constant', {'prim': Q, 'args': [const('H1'), leaf]})):
        def make2(expression=expression):
            import copy
            return Obj(CTX, {'global_constants': {'H1': copy.deepcopy(val1)}}), [copy.deepcopy(expression)], {}

        def after(it, o):
            it.event('registry', dict(o.fields['global_constants']))

        hooks = _RegHooks()
        if not isinstance(expression, Sym):
            hooks.inline = lambda it, fi: fi.qualname == f'{CTX}.resolve_global_constants'  # type: ignore  # should registration call it, it is interpreted
        it2 = Interp(repo, hooks, max_depth=30)
        it2.max_recursion = 8
        want_key = App('call:pytezos.michelson.forge.forge_script_expr', App('call:pytezos.michelson.forge.forge_micheline', expression))
        okk = False
        shown: Any = []
        try:
            res = it2.run_method(reg, make2, after)
            for p in res:
                for e in p.events:
                    if isinstance(e, tuple) and e[0] == 'registry':
                        d = {k: v for k, v in e[1].items() if k != 'H1'}
                        okk = len(d) == 1 and vkey(list(d.keys())[0]) == vkey(want_key) and vkey(list(d.values())[0]) == vkey(expression)
            shown = [vrepr(e[1])[:300] for p in res for e in p.events if isinstance(e, tuple) and e[0] == 'registry']
        except RecursionError:
            # the stored value refers back to the context object (it was produced by a method of the context): not the expression as given
            okk, shown = False, ['the registered value is derived from the context itself (cyclic term)']
        chk.ob('R-TEMPLATE', reg.qualname, okk, f'{what} is stored as given under the script-expr hash of its forged form (no 0x05)', reg.loc,
               {'registry': shown},
               what=f'registering {what}: the registry key is not forge_script_expr(forge_micheline(expression)) of the expression as given, or the stored value was rewritten '
                    f'(a script that refers to the constant by the hash of the registered expression no longer finds it)')
    fse = repo.func('pytezos.michelson.forge.forge_script_expr')
    res = Interp(repo, _RegHooks(), max_depth=1).run_function(fse, [Sym('packed')])
    want = App('mcall:decode', App('call:pytezos.crypto.encoding.base58_encode',
                                   App('mcall:digest', App('call:pytezos.crypto.key.blake2b_32', Sym('packed'))), b'expr'))
    chk.ob('R-TEMPLATE', fse.qualname, len(res) == 1 and vkey(res[0].value) == vkey(want), "base58 'expr' of blake2b-256", fse.loc,
           {'result': vrepr(res[0].value)}, what='script expression hash is not base58(expr, blake2b_32(data))')
    b32 = repo.func('pytezos.crypto.key.blake2b_32')
    from ..bytelen import hash_size
    import ast
    rets = [n for n in ast.walk(b32.node) if isinstance(n, ast.Return)]
    chk.ob('R-TABLE', b32.qualname, len(rets) == 1 and hash_size(repo, b32.module, rets[0].value) == 32, 'digest size 32', b32.loc,
           what='blake2b_32 does not use a 32-byte digest')


class _RegHooks(Hooks):
    def inline(self, it, fi):
        return False


def controls(chk: Check) -> None:
    pass
