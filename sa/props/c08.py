"""C08 Key import, export and address derivation are consistent (structural clauses).

 1 (prefix, length) obligations for public_key, secret_key (plain / ed25519 full / encrypted), public_key_hash,
   blinded_public_key_hash per curve; curve -> tz prefix map equals the reference
 2 R-PAIR encryption parameters (KDF name, iterations, dklen, nonce, salt length/position) equal in secret_key and from_encoded_key
 3 from_encoded_key accepts every key kind of the table (prefix and length whitelists), strips nothing else, and dispatches
   public keys to from_public_point and secret keys to from_secret_exponent with the right curve
 4 HASH_KEY = Key.from_encoded_key(..).public_key_hash()
 5 the BLS secret scalar is read with the same byte order when deriving the public key and when signing
 6 from_mnemonic validates the checksum before deriving when validate is on
"""
from __future__ import annotations

from typing import Any, Dict, List

from ..absint import App, ClassRef, FuncRef, Hooks, Interp, Obj, Sym, vkey, vrepr
from ..keymodel import CURVES, EXT, KEY, KeyHooks, key_obj, term_len
from ..model import AnalysisError, Repo
from ..report import Check
from .c09 import table

REF_TZ = {b'ed': b'tz1', b'sp': b'tz2', b'p2': b'tz3', b'BL': b'tz4'}


def encodes(res) -> List[Any]:
    return [e for p in res for e in p.events if isinstance(e, tuple) and e[0] == 'encode']


def ext_events(res, name) -> List[Any]:
    return [e for p in res for e in p.events if isinstance(e, tuple) and e[0] == 'ext' and e[1] == name]


class ImportHooks(KeyHooks):
    def call(self, it, callee, args, kwargs, node):
        if isinstance(callee, FuncRef) and callee.fi is not None and callee.fi.qualname == 'pytezos.crypto.encoding.base58_decode' \
                and isinstance(args[0], bytes):
            rows = [r for r in self.rows if len(args[0]) == r[1] and args[0].startswith(r[0])]
            from ..absint import ExcVal, Raised
            if not rows:
                raise Raised(ExcVal('ValueError', ('no row',)))
            return Sym('decoded', 'bytes', length=rows[0][3])
        if isinstance(callee, FuncRef) and callee.fi is not None and callee.fi.name in ('from_public_point', 'from_secret_exponent') \
                and callee.fi.cls is not None:
            it.event('construct', callee.fi.name, args, kwargs)
            return Sym('key-object')
        return super().call(it, callee, args, kwargs, node)


def run(repo: Repo, chk: Check) -> None:
    chk.explanation = (
        'Key export/import methods are interpreted per curve with opaque crypto primitives of curated result length: every base58 '
        'encoding performed must hit a table row, the encryption parameters of export and import must be identical, every key kind '
        'of the table must be importable and dispatched to the right constructor.  Agreement with independent curve '
        'implementations and BIP-39 arithmetic are not decided.'
    )
    rows = table(repo)
    rowset = {(r[0], r[3]) for r in rows}

    # ---- 1 -------------------------------------------------------------------------------------------------------------
    chk.set_clause('C08.1')
    for curve in CURVES:
        c = curve.decode()
        cases = [
            ('public_key', [], {}, curve + b'pk', EXT['public_key_length_by_curve'][c]),
            ('secret_key', [], {}, curve + b'sk', 32),
            ('secret_key', [], {'passphrase': Sym('pw', 'bytes')}, curve + b'esk', 56),
            ('public_key_hash', [], {}, REF_TZ[curve], 20),
        ]
        if curve == b'ed':
            cases.append(('secret_key', [], {'ed25519_seed': False}, b'edsk', 64))
        for meth, a, kw, want_prefix, want_len in cases:
            fi = repo.func(f'{KEY}.{meth}')
            res = Interp(repo, _ExportHooks(repo), max_depth=2).run_method(fi, lambda cv=curve, a=a, kw=kw: (key_obj(cv), list(a), dict(kw)))
            enc = encodes(res)
            ok = bool(enc) and all(e[1] == want_len and e[2] == want_prefix and (e[2], e[1]) in rowset for e in enc) \
                and any(p.outcome == 'return' for p in res)
            chk.ob('R-TABLE', fi.qualname, ok, f'{c}: {meth}({", ".join(kw)}) -> {want_prefix.decode()}({want_len})', fi.loc,
                   {'encodes': [(e[1], e[2].decode() if isinstance(e[2], bytes) else vrepr(e[2])) for e in enc]},
                   what=f'{meth} of a {c} key encodes {[(e[1], e[2]) for e in enc][:2]}, expected a {want_len}-byte payload under {want_prefix!r}')
    bk = repo.func(f'{KEY}.blinded_public_key_hash')

    def mk_blind():
        o = key_obj(b'ed')
        o.fields['activation_code'] = Sym('activation_code', 'str')
        return o, [], {}

    res = Interp(repo, _ExportHooks(repo), max_depth=2).run_method(bk, mk_blind)
    enc = encodes(res)
    chk.ob('R-TABLE', bk.qualname, bool(enc) and all(e[1] == 20 and e[2] == b'btz1' for e in enc), 'btz1(20)', bk.loc,
           {'encodes': [(e[1], e[2]) for e in enc]}, what='blinded public key hash is not a 20-byte btz1 value')

    # ---- 2 encryption parameters -------------------------------------------------------------------------------------------
    chk.set_clause('C08.2')
    sk = repo.func(f'{KEY}.secret_key')
    fe = repo.func(f'{KEY}.from_encoded_key')
    rexp = Interp(repo, _ExportHooks(repo), max_depth=2).run_method(sk, lambda: (key_obj(b'sp'), [], {'passphrase': Sym('pw', 'bytes')}))
    fake = b'spesk' + b'1' * 83
    hk = ImportHooks(repo)
    hk.rows = rows
    rimp = Interp(repo, hk, max_depth=2).run_function(fe, [fake], {'passphrase': Sym('pw', 'bytes')}, self_val=ClassRef(KEY))
    kdf_e, kdf_i = ext_events(rexp, 'hashlib.pbkdf2_hmac'), ext_events(rimp, 'hashlib.pbkdf2_hmac')
    if not (kdf_e and kdf_i):
        chk.ob('R-PAIR', sk.qualname, False, 'encrypted keys are derived through PBKDF2 on export and import', sk.loc,
               {'export_calls': len(kdf_e), 'import_calls': len(kdf_i)}, what='the encryption or the decryption path does not call pbkdf2_hmac')
        kdf_e = kdf_e or [(None, None, [], {})]
        kdf_i = kdf_i or [(None, None, [], {})]
    for param in ('hash_name', 'iterations', 'dklen'):
        a, b = kdf_e[0][3].get(param), kdf_i[0][3].get(param)
        chk.ob('R-PAIR', sk.qualname, a is not None and a == b, f'KDF {param} equal on export and import', sk.loc, {'export': a, 'import': b},
               what=f'secret_key derives the encryption key with {param}={a!r} but from_encoded_key with {b!r}: exported keys cannot be imported')
    ref_kdf = {'hash_name': 'sha512', 'iterations': 32768, 'dklen': 32}
    for param, v in ref_kdf.items():
        chk.ob('R-TABLE', sk.qualname, kdf_e[0][3].get(param) == v, f'KDF {param} == {v}', sk.loc, {'found': kdf_e[0][3].get(param)},
               what=f'Tezos encrypts secret keys with PBKDF2 {param}={v}')
    box_e, box_i = ext_events(rexp, 'pysodium.crypto_secretbox'), ext_events(rimp, 'pysodium.crypto_secretbox_open')
    if not (box_e and box_i):
        chk.ob('R-PAIR', sk.qualname, False, 'secretbox used on export and import', sk.loc, what='secretbox / secretbox_open call missing')
        box_e = box_e or [(None, None, [], {})]
        box_i = box_i or [(None, None, [], {})]
    ne, ni = box_e[0][3].get('nonce'), box_i[0][3].get('nonce')
    chk.ob('R-PAIR', sk.qualname, ne == ni == b'\x00' * 24, 'secretbox nonce equal (24 zero bytes)', sk.loc, {'export': vrepr(ne), 'import': vrepr(ni)},
           what='nonce differs between encryption and decryption')
    # salt: export uses randombytes(n) and prepends it; import slices [:n] / [n:]
    rb = ext_events(rexp, 'pysodium.randombytes')
    n_exp = rb[0][2][0] if rb and rb[0][2] else None
    salt_i = kdf_i[0][3].get('salt')
    body_i = box_i[0][3].get('c')
    n_imp = term_len(salt_i)
    chk.ob('R-PAIR', sk.qualname, n_exp == 8 and n_imp == 8 and term_len(body_i) == 56 - 8, 'salt is the first 8 bytes on both sides', sk.loc,
           {'export_salt_len': n_exp, 'import_salt': vrepr(salt_i), 'import_body': vrepr(body_i)},
           what=f'salt length on export is {n_exp}, on import {n_imp}; the rest must be the {56 - 8}-byte box')
    enc = encodes(rexp)
    okcat = bool(enc) and isinstance(enc[0][3], App) and enc[0][3].op == 'cat' and vrepr(enc[0][3].args[0]).startswith("ext('pysodium.randombytes'")
    chk.ob('R-PAIR', sk.qualname, okcat, 'exported payload is salt || box', sk.loc, {'payload': vrepr(enc[0][3])[:200] if enc else None},
           what='the encrypted payload is not salt followed by the secretbox output')
    chk.ob('R-PAIR', sk.qualname, vrepr(kdf_e[0][3].get('salt')).startswith("ext('pysodium.randombytes'") and
           vrepr(kdf_e[0][3].get('password')) == '$pw' and vrepr(kdf_i[0][3].get('password')) == '$passphrase', 'KDF fed with passphrase and salt', sk.loc,
           {'export_password': vrepr(kdf_e[0][3].get('password')), 'import_password': vrepr(kdf_i[0][3].get('password'))},
           what='the KDF is not fed with the passphrase and the stored salt')

    # ---- 3 import of every key kind ---------------------------------------------------------------------------------------
    chk.set_clause('C08.3')
    kinds = [r for r in rows if r[0][:2] in CURVES and (r[0][2:] in (b'pk', b'sk', b'esk'))]
    chk.minimum('key kinds in the base58 table', len(kinds), 13)
    for r in kinds:
        fake = r[0] + b'1' * (r[1] - len(r[0]))
        hk = ImportHooks(repo)
        hk.rows = rows
        res = Interp(repo, hk, max_depth=2).run_function(fe, [fake], {'passphrase': Sym('pw', 'bytes')}, self_val=ClassRef(KEY))
        cons = [e for p in res for e in p.events if isinstance(e, tuple) and e[0] == 'construct']
        curve = r[0][:2]
        is_pk = r[0].endswith(b'pk')
        ok = len(res) == 1 and res[0].outcome == 'return' and len(cons) == 1
        if ok:
            name, a, kw = cons[0][1], cons[0][2], cons[0][3]
            ok = name == ('from_public_point' if is_pk else 'from_secret_exponent') and (curve in a or curve in kw.values())
            payload = a[0]
            if r[0].endswith(b'esk'):
                ok = ok and vrepr(payload).startswith("ext('pysodium.crypto_secretbox_open'")
            else:
                ok = ok and vrepr(payload) == '$decoded'
        chk.ob('R-DISPATCH', fe.qualname, ok, f'imports {r[0].decode()}({r[1]})', fe.loc,
               {'outcomes': [(p.outcome, vrepr(p.value)[:80]) for p in res], 'constructs': [(c[1], [vrepr(x)[:40] for x in c[2]]) for c in cons]},
               what=f'a {r[0].decode()} key of {r[1]} characters is not imported through the right constructor')
    for bad, why in ((b'xxsk' + b'1' * 50, 'unknown curve prefix'), (b'edsk' + b'1' * 49, 'unknown length'), (b'edzz' + b'1' * 50, 'neither pk nor sk')):
        hk = ImportHooks(repo)
        hk.rows = rows
        res = Interp(repo, hk, max_depth=2).run_function(fe, [bad], {}, self_val=ClassRef(KEY))
        chk.ob('R-PATH', fe.qualname, bool(res) and all(p.outcome == 'raise' for p in res), f'rejects {why}', fe.loc,
               what=f'from_encoded_key accepts a string with {why}')

    # ---- 4 HASH_KEY ---------------------------------------------------------------------------------------------------------
    chk.set_clause('C08.4')
    hkf = repo.func('pytezos.michelson.instructions.crypto.HashKeyInstruction.execute')
    res = Interp(repo, _HashKeyHooks(), max_depth=1).run_function(hkf, [Sym('stack'), [], Sym('context')],
                                                                  self_val=ClassRef('pytezos.michelson.instructions.crypto.HashKeyInstruction'))
    pushed = [e for p in res for e in p.events if isinstance(e, tuple) and e[0] == 'push']
    ok = len(pushed) == 1 and vrepr(pushed[0][1]) == "KeyHashType.from_value(mcall:public_key_hash(Key.from_encoded_key(str($a))))"
    chk.ob('R-TABLE', hkf.qualname, ok, 'HASH_KEY = key_hash of Key.from_encoded_key(key).public_key_hash()', hkf.loc,
           {'pushed': [vrepr(e[1]) for e in pushed]}, what='HASH_KEY does not push the public key hash of the given key')

    # ---- 5 BLS scalar byte order ------------------------------------------------------------------------------------------------
    chk.set_clause('C08.5')
    fse = repo.func(f'{KEY}.from_secret_exponent')
    r1 = Interp(repo, KeyHooks(repo), max_depth=2).run_function(fse, [Sym('secret_exponent', 'bytes', length=32)], {'curve': b'BL'}, self_val=ClassRef(KEY))
    sign = repo.func(f'{KEY}.sign')
    r2 = Interp(repo, KeyHooks(repo), max_depth=2).run_method(sign, lambda: (key_obj(b'BL'), [Sym('message', 'bytes')], {}))
    a1 = ext_events(r1, 'py_ecc.bls.G2MessageAugmentation.SkToPk')
    a2 = ext_events(r2, 'py_ecc.bls.G2MessageAugmentation.Sign')
    chk.require(a1 and a2, 'BLS SkToPk / Sign calls not found')
    s1, s2 = vrepr(a1[0][2][0]), vrepr(a2[0][2][0])
    chk.ob('R-PAIR', sign.qualname, s1 == s2 and 'int.from_bytes($secret_exponent' in s1, 'BLS scalar decoded identically for SkToPk and Sign', sign.loc,
           {'derive': s1, 'sign': s2}, what=f'the BLS secret is read as {s1} for the public key but {s2} for signing: signatures never verify')

    # ---- 6 mnemonic validation ----------------------------------------------------------------------------------------------------
    chk.set_clause('C08.6')
    fm = repo.func(f'{KEY}.from_mnemonic')
    for validate in (True, False):
        res = Interp(repo, KeyHooks(repo, opaque_methods={'from_secret_exponent'}), max_depth=2).run_function(
            fm, [Sym('mnemonic', 'str')], {'validate': validate}, self_val=ClassRef(KEY))
        ok = True
        for p in res:
            names = [e[0] if e[0] != 'ext' else e[1] for e in p.events if isinstance(e, tuple)]
            has_val = 'validate_mnemonic' in names
            seed_i = next((i for i, n in enumerate(names) if 'to_seed' in str(n)), None)
            if validate:
                ok = ok and has_val and seed_i is not None and names.index('validate_mnemonic') < seed_i
            else:
                ok = ok and not has_val
        chk.ob('R-PATH', fm.qualname, ok and bool(res), f'validate={validate}: checksum validation {"precedes" if validate else "is skipped before"} seed derivation', fm.loc,
               what='the mnemonic checksum is not validated before the seed is derived')
    d = fm.node.args.defaults
    names = [a.arg for a in fm.node.args.args]
    dv = dict(zip(names[-len(d):], d))
    chk.ob('R-TABLE', fm.qualname, getattr(dv.get('validate'), 'value', None) is True, 'validate defaults to True', fm.loc,
           what='mnemonics are not validated by default')


class _ExportHooks(KeyHooks):
    def isinstance(self, it, obj, classes):
        from ..absint import Builtin
        if isinstance(obj, Sym) and obj.name == 'pw':
            return any(isinstance(c, Builtin) and c.name == 'bytes' for c in classes)
        return NotImplemented

    def truth(self, it, term):
        if isinstance(term, Sym) and term.name == 'pw':
            return True
        return super().truth(it, term)


class _HashKeyHooks(Hooks):
    def inline(self, it, fi):
        return fi.name == 'execute'

    def call(self, it, callee, args, kwargs, node):
        if isinstance(callee, App) and callee.op == 'attr':
            recv, name = callee.args
            if name == 'pop1':
                return Sym('a')
            if name == 'push':
                it.event('push', args[0])
                return None
            if name in ('assert_type_equal', 'append'):
                return None
        if isinstance(callee, FuncRef) and callee.fi is not None:
            if callee.fi.name == 'format_stdout':
                return 'stdout'
            if callee.fi.cls is not None:
                return App(f'{callee.fi.cls.name}.{callee.fi.name}', *args)
        if isinstance(callee, ClassRef) and callee.qual.endswith('HashKeyInstruction'):
            return Sym('instr')
        return NotImplemented

    def name(self, it, name, node):
        return NotImplemented


def controls(chk: Check) -> None:
    if term_len(App('slice', Sym('d', length=56), None, 8, None)) != 8 or term_len(App('slice', Sym('d', length=56), 8, None, None)) != 48:
        raise AnalysisError('slice length control failed')
