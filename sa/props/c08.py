"""C08 Key import, export and address derivation are consistent (structural clauses).

 1 (prefix, length) obligations for public_key, secret_key (plain / ed25519 full / encrypted), public_key_hash,
   blinded_public_key_hash per curve; curve -> tz prefix map equals the reference
 2 R-PAIR encryption parameters (KDF name, iterations, dklen, nonce, salt length/position) equal in secret_key and from_encoded_key
 3 from_encoded_key accepts every key kind of the table (prefix and length whitelists), strips nothing else, and dispatches
   public keys to from_public_point and secret keys to from_secret_exponent with the right curve
 4 HASH_KEY = Key.from_encoded_key(..).public_key_hash()
 5 the BLS secret scalar is read with the same byte order when deriving the public key and when signing
 6 from_mnemonic validates the checksum before deriving when validate is on
"""
from __future__ import annotations

from typing import Any, Dict, List

from ..absint import App, ClassRef, FuncRef, Hooks, Interp, Obj, Sym, vkey, vrepr
from ..keymodel import CURVES, EXT, KEY, KeyHooks, key_obj, term_len
from ..model import AnalysisError, Repo
from ..report import Check
from .c09 import table

REF_TZ = {b'ed': b'tz1', b'sp': b'tz2', b'p2': b'tz3', b'BL': b'tz4'}


def encodes(res) -> List[Any]:
    return [e for p in res for e in p.events if isinstance(e, tuple) and e[0] == 'encode']


def ext_events(res, name) -> List[Any]:
    return [e for p in res for e in p.events if isinstance(e, tuple) and e[0] == 'ext' and e[1] == name]


class ImportHooks(KeyHooks):
    def call(self, it, callee, args, kwargs, node):
        if isinstance(callee, FuncRef) and callee.fi is not None and callee.fi.qualname == 'pytezos.crypto.encoding.base58_decode' \
                and isinstance(args[0], bytes):
            rows = [r for r in self.rows if len(args[0]) == r[1] and args[0].startswith(r[0])]
            from ..absint import ExcVal, Raised
            if not rows:
                raise Raised(ExcVal('ValueError', ('no row',)))
            return Sym('decoded', 'bytes', length=rows[0][3])
        if isinstance(callee, FuncRef) and callee.fi is not None and callee.fi.name in ('from_public_point', 'from_secret_exponent') \
                and callee.fi.cls is not None:
            it.event('construct', callee.fi.name, args, kwargs)
            return Sym('key-object')
        return super().call(it, callee, args, kwargs, node)


def run(repo: Repo, chk: Check) -> None:
    chk.explanation = (
        'Key export/import methods are interpreted per curve with opaque crypto primitives of curated result length: every base58 '
        'encoding performed must hit a table row, the encryption parameters of export and import must be identical, every key kind '
        'of the table must be importable and dispatched to the right constructor.  Agreement with independent curve '
        'implementations and BIP-39 arithmetic are not decided.'
    )
    rows = table(repo)
    rowset = {(r[0], r[3]) for r in rows}

    # ---- 1 -------------------------------------------------------------------------------------------------------------
    chk.set_clause('C08.1')
    for curve in CURVES:
        c = curve.decode()
        cases = [
            ('public_key', [], {}, curve + b'pk', EXT['public_key_length_by_curve'][c]),
            ('secret_key', [], {}, curve + b'sk', 32),
            ('secret_key', [], {'passphrase': Sym('pw', 'bytes')}, curve + b'esk', 56),
            ('public_key_hash', [], {}, REF_TZ[curve], 20),
        ]
        if curve == b'ed':
            cases.append(('secret_key', [], {'ed25519_seed': False}, b'edsk', 64))
        for meth, a, kw, want_prefix, want_len in cases:
            fi = repo.func(f'{KEY}.{meth}')
            res = Interp(repo, _ExportHooks(repo), max_depth=2).run_method(fi, lambda cv=curve, a=a, kw=kw: (key_obj(cv), list(a), dict(kw)))
            enc = encodes(res)
            ok = bool(enc) and all(e[1] == want_len and e[2] == want_prefix and (e[2], e[1]) in rowset for e in enc) \
                and any(p.outcome == 'return' for p in res)
            chk.ob('R-TABLE', fi.qualname, ok, f'{c}: {meth}({", ".join(kw)}) -> {want_prefix.decode()}({want_len})', fi.loc,
                   {'encodes': [(e[1], e[2].decode() if isinstance(e[2], bytes) else vrepr(e[2])) for e in enc]},
                   what=f'{meth} of a {c} key encodes {[(e[1], e[2]) for e in enc][:2]}, expected a {want_len}-byte payload under {want_prefix!r}')
    bk = repo.func(f'{KEY}.blinded_public_key_hash')

    def mk_blind():
        o = key_obj(b'ed')
        o.fields['activation_code'] = Sym('activation_code', 'str')
        return o, [], {}

    res = Interp(repo, _ExportHooks(repo), max_depth=2).run_method(bk, mk_blind)
    enc = encodes(res)
    chk.ob('R-TABLE', bk.qualname, bool(enc) and all(e[1] == 20 and e[2] == b'btz1' for e in enc), 'btz1(20)', bk.loc,
           {'encodes': [(e[1], e[2]) for e in enc]}, what='blinded public key hash is not a 20-byte btz1 value')

    # ---- 2 encryption parameters -------------------------------------------------------------------------------------------
    chk.set_clause('C08.2')
    sk = repo.func(f'{KEY}.secret_key')
    fe = repo.func(f'{KEY}.from_encoded_key')
    rexp = Interp(repo, _ExportHooks(repo), max_depth=2).run_method(sk, lambda: (key_obj(b'sp'), [], {'passphrase': Sym('pw', 'bytes')}))
    fake = b'spesk' + b'1' * 83
    hk = ImportHooks(repo)
    hk.rows = rows
    rimp = Interp(repo, hk, max_depth=2).run_function(fe, [fake], {'passphrase': Sym('pw', 'bytes')}, self_val=ClassRef(KEY))
    kdf_e, kdf_i = ext_events(rexp, 'hashlib.pbkdf2_hmac'), ext_events(rimp, 'hashlib.pbkdf2_hmac')
    if not (kdf_e and kdf_i):
        chk.ob('R-PAIR', sk.qualname, False, 'encrypted keys are derived through PBKDF2 on export and import', sk.loc,
               {'export_calls': len(kdf_e), 'import_calls': len(kdf_i)}, what='the encryption or the decryption path does not call pbkdf2_hmac')
        kdf_e = kdf_e or [(None, None, [], {})]
        kdf_i = kdf_i or [(None, None, [], {})]
    for param in ('hash_name', 'iterations', 'dklen'):
        a, b = kdf_e[0][3].get(param), kdf_i[0][3].get(param)
        chk.ob('R-PAIR', sk.qualname, a is not None and a == b, f'KDF {param} equal on export and import', sk.loc, {'export': a, 'import': b},
               what=f'secret_key derives the encryption key with {param}={a!r} but from_encoded_key with {b!r}: exported keys cannot be imported')
    ref_kdf = {'hash_name': 'sha512', 'iterations': 32768, 'dklen': 32}
    for param, v in ref_kdf.items():
        chk.ob('R-TABLE', sk.qualname, kdf_e[0][3].get(param) == v, f'KDF {param} == {v}', sk.loc, {'found': kdf_e[0][3].get(param)},
               what=f'Tezos encrypts secret keys with PBKDF2 {param}={v}')
    box_e, box_i = ext_events(rexp, 'pysodium.crypto_secretbox'), ext_events(rimp, 'pysodium.crypto_secretbox_open')
    if not (box_e and box_i):
        chk.ob('R-PAIR', sk.qualname, False, 'secretbox used on export and import', sk.loc, what='secretbox / secretbox_open call missing')
        box_e = box_e or [(None, None, [], {})]
        box_i = box_i or [(None, None, [], {})]
    ne, ni = box_e[0][3].get('nonce'), box_i[0][3].get('nonce')
    chk.ob('R-PAIR', sk.qualname, ne == ni == b'\x00' * 24, 'secretbox nonce equal (24 zero bytes)', sk.loc, {'export': vrepr(ne), 'import': vrepr(ni)},
           what='nonce differs between encryption and decryption')
    # salt: export uses randombytes(n) and prepends it; import slices [:n] / [n:]
    rb = ext_events(rexp, 'pysodium.randombytes')
    n_exp = rb[0][2][0] if rb and rb[0][2] else None
    salt_i = kdf_i[0][3].get('salt')
    body_i = box_i[0][3].get('c')
    n_imp = term_len(salt_i)
    chk.ob('R-PAIR', sk.qualname, n_exp == 8 and n_imp == 8 and term_len(body_i) == 56 - 8, 'salt is the first 8 bytes on both sides', sk.loc,
           {'export_salt_len': n_exp, 'import_salt': vrepr(salt_i), 'import_body': vrepr(body_i)},
           what=f'salt length on export is {n_exp}, on import {n_imp}; the rest must be the {56 - 8}-byte box')
    # a passphrase given as text is turned into the same bytes on both sides
    class _StrPw(KeyHooks):
        scrub_marks = True

        def inline(self, it, fi):
            return fi.name == 'get_passphrase' or super().inline(it, fi)

        def isinstance(self, it, obj, classes):
            from ..absint import Builtin
            if isinstance(obj, Sym) and obj.name == 'pw':
                return any(isinstance(c, Builtin) and c.name == 'str' for c in classes)
            if isinstance(obj, App) and obj.op in ('mcall:encode', 'scrub'):
                return any(isinstance(c, Builtin) and c.name == 'bytes' for c in classes)
            return NotImplemented

        def truth(self, it, term):
            if isinstance(term, Sym) and term.name == 'pw':
                return True
            return super().truth(it, term)

        def compare(self, it, op, a, b, node):
            if op in ('is', 'is not') and any(isinstance(x, Sym) and x.name == 'pw' for x in (a, b)) and (a is None or b is None):
                return op == 'is not'  # a passphrase was given
            return NotImplemented

        def call(self, it, callee, args, kwargs, node):
            if isinstance(callee, FuncRef) and callee.fi is not None and callee.fi.qualname == 'pytezos.crypto.key.get_passphrase':
                return NotImplemented  # interpreted here
            return super().call(it, callee, args, kwargs, node)

    class _StrPwImport(_StrPw, ImportHooks):
        def call(self, it, callee, args, kwargs, node):
            if isinstance(callee, FuncRef) and callee.fi is not None and callee.fi.qualname == 'pytezos.crypto.key.get_passphrase':
                return NotImplemented
            return ImportHooks.call(self, it, callee, args, kwargs, node)

    r_e = Interp(repo, _StrPw(repo), max_depth=3).run_method(sk, lambda: (key_obj(b'sp'), [], {'passphrase': Sym('pw', 'str')}))
    hi = _StrPwImport(repo)
    hi.rows = rows
    r_i = Interp(repo, hi, max_depth=3).run_function(fe, [fake], {'passphrase': Sym('pw', 'str')}, self_val=ClassRef(KEY))
    pe = sorted({vrepr(e[3].get('password')) for e in ext_events(r_e, 'hashlib.pbkdf2_hmac')})
    pi = sorted({vrepr(e[3].get('password')) for e in ext_events(r_i, 'hashlib.pbkdf2_hmac')})
    chk.ob('R-PAIR', sk.qualname, bool(pe) and pe == pi, 'a text passphrase becomes the same bytes on export and import', sk.loc, {'export': pe, 'import': pi},
           what=f'secret_key feeds the KDF with {pe} for a str passphrase, from_encoded_key with {pi}: a key exported with a text passphrase cannot be imported with it')
    enc = encodes(rexp)
    okcat = bool(enc) and isinstance(enc[0][3], App) and enc[0][3].op == 'cat' and vrepr(enc[0][3].args[0]).startswith("ext('pysodium.randombytes'")
    chk.ob('R-PAIR', sk.qualname, okcat, 'exported payload is salt || box', sk.loc, {'payload': vrepr(enc[0][3])[:200] if enc else None},
           what='the encrypted payload is not salt followed by the secretbox output')
    chk.ob('R-PAIR', sk.qualname, vrepr(kdf_e[0][3].get('salt')).startswith("ext('pysodium.randombytes'") and
           vrepr(kdf_e[0][3].get('password')) == '$pw' and vrepr(kdf_i[0][3].get('password')) == '$passphrase', 'KDF fed with passphrase and salt', sk.loc,
           {'export_password': vrepr(kdf_e[0][3].get('password')), 'import_password': vrepr(kdf_i[0][3].get('password'))},
           what='the KDF is not fed with the passphrase and the stored salt')

    # ---- 3 import of every key kind ---------------------------------------------------------------------------------------
    chk.set_clause('C08.3')
    kinds = [r for r in rows if r[0][:2] in CURVES and (r[0][2:] in (b'pk', b'sk', b'esk'))]
    chk.minimum('key kinds in the base58 table', len(kinds), 13)
    for r in kinds:
        fake = r[0] + b'1' * (r[1] - len(r[0]))
        hk = ImportHooks(repo)
        hk.rows = rows
        res = Interp(repo, hk, max_depth=2).run_function(fe, [fake], {'passphrase': Sym('pw', 'bytes')}, self_val=ClassRef(KEY))
        cons = [e for p in res for e in p.events if isinstance(e, tuple) and e[0] == 'construct']
        curve = r[0][:2]
        is_pk = r[0].endswith(b'pk')
        ok = len(res) == 1 and res[0].outcome == 'return' and len(cons) == 1
        if ok:
            name, a, kw = cons[0][1], cons[0][2], cons[0][3]
            ok = name == ('from_public_point' if is_pk else 'from_secret_exponent') and (curve in a or curve in kw.values())
            payload = a[0]
            if r[0].endswith(b'esk'):
                ok = ok and vrepr(payload).startswith("ext('pysodium.crypto_secretbox_open'")
            else:
                ok = ok and vrepr(payload) == '$decoded'
        chk.ob('R-DISPATCH', fe.qualname, ok, f'imports {r[0].decode()}({r[1]})', fe.loc,
               {'outcomes': [(p.outcome, vrepr(p.value)[:80]) for p in res], 'constructs': [(c[1], [vrepr(x)[:40] for x in c[2]]) for c in cons]},
               what=f'a {r[0].decode()} key of {r[1]} characters is not imported through the right constructor')
    for bad, why in ((b'xxsk' + b'1' * 50, 'unknown curve prefix'), (b'edsk' + b'1' * 49, 'unknown length'), (b'edzz' + b'1' * 50, 'neither pk nor sk')):
        hk = ImportHooks(repo)
        hk.rows = rows
        res = Interp(repo, hk, max_depth=2).run_function(fe, [bad], {}, self_val=ClassRef(KEY))
        chk.ob('R-PATH', fe.qualname, bool(res) and all(p.outcome == 'raise' for p in res), f'rejects {why}', fe.loc,
               what=f'from_encoded_key accepts a string with {why}')

    # ---- 4 HASH_KEY ---------------------------------------------------------------------------------------------------------
    chk.set_clause('C08.4')
    hkf = repo.func('pytezos.michelson.instructions.crypto.HashKeyInstruction.execute')
    res = Interp(repo, _HashKeyHooks(), max_depth=1).run_function(hkf, [Sym('stack'), [], Sym('context')],
                                                                  self_val=ClassRef('pytezos.michelson.instructions.crypto.HashKeyInstruction'))
    pushed = [e for p in res for e in p.events if isinstance(e, tuple) and e[0] == 'push']
    ok = len(pushed) == 1 and vrepr(pushed[0][1]) == "KeyHashType.from_value(mcall:public_key_hash(Key.from_encoded_key(str($a))))"
    chk.ob('R-TABLE', hkf.qualname, ok, 'HASH_KEY = key_hash of Key.from_encoded_key(key).public_key_hash()', hkf.loc,
           {'pushed': [vrepr(e[1]) for e in pushed]}, what='HASH_KEY does not push the public key hash of the given key')

    # ---- 5 BLS scalar byte order ------------------------------------------------------------------------------------------------
    chk.set_clause('C08.5')
    fse = repo.func(f'{KEY}.from_secret_exponent')
    r1 = Interp(repo, KeyHooks(repo), max_depth=2).run_function(fse, [Sym('secret_exponent', 'bytes', length=32)], {'curve': b'BL'}, self_val=ClassRef(KEY))
    sign = repo.func(f'{KEY}.sign')
    r2 = Interp(repo, KeyHooks(repo), max_depth=2).run_method(sign, lambda: (key_obj(b'BL'), [Sym('message', 'bytes')], {}))
    a1 = ext_events(r1, 'py_ecc.bls.G2MessageAugmentation.SkToPk')
    a2 = ext_events(r2, 'py_ecc.bls.G2MessageAugmentation.Sign')
    chk.require(a1 and a2, 'BLS SkToPk / Sign calls not found')
    s1, s2 = vrepr(a1[0][2][0]), vrepr(a2[0][2][0])
    chk.ob('R-PAIR', sign.qualname, s1 == s2 and 'int.from_bytes($secret_exponent' in s1, 'BLS scalar decoded identically for SkToPk and Sign', sign.loc,
           {'derive': s1, 'sign': s2}, what=f'the BLS secret is read as {s1} for the public key but {s2} for signing: signatures never verify')

    # ---- 6 mnemonic validation ----------------------------------------------------------------------------------------------------
    chk.set_clause('C08.6')
    fm = repo.func(f'{KEY}.from_mnemonic')
    for validate in (True, False):
        res = Interp(repo, KeyHooks(repo, opaque_methods={'from_secret_exponent'}), max_depth=2).run_function(
            fm, [Sym('mnemonic', 'str')], {'validate': validate}, self_val=ClassRef(KEY))
        ok = True
        for p in res:
            names = [e[0] if e[0] != 'ext' else e[1] for e in p.events if isinstance(e, tuple)]
            has_val = 'validate_mnemonic' in names
            seed_i = next((i for i, n in enumerate(names) if 'to_seed' in str(n)), None)
            if validate:
                ok = ok and has_val and seed_i is not None and names.index('validate_mnemonic') < seed_i
            else:
                ok = ok and not has_val
        chk.ob('R-PATH', fm.qualname, ok and bool(res), f'validate={validate}: checksum validation {"precedes" if validate else "is skipped before"} seed derivation', fm.loc,
               what='the mnemonic checksum is not validated before the seed is derived')
    # BIP-39 arithmetic of the checksum test, in a length domain: n words = 11n bits = ENT + ENT/32 with ENT = 32n/3
    vm = repo.func('pytezos.crypto.key.validate_mnemonic')
    lengths = repo.const('pytezos.crypto.key.VALID_MNEMONIC_LENGTHS')
    chk.ob('R-TABLE', vm.qualname, sorted(lengths) == [12, 15, 18, 21, 24], 'valid mnemonic lengths are 12, 15, 18, 21, 24 words', vm.loc, {'found': lengths},
           what=f'VALID_MNEMONIC_LENGTHS is {lengths}')
    for n in sorted(set(lengths) | {12, 24}):
        ent, cs = 32 * n // 3, n // 3
        res = Interp(repo, MnemonicHooks(n), max_depth=2).run_function(vm, [Sym('mnemonic', 'str')])
        evs = [e for p in res for e in p.events if isinstance(e, tuple)]
        unhex = {(e[1], e[2]) for e in evs if e[0] == 'unhexlify'}
        sha_in = {(e[1], e[2]) for e in evs if e[0] == 'sha256-input'}
        cmp_ = {(e[1], e[2]) for e in evs if e[0] == 'compare'}
        outs = sorted({p.outcome for p in res})
        looked = sorted({e[1] for e in evs if e[0] == 'wordlist-lookup'})
        chk.ob('R-FLOW', vm.qualname, bool(looked) and all(isinstance(w, str) and w.startswith('nfkd') for w in looked),
               f'{n} words: the words looked up in the word list are cut from the NFKD-normalised sentence', vm.loc, {'looked_up': looked[:4]},
               what=f'{n}-word mnemonics: the words searched in the BIP-39 word list ({looked[:2]}) do not come from the NFKD-normalised sentence: a valid '
                    'mnemonic typed in composed form (French, Spanish, Japanese) is rejected')
        overflow = [e for e in evs if e[0] == 'to_bytes-may-overflow']
        # (the hex-digit count only exists when the entropy goes through a hexadecimal text; then it must be exact as well)
        ok = unhex <= {(ent // 4, ent // 4)} and sha_in == {(ent // 8, ent // 8)} and cmp_ == {((cs, cs), (cs, cs))} and outs == ['raise', 'return'] and not overflow
        chk.ob('R-GUARD', vm.qualname, ok, f'{n} words: the entropy is always {ent // 8} bytes and {cs} checksum bits are compared with {cs} bits of its SHA-256', vm.loc,
               {'hex_digits_of_entropy': sorted(unhex), 'sha256_input_bytes': sorted(sha_in), 'compared_lengths': sorted(cmp_), 'outcomes': outs},
               what=f'{n}-word mnemonics: the entropy handed to SHA-256 has {sorted(unhex)} hex digits (must be exactly {ent // 4}: leading zero nibbles are part of it) '
                    f'and the compared bit strings have lengths {sorted(cmp_)} (must be {cs} and {cs}): valid mnemonics are rejected or invalid ones accepted')
    d = fm.node.args.defaults
    names = [a.arg for a in fm.node.args.args]
    dv = dict(zip(names[-len(d):], d))
    chk.ob('R-TABLE', fm.qualname, getattr(dv.get('validate'), 'value', None) is True, 'validate defaults to True', fm.loc,
           what='mnemonics are not validated by default')


class SL:
    """A text (or bytes) value of which only the length interval is known."""

    def __init__(self, lo: int, hi: int, what: str = ''):
        self.lo, self.hi, self.what = lo, hi, what

    def key(self):
        return ('SL', self.lo, self.hi, self.what)

    def __repr__(self):
        return f'<{self.what or "text"} of {self.lo}{"" if self.lo == self.hi else ".." + str(self.hi)} chars>'

    def __deepcopy__(self, memo):
        return self


class IB:
    """An integer of which only the interval is known."""

    def __init__(self, lo: int, hi: int):
        self.lo, self.hi = lo, hi

    def key(self):
        return ('IB', self.lo, self.hi)

    def __deepcopy__(self, memo):
        return self


class MnemonicHooks(Hooks):
    """Length domain for validate_mnemonic: n words, each an index below 2048."""

    def __init__(self, n_words: int):
        self.n = n_words

    def inline(self, it, fi):
        return fi.name == 'validate_mnemonic'

    def attr(self, it, obj, name, node):
        if isinstance(obj, (SL, IB)):
            return App('attr', obj, name)
        return NotImplemented

    def subscript(self, it, obj, idx, node):
        if isinstance(obj, SL) and isinstance(idx, int) and 'digest' in obj.what and -obj.lo <= idx < obj.lo:
            return IB(0, 255)  # one byte of the digest
        if isinstance(obj, SL) and isinstance(idx, slice) and all(x is None or isinstance(x, int) for x in (idx.start, idx.stop)) and idx.step is None:
            def cut(n: int) -> int:
                return len(range(*idx.indices(n)))
            return SL(cut(obj.lo), cut(obj.hi), obj.what)
        return NotImplemented

    def call(self, it, callee, args, kwargs, node):
        from ..absint import BoundMethod, Builtin, ModRef
        if isinstance(callee, BoundMethod) and callee.name == 'join' and isinstance(callee.recv, str) and args:
            from ..absint import LazyGen
            parts = list(it.iterate(args[0], node)) if isinstance(args[0], (list, tuple, LazyGen)) else None  # list, map(...) or a generator expression
            if parts is not None and all(isinstance(x, SL) for x in parts):
                k = len(callee.recv) * max(0, len(parts) - 1)
                return SL(sum(x.lo for x in parts) + k, sum(x.hi for x in parts) + k, 'bits')
            if parts is not None:
                args = [parts]
        if isinstance(callee, App) and callee.op == 'attr':
            recv, name = callee.args
            if isinstance(recv, SL):
                if name == 'zfill' and isinstance(args[0], int):
                    return SL(max(recv.lo, args[0]), max(recv.hi, args[0]), recv.what)
                if name == 'rstrip':
                    return recv
            if name == 'split' and isinstance(recv, (Sym, App)):
                # the words keep the provenance of the sentence they were cut from (BIP-39: the NFKD-normalised sentence)
                src = 'nfkd' if (isinstance(recv, Sym) and recv.name == 'normalized') else 'raw'
                return [Sym(f'{src}word{i}', 'str') for i in range(self.n)]
            if name == 'normalize_string':
                return Sym('normalized', 'str')
            if name == 'index':
                it.event('wordlist-lookup', args[0].name if args and isinstance(args[0], Sym) else vrepr(args[0]) if args else None)
                return IB(0, 2047)  # position in the 2048-word list
            if name == 'hexdigest':
                return SL(64, 64, 'sha256 hex')
            if name == 'digest':
                return SL(32, 32, 'sha256 digest')
            if name == 'to_bytes' and isinstance(recv, IB) and args and isinstance(args[0], int):
                # exactly n bytes, whatever the value (leading zero bytes included); a value that does not fit raises OverflowError
                if recv.hi >= 256 ** args[0]:
                    it.event('to_bytes-may-overflow', recv.hi.bit_length(), args[0])
                return SL(args[0], args[0], 'entropy bytes')
            if name == 'join' and isinstance(args[0], (list, tuple)) and all(isinstance(x, SL) for x in args[0]):
                return SL(sum(x.lo for x in args[0]), sum(x.hi for x in args[0]), 'bits')
        if isinstance(callee, Builtin):
            if callee.name == 'bin' and isinstance(args[0], IB):
                return SL(2 + max(1, args[0].lo.bit_length()), 2 + max(1, args[0].hi.bit_length()), 'bin')
            if callee.name == 'hex' and isinstance(args[0], IB):
                return SL(2 + max(1, (args[0].lo.bit_length() + 3) // 4), 2 + max(1, (args[0].hi.bit_length() + 3) // 4), 'hex')
            if callee.name == 'int' and isinstance(args[0], SL) and len(args) == 2 and args[1] in (2, 16):
                per = 1 if args[1] == 2 else 4
                return IB(0, (1 << (per * args[0].hi)) - 1)
            if callee.name == 'len' and isinstance(args[0], SL) and args[0].lo == args[0].hi:
                return args[0].lo
            if callee.name == 'map' and isinstance(args[1], list):
                return [it.call(args[0], [x], {}, node) for x in args[1]]
        if isinstance(callee, ModRef):
            if callee.name == 'binascii.unhexlify' and isinstance(args[0], SL):
                it.event('unhexlify', args[0].lo, args[0].hi)
                return SL(args[0].lo // 2, args[0].hi // 2, 'entropy bytes')
            if callee.name == 'hashlib.sha256':
                it.event('sha256-input', getattr(args[0], 'lo', None), getattr(args[0], 'hi', None))
                return Sym('sha256')
            if callee.name.endswith('Mnemonic'):
                return Sym('mnemonic-tool')
            if callee.name == 'unicodedata.normalize' and args and args[0] == 'NFKD':
                return Sym('normalized', 'str')
        if isinstance(callee, App) and callee.op == 'attr' and callee.args[1] == 'hexdigest':
            return SL(64, 64, 'sha256 hex')
        return NotImplemented

    def compare(self, it, op, a, b, node):
        if isinstance(a, SL) and isinstance(b, SL) and op in ('==', '!='):
            it.event('compare', (a.lo, a.hi), (b.lo, b.hi))
            return App('texts-differ' if op == '!=' else 'texts-equal', a, b)
        if isinstance(a, IB) and isinstance(b, IB) and op in ('==', '!=') and a.lo == 0 and b.lo == 0:
            # two bit fields compared as integers: their widths are what the text implementation compares as string lengths
            wa, wb = a.hi.bit_length(), b.hi.bit_length()
            it.event('compare', (wa, wa), (wb, wb))
            return App('ints-differ' if op == '!=' else 'ints-equal', a, b)
        return NotImplemented

    def binop(self, it, op, a, b, node):
        # interval arithmetic on non-negative integers (the checksum test written with shifts and masks instead of bit strings)
        if not (isinstance(a, IB) or isinstance(b, IB)):
            return NotImplemented
        ia = a if isinstance(a, IB) else IB(a, a) if isinstance(a, int) and not isinstance(a, bool) else None
        ib = b if isinstance(b, IB) else IB(b, b) if isinstance(b, int) and not isinstance(b, bool) else None
        if ia is None or ib is None or ia.lo < 0 or ib.lo < 0:
            return NotImplemented
        if op == 'LShift' and ib.lo == ib.hi:
            return IB(ia.lo << ib.lo, ia.hi << ib.lo)
        if op == 'RShift' and ib.lo == ib.hi:
            return IB(ia.lo >> ib.lo, ia.hi >> ib.lo)
        if op == 'BitOr':
            return IB(max(ia.lo, ib.lo), (1 << max(ia.hi.bit_length(), ib.hi.bit_length())) - 1)
        if op == 'BitAnd':
            return IB(0, min(ia.hi, ib.hi))
        if op == 'Add':
            return IB(ia.lo + ib.lo, ia.hi + ib.hi)
        if op == 'Mult':
            return IB(ia.lo * ib.lo, ia.hi * ib.hi)
        if op == 'FloorDiv' and ib.lo == ib.hi and ib.lo > 0:
            return IB(ia.lo // ib.lo, ia.hi // ib.lo)
        if op == 'Mod' and ib.lo == ib.hi and ib.lo > 0:
            return IB(0, min(ia.hi, ib.lo - 1))
        return NotImplemented


class _ExportHooks(KeyHooks):
    def isinstance(self, it, obj, classes):
        from ..absint import Builtin
        if isinstance(obj, Sym) and obj.name == 'pw':
            return any(isinstance(c, Builtin) and c.name == 'bytes' for c in classes)
        return NotImplemented

    def truth(self, it, term):
        if isinstance(term, Sym) and term.name == 'pw':
            return True
        return super().truth(it, term)


class _HashKeyHooks(Hooks):
    def inline(self, it, fi):
        return fi.name == 'execute'

    def call(self, it, callee, args, kwargs, node):
        if isinstance(callee, App) and callee.op == 'attr':
            recv, name = callee.args
            if name == 'pop1':
                return Sym('a')
            if name == 'push':
                it.event('push', args[0])
                return None
            if name in ('assert_type_equal', 'append'):
                return None
        if isinstance(callee, FuncRef) and callee.fi is not None:
            if callee.fi.name == 'format_stdout':
                return 'stdout'
            if callee.fi.cls is not None:
                return App(f'{callee.fi.cls.name}.{callee.fi.name}', *args)
        if isinstance(callee, ClassRef) and callee.qual.endswith('HashKeyInstruction'):
            return Sym('instr')
        return NotImplemented

    def name(self, it, name, node):
        return NotImplemented


def controls(chk: Check) -> None:
    if term_len(App('slice', Sym('d', length=56), None, 8, None)) != 8 or term_len(App('slice', Sym('d', length=56), 8, None, None)) != 48:
        raise AnalysisError('slice length control failed')
