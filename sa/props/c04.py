"""C04 PACK produces Tezos bytes and UNPACK inverts it (structural clauses).

 1 pack = 05 || forge(optimized Micheline value); unpack requires the 05 prefix, decodes strictly and parses at the type; PACK uses pack()
   with the default (non-legacy) mode
 2 optimized comb layout of PairType.to_micheline_value: 2 -> Pair a b, 3 -> Pair a (Pair b c), >= 4 -> sequence; readable: n-ary Pair;
   legacy_optimized: binary Pair of the two items
 3 UNPACK: whatever the decoder or the type parser raises, the instruction pushes None; a successful decode pushes Some
 4 strict decoding: the rejections named by the property exist as failing paths of the decoder (shared analysis with C05.3)
"""
from __future__ import annotations

from typing import Any, List

from .. import codec
from ..absint import App, ClassRef, ExcVal, FuncRef, Hooks, Interp, Obj, Raised, Sym, vkey, vrepr
from ..instrmodel import InstrHooks, T, run_instruction, val
from ..model import AnalysisError, Repo
from ..report import Check
from .c05 import term_contains

BASE = f'{T}.base.MichelsonType'
PAIR = f'{T}.pair.PairType'
FORGE = 'pytezos.michelson.forge'


class PackHooks(Hooks):
    def inline(self, it, fi):
        return fi.qualname in (f'{BASE}.pack', f'{BASE}.forge', f'{BASE}.unpack')

    def call(self, it, callee, args, kwargs, node):
        if isinstance(callee, FuncRef) and callee.fi is not None:
            n = callee.fi.name
            if n in ('is_packable',):
                return True
            if n == 'to_micheline_value':
                it.event('to_micheline_value', kwargs.get('mode', args[0] if args else 'readable'))
                return Sym('micheline')
            if n == 'forge_micheline':
                return App('forged', args[0])
            if n == 'unforge_micheline':
                it.event('unforge', args[0])
                return Sym('expr')
            if n == 'from_micheline_value':
                it.event('parse', args[0])
                return Sym('value')
        return NotImplemented


class CombHooks(Hooks):
    def __init__(self, n: int):
        self.n = n

    def inline(self, it, fi):
        return fi.qualname == f'{PAIR}.to_micheline_value'

    def call(self, it, callee, args, kwargs, node):
        if isinstance(callee, FuncRef) and callee.fi is not None and callee.fi.name == 'iter_comb':
            return [Sym(f'leaf{i}') for i in range(self.n)]
        if isinstance(callee, App) and callee.op == 'attr' and callee.args[1] == 'to_micheline_value':
            return App('v', callee.args[0], kwargs.get('mode'))
        return NotImplemented


def run(repo: Repo, chk: Check) -> None:
    chk.explanation = (
        'pack/unpack and the comb layout are reduced to templates by abstract interpretation; UNPACK is interpreted with the decoder '
        'raising each exception class or succeeding; strict decoding reuses the reject-path analysis of the Micheline decoder.  '
        'unpack(pack(v)) == v over values is not decided.'
    )
    pack, unpack = repo.func(f'{BASE}.pack'), repo.func(f'{BASE}.unpack')
    chk.set_clause('C04.1')
    for legacy, want_mode in ((False, 'optimized'), (True, 'legacy_optimized')):
        res = Interp(repo, PackHooks(), max_depth=3).run_method(pack, lambda legacy=legacy: (Obj(BASE, {}), [], {'legacy': legacy}))
        modes = [e[1] for p in res for e in p.events if isinstance(e, tuple) and e[0] == 'to_micheline_value']
        ok = len(res) == 1 and res[0].outcome == 'return' and vrepr(res[0].value) == 'cat(05, forged($micheline))' and modes == [want_mode]
        chk.ob('R-TEMPLATE', pack.qualname, ok, f'legacy={legacy}: 05 || forge({want_mode} value)', pack.loc, {'result': [vrepr(p.value) for p in res], 'modes': modes},
               what=f'pack(legacy={legacy}) is not 0x05 followed by the forged {want_mode} Micheline')
    d = pack.node.args.defaults
    chk.ob('R-TABLE', pack.qualname, len(d) == 1 and getattr(d[0], 'value', None) is False, 'legacy defaults to False', pack.loc, what='pack() defaults to the legacy comb layout')
    res = Interp(repo, PackHooks(), max_depth=3).run_function(unpack, [Sym('data', 'bytes')], self_val=ClassRef(BASE))
    acc = [p for p in res if p.outcome == 'return']
    ok = bool(acc) and all(
        any(b and vrepr(c) in ("mcall:startswith($data, 05)",) for c, b in p.conds) and
        [vrepr(e[1]) for e in p.events if isinstance(e, tuple) and e[0] == 'unforge'] == ['slice($data, 1, None, None)'] and
        [vrepr(e[1]) for e in p.events if isinstance(e, tuple) and e[0] == 'parse'] == ['$expr'] for p in acc) and \
        any(p.outcome == 'raise' and any((not b) and 'startswith' in vrepr(c) for c, b in p.conds) for p in res)
    chk.ob('R-TEMPLATE', unpack.qualname, ok, 'requires 05, decodes the rest, parses at the type', unpack.loc, {'paths': [(p.outcome, p.cond_repr()) for p in res]},
           what='unpack does not check the 0x05 prefix / decode data[1:] / parse the expression at the type')
    pq = 'pytezos.michelson.instructions.generic.PackInstruction'
    r = run_instruction(repo, pq, [val('nat', 'a')], _PackInstr(repo))
    calls = [e for p in r for e in p.events if isinstance(e, tuple) and e[0] == 'type-call' and e[1] == 'pack']
    chk.ob('R-TABLE', pq, len(calls) == 1 and not calls[0][3] and not calls[0][4], 'PACK calls pack() in the default mode', repo.find_method(pq, 'execute').loc,
           {'calls': [(c[1], [vrepr(x) for x in c[3]]) for c in calls]}, what='PACK does not use the optimized (non-legacy) packing')

    chk.set_clause('C04.2')
    tm = repo.func(f'{PAIR}.to_micheline_value')
    for n in (2, 3, 4, 5, 7):
        res = Interp(repo, CombHooks(n), max_depth=2).run_method(tm, lambda: (Obj(PAIR, {'items': (Sym('item0'), Sym('item1'))}), [], {'mode': 'optimized'}))
        vs = [App('v', Sym(f'leaf{i}'), 'optimized') for i in range(n)]
        if n == 2:
            want: Any = {'prim': 'Pair', 'args': vs}
        elif n == 3:
            want = {'prim': 'Pair', 'args': [vs[0], {'prim': 'Pair', 'args': vs[1:]}]}
        else:
            want = vs
        ok = len(res) == 1 and res[0].outcome == 'return' and vkey(res[0].value) == vkey(want)
        chk.ob('R-TEMPLATE', tm.qualname, ok, f'optimized comb of {n}: {"sequence" if n >= 4 else "nested Pair"}', tm.loc, {'got': [vrepr(p.value)[:160] for p in res]},
               what=f'a right comb of {n} elements is not written in the canonical optimized form ({"a sequence" if n >= 4 else "nested pairs"})')
    res = Interp(repo, CombHooks(4), max_depth=2).run_method(tm, lambda: (Obj(PAIR, {'items': (Sym('item0'), Sym('item1'))}), [], {'mode': 'readable'}))
    want = {'prim': 'Pair', 'args': [App('v', Sym(f'leaf{i}'), 'readable') for i in range(4)]}
    chk.ob('R-TEMPLATE', tm.qualname, len(res) == 1 and vkey(res[0].value) == vkey(want), 'readable comb: n-ary Pair', tm.loc, {'got': [vrepr(p.value)[:160] for p in res]},
           what='readable combs are not written as an n-ary Pair')
    res = Interp(repo, CombHooks(4), max_depth=2).run_method(tm, lambda: (Obj(PAIR, {'items': (Sym('item0'), Sym('item1'))}), [], {'mode': 'legacy_optimized'}))
    want = {'prim': 'Pair', 'args': [App('v', Sym('item0'), 'legacy_optimized'), App('v', Sym('item1'), 'legacy_optimized')]}
    chk.ob('R-TEMPLATE', tm.qualname, len(res) == 1 and vkey(res[0].value) == vkey(want), 'legacy_optimized: binary Pair of the two items', tm.loc,
           {'got': [vrepr(p.value)[:160] for p in res]}, what='legacy combs are not written as nested binary pairs')
    res = Interp(repo, CombHooks(2), max_depth=2).run_method(tm, lambda: (Obj(PAIR, {'items': (Sym('item0'), Sym('item1'))}), [], {'mode': 'no-such-mode'}))
    chk.ob('R-PATH', tm.qualname, bool(res) and all(p.outcome == 'raise' for p in res), 'unknown mode rejected', tm.loc, what='an unknown mode is silently accepted')

    chk.set_clause('C04.3')
    uq = 'pytezos.michelson.instructions.generic.UnpackInstruction'
    ufi = repo.find_method(uq, 'execute')
    for exc in (None, 'ValueError', 'AssertionError', 'KeyError', 'IndexError', 'pytezos.michelson.micheline.MichelsonRuntimeError', 'UnicodeDecodeError', 'Exception'):
        r = run_instruction(repo, uq, [val('bytes', 'a'), val('unit', 'rest')], _UnpackInstr(repo, exc, {'args': [Sym('T')]}))
        ok = len(r) == 1 and r[0].outcome == 'return'
        if ok:
            top = r[0].value['stack'][0]
            want_op = 'OptionType.from_some' if exc is None else 'OptionType.none'
            ok = isinstance(top, App) and top.op == want_op and len(r[0].value['stack']) == 2
        chk.ob('R-EXC', uq, ok, f'decoder {"succeeds" if exc is None else "raises " + exc.rsplit(".", 1)[-1]}: pushes {"Some" if exc is None else "None"}', ufi.loc,
               {'outcome': [(p.outcome, vrepr(p.value)[:100]) for p in r]},
               what=f'UNPACK does not return {"Some" if exc is None else "None"} when unpack {"succeeds" if exc is None else "raises " + str(exc)}')

    chk.set_clause('C04.4')
    ui = repo.func(f'{FORGE}.unforge_int')
    from .c05 import _IntHooks
    res = Interp(repo, _IntHooks(), max_depth=1, while_bound=2).run_function(ui, [Sym('data', 'bytes')])

    def byte_zero_test(c):
        return isinstance(c, App) and c.op == '==' and 0 in c.args and term_contains(
            c, lambda t: isinstance(t, App) and t.op == 'getitem' and isinstance(t.args[0], Sym) and t.args[0].name == 'data'
        ) and not term_contains(c, lambda t: isinstance(t, App) and t.op == 'op:BitAnd' and 128 in t.args)

    chk.ob('R-PATH', ui.qualname, any(p.outcome == 'raise' and any(byte_zero_test(c) and b for c, b in p.conds) for p in res), 'non-minimal integers are rejected', ui.loc,
           what='UNPACK accepts non-minimal integer encodings such as 0x05 00 80 00')
    dec = codec.decoder_traces(repo, tags=[0, 2, 7, 11])
    is_len_data = lambda t: isinstance(t, App) and t.op == 'len' and isinstance(t.args[0], Sym) and t.args[0].name == 'data'  # noqa
    um = repo.func(f'{FORGE}.unforge_micheline')
    def eos_ok(t):
        rets = [p for p in dec[t] if p[0] == 'return']
        # every accepting path is conditioned on ptr == len(data) (equality, not an inequality) and a rejecting path exists for the negation
        return bool(rets) and all(any(b and isinstance(c, App) and c.op == '==' and term_contains(c, is_len_data) for c, b in p[3].conds) for p in rets) \
            and any(p[0] == 'raise' and any((not b) and isinstance(c, App) and c.op == '==' and term_contains(c, is_len_data) for c, b in p[3].conds) for p in dec[t])

    chk.ob('R-PATH', um.qualname, all(eos_ok(t) for t in (0, 2, 7)),
           'trailing bytes are rejected', um.loc, {'per_tag': {t: eos_ok(t) for t in (0, 2, 7)}},
           what='UNPACK accepts trailing bytes: a decoded value is returned without the test that the whole input was consumed (ptr == len(data))')
    chk.ob('R-PATH', um.qualname, all(p[0] == 'raise' for p in dec[11]) and bool(dec[11]), 'unknown node tags are rejected', um.loc, what='UNPACK accepts unknown tags')
    ua = repo.func(f'{FORGE}.unforge_array')
    res = Interp(repo, Hooks(), max_depth=1).run_function(ua, [Sym('data', 'bytes')])
    chk.ob('R-PATH', ua.qualname, sum(1 for p in res if p.outcome == 'raise') >= 2, 'truncated data is rejected', ua.loc, what='UNPACK accepts truncated arrays')

    # ---- memory across calls (shared rule, sa/statelint.py) ----------------------------------------------------------------------------------
    chk.set_clause('C04.M')
    from ..statelint import check_memory
    check_memory(repo, chk, ['pytezos.michelson.types.base.', 'pytezos.michelson.forge.'],
                 'UNPACK / PACK of one value then answer for another (the second of two different types or inputs gets the first result)')


class _PackInstr(InstrHooks):
    pass


class _UnpackInstr(InstrHooks):
    def __init__(self, repo, exc, cls_args):
        super().__init__(repo, cls_args)
        self.exc = exc

    def call(self, it, callee, args, kwargs, node):
        if isinstance(callee, App) and callee.op == 'attr' and callee.args[1] == 'unpack':
            if self.exc is None:
                return Sym('unpacked')
            raise Raised(ExcVal(self.exc, ('decode failure',)))
        return super().call(it, callee, args, kwargs, node)


def controls(chk: Check) -> None:
    pass
