"""C01 Interpreter computes Michelson results for well-typed programs (necessary conditions decided per instruction).

 1 REGISTRY   every instruction of the reference instruction set has exactly one registered class (prim, number of arguments) with a concrete
              `execute`; reference instructions whose class is missing or raises NotImplementedError are reported as unsupported (outside the
              property's "supported instruction set"), helper instructions of the REPL/TZT layers are listed.
 2 SEMANTICS  (typed abstract execution, level 2) the structural instructions - stack shuffles, pairs and combs, unions, options, lists, IF*,
              LOOP*, ITER, MAP, DIP, EXEC, FAILWITH - are interpreted on abstract typed values with symbolic leaves and abstract code blocks
              and must produce exactly the stacks, block-call traces and branch decisions of the checker's own reference semantics.
 3 STACK EFFECT (level 1, methods of the type classes opaque) every other instruction, for every operand-type overload of the reference, pops
              exactly its operands, pushes the reference number of results and leaves the rest of the stack untouched, on every normal path;
              at least one normal path exists.
 4 PROTECT/RESTORE every normal path from `stack.protect(count=e)` reaches `stack.restore(count=e)` with the same expression.
 5 ENVIRONMENT each environment instruction reads exactly the matching context getter.
 6 FALLBACKS  every `except` clause in the instruction modules can be entered (the exception classes it names can be raised by its body once
              the ErrorTrace wrapping of Micheline methods is taken into account).
 7 SLICE      the Some/None decision of SLICE is the reference predicate  offset < length(s) and offset + length <= length(s)  on every
              ordering of the three quantities.
"""
from __future__ import annotations

import ast
import itertools
import json
import os
from typing import Any, Dict, List, Optional, Set, Tuple

from ..absint import App, ClassRef, FuncRef, Interp, Obj, Sym, Unsupported, vrepr
from ..cfg import CFG, calls_in
from ..execmodel import tstr, vshape, vtype
from ..instrcases import cases, find_class, parse_type, run_case, run_l1
from ..model import AnalysisError, Repo, norm
from ..refsem import RBody
from ..report import Check

INSTR = 'pytezos.michelson.instructions'
BASE = f'{INSTR}.base.MichelsonInstruction'
HELPER_MODULES = ('jupyter', 'tzt')
REF = os.path.join(os.path.dirname(os.path.dirname(__file__)), 'reference', 'instructions.json')

# level 1 cases that are not run, one line of reason each
L1_SKIP = {
    ('CREATE_CONTRACT', 1): 'needs a parsed script (parameter/storage/code sections) as its argument; pops/pushes are checked on the syntax tree instead',
    ('LAMBDA_REC', 3): 'builds instruction classes at run time (class construction is not modelled); decided by C07',
    ('OPEN_CHEST', 0): 'not implemented by the repository (raises NotImplementedError): outside the supported set',
}
# overloads decided by another property's check (the same defect is reported once)
DECIDED_ELSEWHERE = {
    ('OR', ('bytes', 'bytes')): 'C16', ('XOR', ('bytes', 'bytes')): 'C16', ('AND', ('bytes', 'bytes')): 'C16', ('NOT', ('bytes',)): 'C16',
    ('LSL', ('bytes', 'nat')): 'C16', ('LSR', ('bytes', 'nat')): 'C16',
}


def canon(x: Any) -> Any:
    if isinstance(x, RBody):
        return f'<{x.name}>'
    if isinstance(x, tuple):
        return tuple(canon(y) for y in x)
    if isinstance(x, list):
        return [canon(y) for y in x]
    return x


def load_ref() -> Dict[str, Any]:
    with open(REF) as f:
        return json.load(f)


def concrete_execute(repo: Repo, q: str) -> Tuple[bool, str]:
    ci = repo.classes[q]
    m = ci.methods.get('execute')
    if m is None:
        return False, 'no execute method (inherits the abstract one)'
    body = [s for s in m.node.body if not (isinstance(s, ast.Expr) and isinstance(s.value, ast.Constant))]
    if body and isinstance(body[0], ast.Raise) and 'NotImplementedError' in norm(body[0]):
        return False, 'execute raises NotImplementedError'
    return True, ''


def run(repo: Repo, chk: Check) -> None:
    chk.explanation = (
        'Per-instruction necessary conditions of the interpreter semantics.  The real MichelsonStack, the real execute methods and (for the '
        'structural instructions) the real pair/or/option/list/map classes are abstractly interpreted on typed symbolic values and compared '
        'with a reference semantics written from the Michelson reference; the remaining instructions are checked for their stack effect per '
        'operand-type overload.  Computed leaf values (arithmetic, hashing, packing) are not decided here.'
    )
    ref = load_ref()
    rows = ref['instructions']

    # ---- 1 registry ------------------------------------------------------------------------------------------------------------
    chk.set_clause('C01.1')
    by_key: Dict[Tuple[str, int], List[str]] = {}
    for q, ci in repo.classes.items():
        if q.startswith(INSTR + '.') and repo.is_subclass(q, BASE) and q != BASE and ci.keywords.get('prim'):
            by_key.setdefault((ci.keywords['prim'], ci.keywords.get('args_len') or 0), []).append(q)
    unsupported: List[str] = []
    for key, row in sorted(rows.items()):
        k = (row['prim'], row['args'])
        cl = by_key.get(k, [])
        if row['kind'] == 'unsupported' or k in (('OPEN_CHEST', 0),):
            ok_exec = [concrete_execute(repo, q)[0] for q in cl]
            if not cl or not all(ok_exec):
                unsupported.append(key)
                chk.info('R-TABLE', f'{row["prim"]}/{row["args"]}', 'reference instruction not supported by the repository (outside the property)', None, {'classes': cl})
                continue
        chk.ob('R-TABLE', f'{row["prim"]}/{row["args"]}', len(cl) == 1, 'exactly one registered class', repo.classes[cl[0]].loc if cl else None, {'classes': cl},
               what=f'{row["prim"]} with {row["args"]} argument(s) has {len(cl)} registered classes: {cl}')
        if len(cl) == 1:
            okx, why = concrete_execute(repo, cl[0])
            chk.ob('R-TABLE', f'{row["prim"]}/{row["args"]}', okx, 'execute is concrete', repo.classes[cl[0]].loc, {'class': cl[0]},
                   what=f'{cl[0]}: {why}')
    helpers = sorted(f'{p}/{n}' for (p, n), cl in by_key.items() if f'{p}/{n}' not in rows and all(q.split('.')[3] in HELPER_MODULES for q in cl))
    extra = sorted(f'{p}/{n}' for (p, n), cl in by_key.items() if f'{p}/{n}' not in rows and not all(q.split('.')[3] in HELPER_MODULES for q in cl))
    chk.note('unsupported_reference_instructions', unsupported)
    chk.note('helper_instructions', helpers)
    chk.ob('R-TABLE', 'instruction registry', not extra, 'no instruction class outside the reference set and the helper modules', None, {'extra': extra},
           what=f'instruction classes that are neither reference instructions nor REPL/TZT helpers: {extra}')
    chk.minimum('reference instructions', len(rows), 110)

    # ---- 2 structural semantics ---------------------------------------------------------------------------------------------------
    chk.set_clause('C01.2')
    nc = 0
    prims_seen: Set[str] = set()
    thorough = chk.tier == 'thorough'
    for prim, args, stack, desc in cases(thorough):
        nc += 1
        prims_seen.add(prim)
        q, got, want = run_case(repo, prim, args, stack, unroll=5 if thorough else 3)
        if q is None:
            chk.ob('R-TEMPLATE', f'{prim}/{len(args)}', False, f'{desc}: class found', None, what=f'no unique class for {prim}/{len(args)}')
            continue
        loc = repo.classes[q].loc

        def key(o):
            # value shapes only: the types of the results are C02's subject
            return repr(canon(([v[0] for v in o['stack']] if o.get('stack') is not None else None, o['decisions'], o['trace'])))

        g_ok = {key(o) for o in got if o['kind'] == 'stack'}
        r_ok = {key(o) for o in want if o['kind'] == 'stack'}
        g_fail = [o for o in got if o['kind'] == 'raise']
        r_fail = [o for o in want if o['kind'] == 'fail']
        trunc = any(o['kind'] == 'truncated' for o in got)
        prot = [o for o in got if o['kind'] == 'stack' and o.get('protected') != 0]
        if r_fail:
            # FAILWITH: the reference aborts with the top value; the repo must abort (no normal path) and report that value
            val = canon(r_fail[0]['value'][0])
            ok = not g_ok and bool(g_fail)
            chk.ob('R-TEMPLATE', q, ok, f'{desc}: aborts with the top value', loc, {'repo': [o['exc'] for o in g_fail][:2], 'reference_value': repr(val)},
                   what=f'{desc}: the reference aborts with {val}, the interpreter gives {sorted(g_ok)[:1] or [o["exc"] for o in g_fail][:1]}')
            continue
        ok = g_ok <= r_ok and (trunc or r_ok <= g_ok) and not g_fail and not prot and bool(g_ok)
        miss = sorted(r_ok - g_ok)[:1]
        extra_o = sorted(g_ok - r_ok)[:1]
        chk.ob('R-TEMPLATE', q, ok, f'{desc}: result stacks, code-block calls and branch decisions equal the reference semantics', loc,
               {'outcomes': len(g_ok), 'reference_outcomes': len(r_ok), 'unexpected': extra_o, 'missing': miss if not trunc else [],
                'failures': [o['exc'] for o in g_fail][:2], 'protected_left': [o.get('protected') for o in prot]},
               what=f'{desc}: interpreter outcome {extra_o or [o["exc"] for o in g_fail][:1] or "none"} ; reference outcome {miss or sorted(r_ok)[:1]}')
        # the same case inside `DIP 2 { ... }`: two foreign items in the protected prefix must be out of reach and the visible result the same
        if not r_fail:
            try:
                q2, got2, _ = run_case(repo, prim, args, stack, unroll=5 if thorough else 3, protect=2)
            except AnalysisError as _e:
                # the analysis can only trip over a guard value if the instruction took one out of the protected prefix
                if 'dip_guard' not in str(_e):
                    raise
                got2 = [{'kind': 'raise', 'exc': 'an item of the protected prefix reached the instruction: ' + str(_e)[:100], 'decisions': [], 'trace': [], 'events': []}]
            g2_ok = {key(o) for o in got2 if o['kind'] == 'stack' and o.get('prefix_ok')}
            bad2 = [o for o in got2 if o['kind'] == 'raise' or (o['kind'] == 'stack' and (not o.get('prefix_ok') or o.get('protected') != 0))]
            trunc2 = any(o['kind'] == 'truncated' for o in got2)
            ok2 = g2_ok <= r_ok and (trunc2 or r_ok <= g2_ok) and not bad2 and bool(g2_ok)
            chk.ob('R-TEMPLATE', q, ok2, f'{desc}: same result with two items in the protected prefix (inside DIP 2)', loc,
                   {'unexpected': sorted(g2_ok - r_ok)[:1], 'missing': sorted(r_ok - g2_ok)[:1] if not trunc2 else [],
                    'prefix_touched_or_failed': [o.get('exc', 'protected prefix changed')[:120] if isinstance(o.get('exc', ''), str) else '?' for o in bad2][:2]},
                   what=f'{desc} inside DIP 2: the instruction reads or moves items of the protected prefix, or its visible result differs: '
                        f'{sorted(g2_ok - r_ok)[:1] or [o.get("exc", "protected prefix changed") for o in bad2][:1]} ; reference {sorted(r_ok)[:1]}')
    chk.minimum('structural cases', nc, 130)
    chk.minimum('structural instructions', len(prims_seen), 30)

    # ---- 3 stack effect of the remaining instructions ---------------------------------------------------------------------------------
    chk.set_clause('C01.3')
    ctx = Obj('pytezos.context.abstract.AbstractContext', {})
    n1 = 0
    env_reads: Dict[str, List[str]] = {}
    for key, row in sorted(rows.items()):
        if row['kind'] not in ('op', 'env'):
            continue
        k = (row['prim'], row['args'])
        if k in L1_SKIP:
            chk.info('R-PATH', key, f'not run: {L1_SKIP[k]}')
            continue
        for case in row['cases']:
            if (row['prim'], tuple(case['in'])) in DECIDED_ELSEWHERE:
                chk.info('R-PATH', key, f'overload {case["in"]} is decided by {DECIDED_ELSEWHERE[(row["prim"], tuple(case["in"]))]}')
                continue
            n1 += 1
            try:
                q, res, sent = run_l1(repo, row['prim'], row['args'], case['in'], context=ctx)
            except Unsupported as e:
                raise AnalysisError(f'{key} {case["in"]}: idiom not modelled: {e}')
            if q is None:
                continue  # reported by clause 1
            rets = [p for p in res if p.outcome == 'return']
            npush = len(case['out'])
            bad = []
            want_heads = [parse_type(o)[0] for o in case['out']]
            for p in rets:
                st = p.value['stack']
                if len(st) != npush + 2 or st[npush:] != sent or p.value['protected'] != 0:
                    bad.append([tstr(vtype(x)) for x in st])
                elif npush > 1 and [vtype(x)[0] for x in st[:npush]] != want_heads:
                    bad.append([tstr(vtype(x)) for x in st])  # results pushed in the wrong order
            what_in = ' : '.join(case['in']) or '(nothing)'
            chk.ob('R-PATH', q, bool(rets) and not bad, f'{row["prim"]} on {what_in}: pops {len(case["in"])}, pushes {npush}, rest of the stack untouched',
                   repo.classes[q].loc, {'normal_paths': len(rets), 'failing_paths': len(res) - len(rets), 'bad_stacks': bad[:2]},
                   what=f'{row["prim"]} on {what_in}: ' + (f'stack after execution {bad[0]} + ..., expected {npush} result(s) on top of the untouched rest' if bad else
                                                            f'no normal path ({[vrepr(p.value)[:100] for p in res if p.outcome == "raise"][:1]})'))
            if row['kind'] == 'env':
                reads = sorted({str(e[3]) for p in rets for e in p.events if isinstance(e, tuple) and e[0] == 'context-read'} |
                               {m for p in rets for m in _getters(p)})
                env_reads[row['prim']] = reads
    chk.minimum('level-1 overloads', n1, 120)

    # ---- 4 protect / restore ----------------------------------------------------------------------------------------------------------
    chk.set_clause('C01.4')
    npr = 0
    for fi in repo.iter_functions(INSTR):
        prot = [c for c in ast.walk(fi.node) if isinstance(c, ast.Call) and isinstance(c.func, ast.Attribute) and c.func.attr == 'protect']
        if not prot:
            continue
        g = CFG(fi.node)
        for pc in prot:
            npr += 1
            expr = norm(pc.keywords[0].value if pc.keywords else pc.args[0])
            pnodes = [n for n in g.nodes if n.ast is not None and any(c is pc for c in calls_in(n.ast))]
            rnodes = {n for n in g.nodes if n.ast is not None and any(
                isinstance(c.func, ast.Attribute) and c.func.attr == 'restore' and norm(c.keywords[0].value if c.keywords else c.args[0]) == expr and
                norm(c.func.value) == norm(pc.func.value) for c in calls_in(n.ast))}
            path = None
            for pn in pnodes:
                path = g.paths_avoiding(pn, g.exit, rnodes - {pn}, edge_ok=lambda a, b, kind: kind != 'exc')
                if path:
                    break
            chk.ob('R-PATH', fi.qualname, bool(pnodes) and path is None, f'protect({expr}) is followed by restore({expr}) on every normal path', fi.loc,
                   {'restore_sites': sorted(n.line for n in rnodes), 'path': g.describe_path(path) if path else None},
                   what=f'{fi.qualname}: a normal path leaves the function after protect({expr}) without restore({expr}): {g.describe_path(path) if path else ""}')
    chk.minimum('protect sites', npr, 2)  # DIP and DIP n; other users may legitimately index past the protected prefix instead (decided by the DIP-2 variant of every structural case)

    # ---- 5 environment reads ------------------------------------------------------------------------------------------------------------
    chk.set_clause('C01.5')
    for prim, getter in sorted(ref['env_getters'].items()):
        q = find_class(repo, prim, 0)
        if q is None:
            continue
        m = repo.classes[q].methods.get('execute')
        called = sorted({c.func.attr for c in ast.walk(m.node) if isinstance(c, ast.Call) and isinstance(c.func, ast.Attribute)
                         and isinstance(c.func.value, ast.Name) and c.func.value.id == 'context'}) if m else []
        chk.ob('R-TABLE', q, called == [getter], f'{prim} reads context.{getter}() and nothing else from the context', repo.classes[q].loc,
               {'context_calls': called, 'abstract_run': env_reads.get(prim)},
               what=f'{prim} calls context.{called} instead of context.{getter}()')
        runs = env_reads.get(prim)
        chk.ob('R-FLOW', q, runs is not None and runs == [getter], f'{prim}: the pushed value is built from context.{getter}()', repo.classes[q].loc, {'flows': runs},
               what=f'{prim}: the value pushed is built from {runs}, expected the result of context.{getter}()')
    chk.minimum('environment instructions', len(ref['env_getters']), 10)

    # ---- 6 reachable fallbacks -------------------------------------------------------------------------------------------------------------
    chk.set_clause('C01.6')
    _fallbacks(repo, chk)

    # ---- 7 SLICE guard ---------------------------------------------------------------------------------------------------------------------
    chk.set_clause('C01.7')
    _slice_guard(repo, chk)

    # ---- 8 recursive lambdas: the body built by LAMBDA_REC runs on `argument : the lambda itself : []` -------------------------------------
    chk.set_clause('C01.8')
    _lambda_rec(repo, chk)

    # ---- 9 KECCAK / SHA3: the multi-rate padding (pad10*1) of the sponge, for EVERY number of bytes already in the block -----------------------
    # a loop-free function of two small integers: interpreted for all 136 residues of the rate of Keccak-256 / SHA3-256 (exhaustive over its domain);
    # the permutation and the digests themselves are numeric content and are not decided
    chk.set_clause('C01.9')
    mp = repo.func('pytezos.crypto.keccak.multirate_padding')
    rate = 136
    wrong = []
    for used in range(rate):
        rp = Interp(repo, max_depth=2).run_function(mp, [used, rate])
        k = rate - used
        want = [0x81] if k == 1 else [0x01] + [0] * (k - 2) + [0x80]
        got = [list(p.value) if p.outcome == 'return' and isinstance(p.value, (list, tuple, bytes, bytearray)) else p.outcome for p in rp]
        if got != [want]:
            wrong.append({'bytes_in_block': used, 'padding': str(got)[:80], 'reference_length': k})
    chk.ob('R-TEMPLATE', mp.qualname, not wrong, f'pad10*1 for every residue of the {rate}-byte rate', mp.loc, {'residues': rate, 'wrong': wrong[:3]},
           what=f'multirate_padding differs from pad10*1 (0x01, zeros, 0x80; 0x81 when one byte is missing) for {len(wrong)} residue(s), e.g. {wrong[:1]}: KECCAK / SHA3 of '
                'messages of those lengths are silently wrong')


def _lambda_rec(repo: Repo, chk: Check) -> None:
    """LAMBDA_REC ty1 ty2 code pushes a lambda; when it is EXECuted on an argument the reference runs `code` on the stack
    `argument : lambda : []` (code :: ty1 : lambda ty1 ty2 : [] => ty2 : []).  LambdaRecInstruction.execute is interpreted with the code
    an abstract block; the body it builds for the lambda (a sequence of instruction classes ending in the block) is then run on the
    stack [argument] under the checker's own semantics of the few instructions such a prelude can be made of, and the stack handed to the
    block is compared."""
    from ..absint import Hooks
    from ..execmodel import ExecHooks, TCls
    from ..instrcases import B, L, conv_args, to_obj, UNDEF
    from ..instrmodel import mk_stack, prim_of

    LR = 'pytezos.michelson.instructions.control.LambdaRecInstruction'
    flr = repo.find_method(LR, 'execute')
    chk.require(flr is not None, 'LambdaRecInstruction.execute not found')
    undefined = Obj(UNDEF, {}, tag='Undefined')
    ra, _fa = conv_args(['nat', 'string', B('RecBody', 2, ['string'])], undefined)

    class LRHooks(ExecHooks):
        def call(self, it, callee, args, kwargs, node):
            if isinstance(callee, FuncRef) and callee.fi is not None and callee.fi.name == 'create_type' and isinstance(callee.self_val, ClassRef):
                q = callee.self_val.qual
                a = list(kwargs.get('args', args[0] if args else []))
                if q.endswith('.MichelineSequence'):
                    return App('seq', *a)
                if self.is_instr_cls(callee.self_val):
                    return App('icls', prim_of(self.repo, q), *a)
            return super().call(it, callee, args, kwargs, node)

        def setattr(self, it, obj, name, value, node):
            if isinstance(obj, App) and obj.op == 'icls':
                return None  # bookkeeping attributes of a created instruction class (recursion depth)
            return NotImplemented

        def attr(self, it, obj, name, node):
            if self.is_instr_cls(obj) and name == 'depth':
                return 0
            return super().attr(it, obj, name, node)

    hooks = LRHooks(repo, {'args': list(ra), '_undefined': undefined})
    it = Interp(repo, hooks, max_depth=30, max_paths=50)
    it.max_recursion = 4

    def go(i):
        st = mk_stack([to_obj(L('mutez', 'z'), undefined)])
        i.call_function(FuncRef(flr, ClassRef(LR), True), [st, [], Sym('context')], {}, None, force_inline=True)
        return list(st.fields['items'])

    res = it.run_paths(go)
    ok = len(res) == 1 and res[0].outcome == 'return' and len(res[0].value) == 2 and isinstance(res[0].value[0], Obj) and 'value' in res[0].value[0].fields
    chk.ob('R-TEMPLATE', LR, ok, 'LAMBDA_REC pushes one lambda value', flr.loc, {'outcomes': [(p.outcome, vrepr(p.value)[:120]) for p in res]},
           what='LAMBDA_REC does not push a single lambda value')
    if not ok:
        return
    lam = res[0].value[0]
    body = lam.fields['value']
    tcl = lam.fields.get('_t')
    chk.ob('R-TEMPLATE', LR, isinstance(tcl, TCls) and tcl.prim == 'lambda' and [a.prim for a in tcl.args] == ['nat', 'string'], 'the value is a lambda ty1 ty2', flr.loc,
           {'type': repr(tcl)}, what=f'LAMBDA_REC nat string pushes a value of type {tcl!r}')

    # run the constructed body on [argument]
    def run_seq(items, stack):
        for x in items:
            if isinstance(x, App) and x.op == 'seq':
                r = run_seq(list(x.args), stack)
                if r is not None:
                    return r
                continue
            if type(x).__name__ == 'Body':
                return list(stack)
            if isinstance(x, App) and x.op == 'icls':
                prim, a = x.args[0], list(x.args[1:])
                if prim == 'LAMBDA_REC':
                    stack.insert(0, 'the lambda itself')
                elif prim == 'SWAP':
                    stack[0], stack[1] = stack[1], stack[0]
                elif prim == 'DIP' and len(a) == 1:
                    top = stack.pop(0)
                    r = run_seq([a[0]], stack)
                    if r is not None:
                        return ['<code runs under DIP>'] + r
                    stack.insert(0, top)
                elif prim in ('DIG', 'DUG') and len(a) == 1 and hasattr(a[0], 'n'):
                    n = a[0].n
                    if prim == 'DIG':
                        stack.insert(0, stack.pop(n))
                    else:
                        stack.insert(n, stack.pop(0))
                else:
                    raise AnalysisError(f'LAMBDA_REC body prelude uses {prim}: not modelled')
                continue
            raise AnalysisError(f'LAMBDA_REC builds a body item that is not modelled: {vrepr(x)[:80]}')
        return None

    seen = run_seq([body], ['argument'])
    chk.ob('R-TEMPLATE', LR, seen == ['argument', 'the lambda itself'], 'EXEC of a recursive lambda runs the code on `argument : the lambda itself : []`', flr.loc,
           {'stack_handed_to_the_code': seen, 'body': vrepr(body)[:200]},
           what=f'the body built by LAMBDA_REC runs the code on the stack {seen} (top first); the reference is [argument, the lambda itself] '
                '(instr :: ty1 : lambda ty1 ty2 : [] => ty2 : []): `LAMBDA_REC nat nat { DIP { DROP } } ; PUSH nat 5 ; EXEC` fails with "expected nat, got lambda"')


def _getters(p) -> List[str]:
    """context getters whose result flows into a pushed value (names found in the terms of the final stack)."""
    out = set()
    seen: Set[int] = set()

    def walk(v: Any):
        if id(v) in seen:
            return
        seen.add(id(v))
        if isinstance(v, App):
            if v.op.startswith('call:pytezos.context.') or v.op.startswith('mcall:'):
                out.add(v.op.rsplit('.', 1)[-1].split(':')[-1])
            for a in v.args:
                walk(a)
        elif isinstance(v, Obj):
            for x in v.fields.values():
                walk(x)
        elif isinstance(v, (list, tuple)):
            for x in v:
                walk(x)
        elif isinstance(v, dict):
            for x in v.values():
                walk(x)

    st = p.value['stack']
    for x in st[:max(0, len(st) - 2)]:
        walk(x)
    return sorted(g for g in out if g.startswith('get_'))


# ---------------------------------------------------------------------------------------------------------------------- clause 6
def _fallbacks(repo: Repo, chk: Check) -> None:
    from ..callgraph import CallGraph
    from ..typed import TypeOracle
    oracle = TypeOracle(repo)
    cg = CallGraph(repo, oracle, scope='pytezos.michelson.instructions', byname_scope='pytezos.michelson')
    MRE = 'MichelsonRuntimeError'
    ntry = 0

    def wrapped(fi) -> bool:
        return fi.cls is not None and repo.metaclass_of(fi.cls.qualname) is not None and repo.metaclass_of(fi.cls.qualname).endswith('ErrorTrace') \
            and not fi.name.startswith('_')

    def raises_of_function(fi, depth: int = 0) -> Set[str]:
        """exception class names a plain (unwrapped) repo function may raise by itself."""
        out: Set[str] = set()
        for n in ast.walk(fi.node):
            if isinstance(n, ast.Assert):
                out.add('AssertionError')
            elif isinstance(n, ast.Raise) and n.exc is not None:
                f = n.exc.func if isinstance(n.exc, ast.Call) else n.exc
                out.add(getattr(f, 'id', getattr(f, 'attr', 'Exception')))
        return out

    for fi in repo.iter_functions(INSTR):
        for tr in [n for n in ast.walk(fi.node) if isinstance(n, ast.Try)]:
            ntry += 1
            sources: Set[str] = set()
            detail: List[str] = []
            for st in tr.body:
                for n in ast.walk(st):
                    if isinstance(n, ast.Assert):
                        sources.add('AssertionError')
                    elif isinstance(n, ast.Raise) and n.exc is not None:
                        f = n.exc.func if isinstance(n.exc, ast.Call) else n.exc
                        sources.add(getattr(f, 'id', getattr(f, 'attr', 'Exception')))
                    elif isinstance(n, ast.Call):
                        if isinstance(n.func, ast.Attribute):
                            tg, ok = cg.resolve_method(fi, n.func.value, n.func.attr, allow_byname=False)
                            classes, known = oracle.classes(fi.module.relpath, n.func.value)
                            if tg:
                                for m, _ in tg:
                                    if wrapped(m):
                                        sources.add(MRE)
                                        detail.append(f'{n.func.attr} -> {m.qualname} (ErrorTrace-wrapped)')
                                    else:
                                        sources |= raises_of_function(m) | {'*'}
                                        detail.append(f'{n.func.attr} -> {m.qualname}')
                            elif known and classes and all(c.startswith('builtins.') for c in classes):
                                sources |= {'TypeError', 'ValueError', 'KeyError', 'IndexError', 'AttributeError'}
                            else:
                                sources.add('*')
                                detail.append(f'{n.func.attr} -> unresolved')
                        elif isinstance(n.func, ast.Name):
                            q = repo.resolve_name(fi.module, n.func.id)
                            kind, obj = repo.lookup(q)
                            if kind == 'func':
                                sources |= raises_of_function(obj)
                                detail.append(f'{n.func.id} -> {q}')
                            elif kind == 'class':
                                sources.add('*')
                            elif n.func.id in ('next',):
                                sources.add('StopIteration')
                            elif n.func.id in ('int', 'str', 'bytes', 'len', 'list', 'tuple', 'dict', 'set', 'isinstance', 'cast', 'repr', 'bool', 'iter'):
                                sources |= {'TypeError', 'ValueError'}
                            else:
                                sources.add('*')
            type_cmp = [d for d in detail if d.startswith('assert_type_') and 'ErrorTrace-wrapped' in d]
            handled = set()
            for h in tr.handlers:
                if h.type is None:
                    handled.add('BaseException')
                else:
                    handled |= {getattr(e, 'id', getattr(e, 'attr', '?')) for e in (h.type.elts if isinstance(h.type, ast.Tuple) else [h.type])}
            if type_cmp:
                chk.ob('R-EXC', fi.qualname, bool(handled & {MRE, 'Exception', 'BaseException'}),
                       f'the try block at line {tr.lineno - fi.node.lineno} compares types: its handlers catch MichelsonRuntimeError', f'{fi.module.relpath}:{tr.lineno}',
                       {'handled': sorted(handled), 'type_comparisons': type_cmp},
                       what=f'{fi.qualname}: the guarded type comparison ({type_cmp[0]}) raises MichelsonRuntimeError, but the handlers only catch {sorted(handled)}: '
                            f'a type mismatch aborts execution instead of producing the fallback value')
            for h in tr.handlers:
                names = []
                if h.type is None:
                    names = ['BaseException']
                else:
                    for e in (h.type.elts if isinstance(h.type, ast.Tuple) else [h.type]):
                        names.append(getattr(e, 'id', getattr(e, 'attr', '?')))
                live = '*' in sources or any(nm in ('Exception', 'BaseException') for nm in names) and bool(sources) or any(nm in sources for nm in names)
                chk.ob('R-EXC', fi.qualname, live, f'handler `except {", ".join(names)}` (line {h.lineno - fi.node.lineno} of the function) can be entered', f'{fi.module.relpath}:{h.lineno}',
                       {'body_may_raise': sorted(sources), 'calls': detail[:8]},
                       what=f'{fi.qualname}: `except {", ".join(names)}` is dead - its body can only raise {sorted(sources)} (methods of Micheline classes are wrapped by '
                            f'ErrorTrace and raise MichelsonRuntimeError), so the fallback value is never produced')
    chk.minimum('try blocks in the instruction modules', ntry, 4)


# ---------------------------------------------------------------------------------------------------------------------- clause 7
def _slice_guard(repo: Repo, chk: Check) -> None:
    """Interpret SLICE over the order domain of (offset, offset+length, len(s)): every total preorder of the three quantities (and 0)."""
    q = find_class(repo, 'SLICE', 0)
    if q is None:
        raise AnalysisError('SLICE class not found')
    fi = repo.classes[q].methods['execute']
    # variables of the guard: start (= offset), stop (= offset + length), len(s) - under whatever names
    assigns = {}
    for n in ast.walk(fi.node):
        if isinstance(n, ast.Assign) and isinstance(n.targets[0], ast.Tuple) and isinstance(n.value, ast.Tuple):
            for tg, v in zip(n.targets[0].elts, n.value.elts):
                if isinstance(tg, ast.Name):
                    assigns[tg.id] = v
        elif isinstance(n, ast.Assign) and isinstance(n.targets[0], ast.Name):
            assigns[n.targets[0].id] = n.value

    def mentions_len(e: ast.AST, depth: int = 0) -> bool:
        """the expression (names expanded through their single assignments) measures the operand with len()"""
        for x in ast.walk(e):
            if isinstance(x, ast.Call) and isinstance(x.func, ast.Name) and x.func.id == 'len':
                return True
            if isinstance(x, ast.Name) and x.id in assigns and depth < 4 and mentions_len(assigns[x.id], depth + 1):
                return True
        return False

    # the Some/None guard: the `if` whose test measures the operand and one of whose arms builds the Some result
    guard = None
    for n in [x for x in ast.walk(fi.node) if isinstance(x, ast.If)]:
        arms = norm(ast.Module(body=n.body + n.orelse, type_ignores=[]))
        if mentions_len(n.test) and 'from_some' in arms:
            guard = n
    if guard is None:
        raise AnalysisError('SLICE: the Some/None guard was not found')
    some_first = 'from_some' in norm(ast.Module(body=guard.body, type_ignores=[]))

    def ev(e: ast.AST, env: Dict[str, int]) -> Any:
        if isinstance(e, ast.Constant):
            return e.value
        if isinstance(e, ast.Name):
            if e.id in assigns:
                return ev(assigns[e.id], env)
            raise AnalysisError(f'SLICE guard: unknown name {e.id}')
        if isinstance(e, ast.Call) and isinstance(e.func, ast.Name) and e.func.id == 'int' and isinstance(e.args[0], ast.Name):
            return env[e.args[0].id]
        if isinstance(e, ast.Call) and isinstance(e.func, ast.Name) and e.func.id == 'len':
            return env['len']
        if isinstance(e, ast.BinOp) and isinstance(e.op, ast.Add):
            return ev(e.left, env) + ev(e.right, env)
        if isinstance(e, ast.BoolOp):
            vals = [ev(v, env) for v in e.values]
            return all(vals) if isinstance(e.op, ast.And) else any(vals)
        if isinstance(e, ast.UnaryOp) and isinstance(e.op, ast.Not):
            return not ev(e.operand, env)
        if isinstance(e, ast.Compare):
            left = ev(e.left, env)
            for op, right in zip(e.ops, e.comparators):
                r = ev(right, env)
                okc = {ast.Lt: left < r, ast.LtE: left <= r, ast.Gt: left > r, ast.GtE: left >= r, ast.Eq: left == r, ast.NotEq: left != r}[type(op)]
                if not okc:
                    return False
                left = r
            return True
        raise AnalysisError(f'SLICE guard: expression form not modelled: {norm(e)}')

    # the guard only compares 0, offset, offset+length and len(s): one representative per ordering of (offset, length, len) over a small order-complete grid
    params = [a.arg for a in fi.node.args.args]
    popped = None
    for n in ast.walk(fi.node):
        if isinstance(n, ast.Assign) and isinstance(n.targets[0], ast.Tuple) and 'pop3' in norm(n.value):
            popped = [e.id for e in n.targets[0].elts if isinstance(e, ast.Name)]
    if not popped or len(popped) != 3:
        raise AnalysisError('SLICE: operands are not taken with pop3 into three names')
    off_name, len_name, _ = popped
    bad = []
    n = 0
    for off, ln, size in itertools.product(range(0, 4), range(0, 4), range(0, 4)):
        n += 1
        env = {off_name: off, len_name: ln, 'len': size}
        got_some = bool(ev(guard.test, env)) == some_first
        want_some = off < size and off + ln <= size
        if got_some != want_some:
            bad.append({'offset': off, 'length': ln, 'size': size, 'interpreter': 'Some' if got_some else 'None', 'reference': 'Some' if want_some else 'None'})
    chk.ob('R-GUARD', fi.qualname, not bad, 'Some exactly when offset < size and offset + length <= size (all orderings of offset, offset+length, size over 0..3)',
           f'{fi.module.relpath}:{guard.lineno}', {'guard': norm(guard.test), 'orderings': n, 'disagreements': bad[:4]},
           what=f'SLICE guard `{norm(guard.test)}` disagrees with the reference on {bad[:2]}')
