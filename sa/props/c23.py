"""C23 Operation groups from any account kind are signed and hashed per protocol (templates).

 1 OperationGroup.sign per content kind: message = watermark || forged bytes with watermark 03 for non-consensus kinds and
   02 || chain id for consensus kinds (validation pass 0); mixed passes rejected; missing chain id rejected; Key.sign(generic=True)
 2 binary_payload = forged bytes || raw signature; hash = base58 'o' of Blake2b-256 of it
 3 Key.sign(generic=True) succeeds for all four curves (the (prefix, length) obligation of C07.3)
 4 validation_passes: consensus kinds are pass 0, manager kinds pass 3
"""
from __future__ import annotations

from typing import Any

from ..absint import App, FuncRef, Hooks, Interp, Obj, Sym, vkey, vrepr
from ..keymodel import CURVES, EXT, KEY, KeyHooks, key_obj
from ..model import AnalysisError, Repo
from ..report import Check
from .c09 import table

G = 'pytezos.operation.group.OperationGroup'


class GroupHooks(Hooks):
    def inline(self, it, fi):
        return fi.qualname in (f'{G}.sign', f'{G}.hash', f'{G}.binary_payload')

    def call(self, it, callee, args, kwargs, node):
        if isinstance(callee, FuncRef) and callee.fi is not None:
            n = callee.fi.name
            if n == 'forge' and callee.fi.cls is not None:
                return Sym('forged_hex', 'str')
            if n == '_spawn':
                it.event('spawn', kwargs)
                return Sym('new-group')
            if n == 'base58_decode':
                src = args[0]
                if isinstance(src, App) and src.op == 'mcall:encode':
                    src = src.args[0]
                return App('raw', src)
            if n == 'forge_base58':
                return App('raw', args[0])
            if n == 'base58_encode':
                return App('b58', args[0], args[1])
            if n == 'blake2b_32':
                return App('blake2b', args[0], 32)
        if isinstance(callee, App) and callee.op == 'attr' and callee.args[1] == 'sign':
            it.event('key.sign', args, kwargs)
            return Sym('signature', 'str')
        return NotImplemented

    def truth(self, it, term):
        if isinstance(term, Sym) and term.name.startswith('signature'):
            return True
        if isinstance(term, App) and term.op == 'is' and isinstance(term.args[0], Sym) and term.args[1] is None:
            return False
        return None


def group(kinds, chain_id: Any = Sym('chain_id', 'str'), signature: Any = Sym('signature', 'str')):
    return Obj(G, {'contents': [{'kind': k} for k in kinds], 'chain_id': chain_id, 'key': Sym('key'), 'signature': signature,
                   'context': Sym('context'), 'protocol': Sym('protocol'), 'branch': Sym('branch')})


def run(repo: Repo, chk: Check) -> None:
    chk.explanation = (
        'OperationGroup.sign / binary_payload / hash are reduced to templates by abstract interpretation for every content kind '
        '(and mixed / missing-chain-id cases); Key.sign(generic=True) is checked for a base58 row on all four curves.  Validity of '
        'signatures is not decided.'
    )
    vp = repo.const('pytezos.rpc.kind.validation_passes')
    sign = repo.func(f'{G}.sign')
    chk.set_clause('C23.1')
    for kind, vpass in sorted(vp.items()):
        res = Interp(repo, GroupHooks(), max_depth=1).run_method(sign, lambda k=kind: (group([k, k]), [], {}))
        calls = [e for p in res for e in p.events if isinstance(e, tuple) and e[0] == 'key.sign']
        if vpass == 0:
            want = App('cat', b'\x02', App('raw', Sym('chain_id')), App('call:bytes.fromhex', Sym('forged_hex')))
        else:
            want = App('cat', b'\x03', App('call:bytes.fromhex', Sym('forged_hex')))
        ok = len(res) == 1 and res[0].outcome == 'return' and len(calls) == 1
        if ok:
            a, kw = calls[0][1], calls[0][2]
            msg = kw.get('message', a[0] if a else None)
            ok = vkey(msg) == vkey(want) and kw.get('generic', a[1] if len(a) > 1 else None) is True
            sp = [e for e in res[0].events if isinstance(e, tuple) and e[0] == 'spawn']
            ok = ok and len(sp) == 1 and vrepr(sp[0][1].get('signature')) == '$signature'
        chk.ob('R-TEMPLATE', sign.qualname, ok, f'kind={kind} (validation pass {vpass}): watermark {"02||chain_id" if vpass == 0 else "03"}', sign.loc,
               {'signed': [vrepr(c[2].get('message', c[1][0] if c[1] else None)) for c in calls], 'reference': vrepr(want)},
               what=f'{kind} is not signed over {vrepr(want)} with generic=True')
    res = Interp(repo, GroupHooks(), max_depth=1).run_method(sign, lambda: (group(['endorsement', 'transaction']), [], {}))
    chk.ob('R-PATH', sign.qualname, bool(res) and all(p.outcome == 'raise' and p.value.cls == 'ValueError' for p in res), 'mixed validation passes rejected', sign.loc,
           what='a group mixing consensus and manager operations is signed')
    res = Interp(repo, GroupHooks(), max_depth=1).run_method(sign, lambda: (group(['endorsement'], chain_id=None), [], {}))
    chk.ob('R-PATH', sign.qualname, bool(res) and all(p.outcome == 'raise' and p.value.cls == 'ValueError' for p in res), 'consensus without chain id rejected', sign.loc,
           what='a consensus operation is signed without the chain id in the watermark')

    chk.set_clause('C23.2')
    bp = repo.func(f'{G}.binary_payload')
    res = Interp(repo, GroupHooks(), max_depth=1).run_method(bp, lambda: (group(['transaction']), [], {}))
    want = App('cat', App('call:bytes.fromhex', Sym('forged_hex')), App('raw', Sym('signature')))
    chk.ob('R-TEMPLATE', bp.qualname, len(res) == 1 and vkey(res[0].value) == vkey(want), 'forged bytes || raw signature', bp.loc,
           {'got': [vrepr(p.value) for p in res]}, what='binary payload is not the forged bytes followed by the raw signature')
    res = Interp(repo, GroupHooks(), max_depth=1).run_method(bp, lambda: (group(['transaction'], signature=None), [], {}))
    chk.ob('R-PATH', bp.qualname, bool(res) and all(p.outcome == 'raise' for p in res), 'unsigned group has no binary payload', bp.loc,
           what='binary payload of an unsigned group does not fail')
    hf = repo.func(f'{G}.hash')
    res = Interp(repo, GroupHooks(), max_depth=2).run_method(hf, lambda: (group(['transaction']), [], {}))
    want_h = App('mcall:decode', App('b58', App('mcall:digest', App('blake2b', want, 32)), b'o'))
    chk.ob('R-TEMPLATE', hf.qualname, len(res) == 1 and vkey(res[0].value) == vkey(want_h), "base58 'o' of blake2b-256(binary payload)", hf.loc,
           {'got': [vrepr(p.value) for p in res]}, what='group hash is not o(blake2b-256(forged || signature))')

    chk.set_clause('C23.3')
    rows = {(r[0], r[3]) for r in table(repo)}
    ks = repo.func(f'{KEY}.sign')
    for curve in CURVES:
        rs = Interp(repo, KeyHooks(repo), max_depth=2).run_method(ks, lambda c=curve: (key_obj(c), [Sym('message', 'bytes')], {'generic': True}))
        enc = [e for p in rs for e in p.events if isinstance(e, tuple) and e[0] == 'encode']
        ok = bool(enc) and all((e[2], e[1]) in rows for e in enc)
        chk.ob('R-TABLE', ks.qualname, ok, f'generic signature of a {curve.decode()} key has a base58 row', ks.loc,
               {'encodes': [(e[1], e[2]) for e in enc]}, what=f'operation groups from a {curve.decode()} account cannot be signed')

    chk.set_clause('C23.4')
    ref = {'endorsement': 0, 'endorsement_with_slot': 0, 'reveal': 3, 'transaction': 3, 'origination': 3, 'delegation': 3,
           'register_global_constant': 3, 'transfer_ticket': 3, 'smart_rollup_add_messages': 3, 'smart_rollup_execute_outbox_message': 3,
           'proposals': 1, 'ballot': 1, 'activate_account': 2, 'seed_nonce_revelation': 2, 'double_endorsement_evidence': 2, 'double_baking_evidence': 2}
    kmi = repo.module('pytezos.rpc.kind')
    for k, v in ref.items():
        chk.ob('R-TABLE', f'pytezos.rpc.kind.validation_passes[{k}]', vp.get(k) == v, 'validation pass', kmi.relpath, {'found': vp.get(k), 'reference': v},
               what=f'{k} is in validation pass {v}; the table says {vp.get(k)}, which selects the wrong watermark')
    # the consensus watermark is chosen by `pass == 0`: no kind outside the consensus family may sit in pass 0 (failing_noop, which is in no pass, included)
    CONSENSUS = {'endorsement', 'endorsement_with_slot', 'preendorsement', 'attestation', 'preattestation', 'attestation_with_dal', 'attestations_aggregate',
                 'preattestations_aggregate', 'dal_attestation'}
    for k, v in vp.items():
        if k in ref:
            continue
        chk.ob('R-TABLE', f'pytezos.rpc.kind.validation_passes[{k}]', (v == 0) == (k in CONSENSUS), 'pass 0 exactly for consensus kinds', kmi.relpath,
               {'found': v, 'consensus_kind': k in CONSENSUS},
               what=f'{k} is {"a" if k in CONSENSUS else "not a"} consensus operation but the table puts it in validation pass {v}: sign() chooses the consensus '
                    'watermark (0x02 + chain id) exactly for pass 0, so such a group is signed under the wrong watermark')
    chk.minimum('validation pass rows', len(vp), 16)

    # ---- 5 what is signed / hashed is the forging of the CURRENT contents: forge() and hash() are functions of the group as it is when called
    # (a value remembered from an earlier call - memoised forged bytes, a stored opg_hash - goes stale when the same object is re-filled, extended
    # or re-signed).  Each is interpreted twice on one object whose contents / signature are replaced in between.
    chk.set_clause('C23.5')

    class PureHooks(GroupHooks):
        def inline(self, it, fi):
            return fi.qualname in (f'{G}.forge', f'{G}.hash', f'{G}.binary_payload')

        def call(self, it, callee, args, kwargs, node):
            if isinstance(callee, FuncRef) and callee.fi is not None and callee.fi.name == 'forge_operation_group':
                return App('forged', args[0]['branch'] if isinstance(args[0], dict) else args[0], args[0]['contents'] if isinstance(args[0], dict) else None)
            if isinstance(callee, App) and callee.op == 'attr' and callee.args[1] == 'hex':
                return App('hex', callee.args[0])
            if isinstance(callee, FuncRef) and callee.fi is not None and callee.fi.qualname == f'{G}.forge':
                return it.call_function(callee, args, kwargs, node, force_inline=True)
            return super().call(it, callee, args, kwargs, node)

    init = repo.find_method(G, '__init__')
    fg, hs = repo.find_method(G, 'forge'), repo.find_method(G, 'hash')

    def twice(i, fn, change):
        # build the object through the real constructor so that every attribute it initialises (caches included) exists
        o = Obj(G, {})
        i.call_function(FuncRef(init, o, True), [Sym('context')], {'contents': [Sym('content_1')], 'branch': Sym('branch'), 'signature': Sym('signature_1', 'str'),
                                                                  'chain_id': Sym('chain_id'), 'protocol': Sym('protocol'), 'opg_hash': None}, None, force_inline=True)
        o.fields.setdefault('key', Sym('key'))
        o.fields.setdefault('context', Sym('context'))
        r1 = i.call_function(FuncRef(fn, o, True), [], {}, None, force_inline=True)
        change(o)
        r2 = i.call_function(FuncRef(fn, o, True), [], {}, None, force_inline=True)
        return vrepr(r1), vrepr(r2)

    for fn, label, change, marker in (
            (fg, 'forge() after the contents were replaced', lambda o: o.fields.__setitem__('contents', [Sym('content_2')]), ('content_1', 'content_2')),
            (hs, 'hash() after the group was re-signed', lambda o: o.fields.__setitem__('signature', Sym('signature_2', 'str')), ('signature_1', 'signature_2')),
            (hs, 'hash() after the contents were replaced', lambda o: o.fields.__setitem__('contents', [Sym('content_2')]), ('content_1', 'content_2'))):
        it5 = Interp(repo, PureHooks(), max_depth=4)
        res = it5.run_paths(lambda i, fn=fn, change=change: twice(i, fn, change))
        rets = [p.value for p in res if p.outcome == 'return']
        ok = bool(rets) and len(rets) == len(res) and all(marker[0] in a and marker[1] in b and marker[0] not in b for a, b in rets)
        chk.ob('R-FLOW', fn.qualname, ok, f'{label} reflects the new state', fn.loc,
               {'first': [a[:120] for a, _ in rets][:1], 'second': [b[:120] for _, b in rets][:1], 'outcomes': [p.outcome for p in res]},
               what=f'OperationGroup.{fn.name}: {label} still returns a value computed from the earlier state ({[b[:100] for _, b in rets][:1]}): '
                    'the signature / operation hash no longer belongs to the bytes that are injected')

    # ---- 6 a derived group takes the fields it is given: sign() hands the fresh signature to _spawn, fill() the branch / protocol / chain id ------
    chk.set_clause('C23.6')
    from ..absint import ClassRef as _ClassRef
    sp = repo.find_method(G, '_spawn')
    if sp is None:
        raise AnalysisError('C23: OperationGroup has no _spawn')
    ctor_fields = [a.arg for a in repo.find_method(G, '__init__').node.args.args[1:] if a.arg != 'context']
    nsp = 0
    for f in ctor_fields:
        built: List[Dict[str, Any]] = []

        class SpawnHooks(Hooks):
            def call(self, it, callee, args, kwargs, node):
                if isinstance(callee, _ClassRef):
                    built.append(dict(kwargs))
                    return Sym('derived group')
                return NotImplemented

        recv = Obj(G, {k: (Sym('old_' + k) if k != 'contents' else [Sym('old_content')]) for k in ctor_fields} | {'context': Sym('context')})
        res = Interp(repo, SpawnHooks(), max_depth=2).run_method(sp, lambda recv=recv, f=f: (recv, [], {f: Sym('fresh')}))
        if not built or any(p.outcome != 'return' for p in res):
            raise AnalysisError(f'C23: _spawn({f}=...) does not reduce to a constructor call: {[p.outcome for p in res]}')
        nsp += 1
        got = sorted({vrepr(b.get(f)) for b in built})
        chk.ob('R-FLOW', sp.qualname, got == ['$fresh'], f'_spawn({f}=x) builds the group with {f}=x', sp.loc, {'built_with': got},
               what=f'OperationGroup._spawn({f}=fresh value) builds the derived group with {f} = {got}: the value handed over does not replace the one inherited '
                    '(a re-signed group keeps the stale signature, so signature and hash no longer belong to the bytes that are injected)')
    chk.minimum('_spawn fields', nsp, 6)
