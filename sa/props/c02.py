"""C02 Values produced by execution always have the statically expected type.

 1 STRUCTURAL TYPING (typed abstract execution, level 2): on every case of the structural matrix (stack shuffles, pairs and combs, unions, options,
   lists, maps with composite keys, IF*, LOOP*, ITER, MAP, DIP, EXEC) every value left on the stack carries exactly the type (annotation-blind,
   with all argument types) that the checker's own typing of the instruction assigns to that slot.
 2 RESULT TYPES PER OVERLOAD (level 1): for every operand-type overload of every other instruction the pushed values have the reference result
   types (head primitive; full type where the run builds it).
 3 PARAMETRIC CONSTRUCTION: no value of a parametric type (pair, or, option, list, set, map, big_map, ticket, lambda, contract) is instantiated
   from the bare registered class (its type would have no argument types) in the instruction and type modules - neither on an explored path
   nor anywhere in the syntax tree.
 4 TYPE EQUALITY is annotation-blind and structural: assert_type_equal compares primitive, arity, arguments recursively and nothing else.
"""
from __future__ import annotations

import ast
import json
from typing import Any, Dict, List, Set, Tuple

from ..absint import Obj, Unsupported, vrepr
from ..execmodel import tstr, vtype
from ..instrcases import cases, find_class, parse_type, run_case, run_l1
from ..model import AnalysisError, Repo, norm
from ..report import Check
from .c01 import DECIDED_ELSEWHERE, L1_SKIP, REF, canon

M = 'pytezos.michelson'
PARAMETRIC = {'pair', 'or', 'option', 'list', 'set', 'map', 'big_map', 'ticket', 'lambda', 'contract', 'sapling_state', 'sapling_transaction'}


def run(repo: Repo, chk: Check) -> None:
    chk.explanation = (
        'The types carried by the values that the real instruction code leaves on the (real, abstractly interpreted) stack are compared with the '
        'typing computed by the checker from the Michelson reference, per instruction and input shape; bare constructions of parametric types and '
        'the shape of the type-equality predicate are decided on the syntax tree.'
    )
    ref = json.load(open(REF))
    rows = ref['instructions']

    # ---- 1 structural typing ----------------------------------------------------------------------------------------------------------
    chk.set_clause('C02.1')
    nc = 0
    bare: Dict[str, Set[str]] = {}
    thorough = chk.tier == 'thorough'
    for prim, args, stack, desc in cases(thorough):
        q, got, want = run_case(repo, prim, args, stack, unroll=5 if thorough else 3)
        if q is None:
            continue
        nc += 1
        loc = repo.classes[q].loc
        for o in got:
            for e in o.get('events', []):
                if isinstance(e, tuple) and e[0] == 'bare-construct':
                    bare.setdefault(q, set()).add(e[1])
        want_by = {repr(canon(([v[0] for v in o['stack']], o['decisions']))): [v[1] for v in o['stack']] for o in want if o['kind'] == 'stack'}
        bad = []
        n_ok = 0
        for o in got:
            if o['kind'] != 'stack':
                continue
            k = repr(canon(([v[0] for v in o['stack']], o['decisions'])))
            if k not in want_by:
                continue  # a value-level disagreement: C01's subject
            tys = [v[1] for v in o['stack']]
            if tys == want_by[k]:
                n_ok += 1
            else:
                i = next(j for j, (a, b) in enumerate(zip(tys, want_by[k])) if a != b)
                bad.append({'slot': i, 'type': tstr(tys[i]), 'expected': tstr(want_by[k][i])})
        if not want_by:
            continue  # FAILWITH
        chk.ob('R-CONSTRUCT', q, not bad and n_ok > 0, f'{desc}: every stack slot has the reference type', loc, {'paths': n_ok, 'mismatches': bad[:3]},
               what=f'{desc}: stack slot {bad[0]["slot"] if bad else "?"} has type {bad[0]["type"] if bad else "?"}, the typing rules give {bad[0]["expected"] if bad else "?"}'
               if bad else f'{desc}: no path agrees with the reference at the value level (see C01)')
        # the same case with two foreign items in the protected prefix (inside DIP 2): same types slot by slot, prefix untouched
        try:
            q2, got2, _ = run_case(repo, prim, args, stack, unroll=5 if thorough else 3, protect=2)
        except AnalysisError as _e:
            # the analysis can only trip over a guard value if the instruction took one out of the protected prefix
            if 'dip_guard' not in str(_e):
                raise
            got2 = [{'kind': 'raise', 'exc': 'an item of the protected prefix reached the instruction: ' + str(_e)[:100], 'decisions': [], 'trace': [], 'events': []}]
        bad2 = []
        n2 = 0
        for o in got2:
            if o['kind'] != 'stack':
                continue
            k = repr(canon(([v[0] for v in o['stack']], o['decisions'])))
            if k not in want_by or not o.get('prefix_ok'):
                continue  # value-level disagreement / prefix touched: C01's subject
            tys = [v[1] for v in o['stack']]
            if tys == want_by[k]:
                n2 += 1
            else:
                i = next(j for j, (a, b) in enumerate(zip(tys, want_by[k])) if a != b)
                bad2.append({'slot': i, 'type': tstr(tys[i]), 'expected': tstr(want_by[k][i])})
        chk.ob('R-CONSTRUCT', q, not bad2 and n2 > 0, f'{desc}: every stack slot has the reference type inside DIP 2', loc, {'paths': n2, 'mismatches': bad2[:3]},
               what=f'{desc} inside DIP 2: stack slot {bad2[0]["slot"] if bad2 else "?"} has type {bad2[0]["type"] if bad2 else "?"}, the typing rules give '
                    f'{bad2[0]["expected"] if bad2 else "?"}' if bad2 else f'{desc} inside DIP 2: no path agrees with the reference at the value level (the instruction '
                    'reaches into the protected prefix, so the slots hold values of foreign types; see C01)')
    chk.minimum('structural cases', nc, 130)

    # ---- 2 result types per overload --------------------------------------------------------------------------------------------------------
    chk.set_clause('C02.2')
    ctx = Obj('pytezos.context.abstract.AbstractContext', {})
    n1 = 0
    for key, row in sorted(rows.items()):
        if row['kind'] not in ('op', 'env') or (row['prim'], row['args']) in L1_SKIP:
            continue
        for case in row['cases']:
            if (row['prim'], tuple(case['in'])) in DECIDED_ELSEWHERE:
                continue
            try:
                q, res, sent = run_l1(repo, row['prim'], row['args'], case['in'], context=ctx)
            except Unsupported as e:
                raise AnalysisError(f'{key} {case["in"]}: idiom not modelled: {e}')
            if q is None:
                continue
            n1 += 1
            want = [parse_type(o) for o in case['out']]
            bad = []
            rets = [p for p in res if p.outcome == 'return']
            for p in rets:
                for e in p.events:
                    if isinstance(e, tuple) and e[0] == 'bare-construct':
                        bare.setdefault(q, set()).add(e[1])
                st = p.value['stack']
                for i, w in enumerate(want):
                    if i >= len(st):
                        break
                    got_t = vtype(st[i])
                    full = len(got_t) > 1 and '?' not in tstr(got_t)
                    okt = (got_t == w) if full else (got_t[0] == w[0])
                    if not okt:
                        bad.append({'slot': i, 'type': tstr(got_t), 'expected': tstr(w)})
            what_in = ' : '.join(case['in']) or '(nothing)'
            chk.ob('R-TABLE', q, bool(rets) and not bad, f'{row["prim"]} on {what_in} -> {" : ".join(case["out"])}', repo.classes[q].loc, {'paths': len(rets), 'mismatches': bad[:3]},
                   what=f'{row["prim"]} on {what_in}: result slot {bad[0]["slot"]} has type {bad[0]["type"]}, the reference gives {bad[0]["expected"]}' if bad else
                        f'{row["prim"]} on {what_in}: no normal path')
    chk.minimum('overloads', n1, 120)

    # ---- 3 bare parametric construction --------------------------------------------------------------------------------------------------------
    chk.set_clause('C02.3')
    for q, classes in sorted(bare.items()):
        par = sorted(c for c in classes if (repo.class_keyword(c, 'prim') or '') in PARAMETRIC)
        chk.ob('R-CONSTRUCT', q, not par, 'no value is built from a bare parametric class on the explored paths', repo.classes[q].loc, {'classes': par},
               what=f'{q} instantiates {par} without argument types')
    nsites = 0
    registered = {ci.name: q for q, ci in repo.classes.items() if q.startswith(f'{M}.types.') and (ci.keywords.get('prim') or '') in PARAMETRIC}
    for fi in repo.iter_functions(M):
        mod = fi.module.name
        if not (mod.startswith(f'{M}.instructions') or mod.startswith(f'{M}.types') or mod in (f'{M}.program', f'{M}.repl')):
            continue
        for n in ast.walk(fi.node):
            if isinstance(n, ast.Call) and isinstance(n.func, ast.Name) and n.func.id in registered:
                target = repo.resolve_name(fi.module, n.func.id)
                if target != registered[n.func.id]:
                    continue
                nsites += 1
                chk.ob('R-CONSTRUCT', fi.qualname, False, f'`{norm(n)[:60]}` instantiates the bare class {n.func.id}', f'{fi.module.relpath}:{n.lineno}',
                       {'class': target}, what=f'{fi.qualname}: `{norm(n)[:80]}` builds a {repo.class_keyword(target, "prim")} value whose type has no argument types '
                                               f'(type(value).as_micheline_expr() is the bare primitive)')
    # how values ARE built: through cls(...), type(self)(...), or a create_type(...) result - counted for the evidence
    ctor_sites = sum(1 for fi in repo.iter_functions(f'{M}.types') for n in ast.walk(fi.node)
                     if isinstance(n, ast.Call) and (norm(n.func) in ('cls', 'type(self)', 'type(other)') or (isinstance(n.func, ast.Name) and n.func.id in ('cls', 'res_type'))))
    chk.note('parametric_constructions_through_cls', ctor_sites)
    chk.ob('R-CONSTRUCT', 'type and instruction modules', True, f'{nsites} bare parametric constructions found', None, {'sites': nsites, 'via_cls': ctor_sites})
    chk.minimum('constructions through cls / type(self)', ctor_sites, 40)

    # ---- 4 type equality --------------------------------------------------------------------------------------------------------------------------
    chk.set_clause('C02.4')
    fi = repo.func(f'{M}.micheline.Micheline.assert_type_equal')
    asserts = [n for n in ast.walk(fi.node) if isinstance(n, ast.Assert)]
    tests = [norm(a.test) for a in asserts]
    attrs = sorted({n.attr for a in asserts for n in ast.walk(a.test) if isinstance(n, ast.Attribute)})
    rec = [n for n in ast.walk(fi.node) if isinstance(n, ast.Call) and isinstance(n.func, ast.Attribute) and n.func.attr == 'assert_type_equal']
    chk.ob('R-GUARD', fi.qualname, set(attrs) <= {'prim', 'args', 'literal'} and 'prim' in attrs and 'args' in attrs, 'compares primitive, arity and literal only (no annotation)', fi.loc,
           {'assert_tests': tests, 'attributes': attrs}, what=f'assert_type_equal compares {attrs}: types that differ only in annotations are no longer equal (or the primitive is not compared)')
    chk.ob('R-GUARD', fi.qualname, len(rec) == 1 and any(isinstance(p, ast.For) for p in ast.walk(fi.node)), 'recurses into every argument', fi.loc, {'recursive_calls': len(rec)},
           what='assert_type_equal does not recurse into the type arguments: list nat equals list string')
    overrides = [q for q in repo.subclasses(f'{M}.micheline.Micheline') if 'assert_type_equal' in repo.classes[q].methods]
    chk.ob('R-GUARD', 'assert_type_equal overrides', not overrides, 'no subclass replaces the structural comparison', None, {'overrides': overrides},
           what=f'{overrides} override assert_type_equal')
